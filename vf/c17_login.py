"""C17 login histories (round 10): ids after the server's login reply.

Class of behaviour no other shard reaches: every other shard configures its
server by calling Server._set_client_id() itself right before the history, so
the id layout a *login* leaves behind was never observed.  Here the client id
and maxLogins arrive the way they do in a session: a Server object is
constructed with one set of options (the defaults or explicit ones), the
options object is edited afterwards (hardware channels, bus / buffer counts,
max_logins, initial_node_id, reserved_*), then Server.register() runs against
the stand-in server whose reply '/done /notify <clientID> [<maxLogins>]' goes
through the library's real responder path - with the SAME client id the
object already has and with a different one, with maxLogins equal to /
different from the local option / absent (supernova) - optionally followed by
unregister, more edits and a second login on the same object (reply confirming
/ changing the id again).  After every login a short workload allocates audio
buses, control buses and buffers (single and consecutive; small, nearly filling
and exceeding the client's share), creates synths and groups, mentions every
object in commands (/s_new and /n_set values, map symbols, /n_map*, /c_fill,
/c_set*, /b_*), and calls free_default_group(all_users) and free_nodes.

Oracle (layout(), no sc3): the ids every command mentions must come from the
layout the CURRENT options and the REPORTED maxLogins define for the confirmed
client id (SuperCollider convention, Server.newAllocators):
  audio buses    [io + n*cid + reserved, io + n*(cid+1)),  io = outputs + inputs,
                 n = (audio_buses - io) // maxLogins  (hardware channels excluded)
  control buses  [n*cid + reserved, n*(cid+1)),  n = control_buses // maxLogins
  buffers        [n*cid + reserved, n*(cid+1)),  n = buffers // maxLogins
  node ids       [cid*2**26 + initial_node_id, (cid+1)*2**26)
  default groups 2**26*i + 1 for every login i < maxLogins; new nodes without a
                 target go to the client's own one.
An allocation the library refuses (exception) is accepted (C16 decides whether
the refusal was right).  Waits are bounds that end in 'timeout', never a key.
"""

import re
import time as _time

from vf import osc, cmdref
from vf.c17_exec import Violation, _site
from vf.c17_entry import wait_for
from vf.common import short_tb

SPAN = 1 << 26
DEFAULTS = {'input_channels': 2, 'output_channels': 2, 'audio_buses': 1024,
            'control_buses': 16384, 'buffers': 1024, 'max_logins': 1,
            'initial_node_id': 1000, 'reserved_audio_buses': 0,
            'reserved_control_buses': 0, 'reserved_buffers': 0}


def layout(opts, reported, cid):
    ml = reported if reported is not None else opts['max_logins']
    io = opts['output_channels'] + opts['input_channels']
    naud = (opts['audio_buses'] - io) // ml
    nctl = opts['control_buses'] // ml
    nbuf = opts['buffers'] // ml
    return {
        'audio': (io + naud * cid + opts['reserved_audio_buses'], io + naud * (cid + 1)),
        'control': (nctl * cid + opts['reserved_control_buses'], nctl * (cid + 1)),
        'buffer': (nbuf * cid + opts['reserved_buffers'], nbuf * (cid + 1)),
        'node': (cid * SPAN + opts['initial_node_id'], (cid + 1) * SPAN),
        'groups': [SPAN * i + 1 for i in range(ml)],
        'own_group': SPAN * cid + 1,
        'io': io, 'logins': ml,
    }


# ---------------------------------------------------------------------------
# generator (pure data)

def _gen_opts(rng):
    """A complete option set; small or default-sized resources."""
    ml = rng.choice([1, 1, 2, 3, 4, 8])
    inch, outch = rng.choice([(2, 2), (2, 2), (0, 2), (8, 8), (1, 1), (4, 12), (2, 6)])
    o = dict(DEFAULTS)
    o.update({'input_channels': inch, 'output_channels': outch, 'max_logins': ml})
    if rng.random() < 0.6:
        per = rng.choice([rng.randint(6, 12), rng.randint(8, 40), rng.randint(16, 96)])
        o['audio_buses'] = inch + outch + per * ml + rng.randint(0, ml - 1)
        per = rng.choice([rng.randint(6, 12), rng.randint(8, 40), rng.randint(16, 96)])
        o['control_buses'] = per * ml + rng.randint(0, ml - 1)
        per = rng.choice([rng.randint(6, 12), rng.randint(8, 40), rng.randint(16, 64)])
        o['buffers'] = per * ml + rng.randint(0, ml - 1)
    if rng.random() < 0.25:
        o['initial_node_id'] = rng.choice([2, 100, 2000, 5000])
    if rng.random() < 0.2:
        k = rng.choice(['reserved_audio_buses', 'reserved_control_buses', 'reserved_buffers'])
        o[k] = rng.choice([1, 2])
    return o


EDIT_GROUPS = [('input_channels', 'output_channels'), ('audio_buses',),
               ('control_buses',), ('buffers',), ('max_logins',),
               ('initial_node_id',), ('reserved_audio_buses', 'reserved_control_buses',
                                      'reserved_buffers')]


def _sizes(rng, cap, big_ok=True):
    """Requests against a share of `cap` ids."""
    pat = rng.choice(['small', 'fill', 'fill', 'over'] if big_ok else ['small'])
    if pat == 'small' or cap < 4:
        return [rng.choice([1, 1, 2, 3]) for _ in range(rng.randint(1, 4))]
    if pat == 'fill':
        first = cap - rng.randint(0, min(4, cap - 1))
        return [first] + [rng.choice([1, 2, 3, 5]) for _ in range(rng.randint(1, 3))]
    return [rng.choice([1, 2]), cap + rng.randint(0, 3), rng.choice([1, 2, cap // 2 or 1])]


def _gen_round(rng, cur, prev_cid, first):
    """cur: current options (edited in place).  Returns the round."""
    edits = {}
    if rng.random() < (0.75 if first else 0.6):
        target = _gen_opts(rng)
        for grp in rng.sample(EDIT_GROUPS, rng.randint(1, 4)):
            for k in grp:
                if target[k] != cur[k]:
                    edits[k] = target[k]
    cur.update(edits)
    ml = cur['max_logins']
    io = cur['input_channels'] + cur['output_channels']
    smallest = min(cur['audio_buses'] - io, cur['control_buses'], cur['buffers'])
    if smallest < 6:                      # keep every share non-empty
        for k, base in (('audio_buses', io), ('control_buses', 0), ('buffers', 0)):
            if cur[k] - base < 6 * ml:
                cur[k] = edits[k] = base + 6 * ml
        smallest = min(cur['audio_buses'] - io, cur['control_buses'], cur['buffers'])
    r = rng.random()
    if r < 0.55:
        reported = ml
    elif r < 0.7:
        reported = None                   # supernova: no maxLogins in the reply
    else:
        reported = rng.choice([x for x in (1, 2, 3, 4, 6, 8, 16)
                               if x != ml and smallest // x >= 4] or [ml])
    eff = reported if reported is not None else ml
    admissible = min(ml, eff)             # the local option has to admit the id
    if prev_cid < admissible and rng.random() < 0.45:
        cid = prev_cid                    # the reply confirms the id
    else:
        cid = rng.randrange(admissible)
    for k, kind in (('reserved_audio_buses', 'audio'), ('reserved_control_buses', 'control'),
                    ('reserved_buffers', 'buffer')):
        lo, hi = layout(cur, reported, cid)[kind]
        if hi - lo < 4:
            cur[k] = edits[k] = 0
    lay = layout(cur, reported, cid)
    work = []
    for kind, op in (('audio', 'abus'), ('control', 'cbus'), ('buffer', 'buf')):
        lo, hi = lay[kind]
        for n in _sizes(rng, hi - lo, big_ok=(kind != 'buffer' or hi - lo <= 100)):
            how = rng.choice({'abus': ['synth_out', 'set_out', 'mapa', 'mapan', 'as_map'],
                              'cbus': ['fill', 'setn', 'map', 'mapn', 'as_map', 'synth_kin'],
                              'buf': ['set_bufnum', 'synth_bufnum', 'zero']}[op])
            work.append({'op': op, 'n': n, 'how': how})
    rng.shuffle(work)
    for _ in range(rng.randint(0, 2)):
        work.insert(rng.randrange(len(work) + 1),
                    {'op': rng.choice(['group', 'synth'])})
    tail = [{'op': 'free_default_all'}]
    if rng.random() < 0.5:
        tail.append({'op': 'free_nodes'})
    rng.shuffle(tail)
    work.extend(tail)
    return {'edits': edits, 'reply': {'client': cid, 'max_logins': reported},
            'work': work}


def gen_case(rng):
    if rng.random() < 0.5:
        ctor, cur = None, dict(DEFAULTS)
    else:
        ctor = _gen_opts(rng)
        cur = dict(ctor)
    rounds = []
    prev = 0
    for k in range(rng.choice([1, 1, 2])):
        rd = _gen_round(rng, cur, prev, k == 0)
        rd['options_now'] = dict(cur)
        prev = rd['reply']['client']
        rounds.append(rd)
    return {'ctor': ctor, 'rounds': rounds}


# ---------------------------------------------------------------------------
# judge

MAP_SYM = re.compile(r'^([ac])(\d+)$')
SHARE_KEY = {'audio': 'audio-bus-outside-client-share',
             'control': 'control-bus-outside-client-partition',
             'buffer': 'buffer-outside-client-partition'}
VALUE_SLOT = {'out': 'audio', 'in': 'audio', 'kin': 'control', 'bufnum': 'buffer'}


class LoginJudge:
    def __init__(self, lay, cls, info, count):
        self.lay, self.cls, self.info, self.count = lay, cls, info, count

    def fail(self, mech, mm, **w):
        wit = {'command': [mm.addr] + [a if not isinstance(a, (bytes, bytearray))
                                       else f'<{len(a)} bytes>' for a in mm.args][:14],
               'layout': {k: list(v) if isinstance(v, tuple) else v
                          for k, v in self.lay.items() if k != 'groups'},
               'default_groups_expected': self.lay['groups'][:8]}
        wit.update(self.info)
        wit.update(w)
        raise Violation(f'C17/login/{mech}/{self.cls}', wit)

    def share(self, kind, mm, idx, n=1):
        self.count('login_id_mentions_checked')
        self.count(f'login_{kind}_mentions_checked')
        lo, hi = self.lay[kind]
        if not isinstance(idx, int) or not isinstance(n, int):
            return
        if kind == 'audio' and 0 <= idx < self.lay['io']:
            self.fail('audio-bus-inside-hardware-channels', mm, index=idx, channels=n,
                      hardware_channels=self.lay['io'])
        if idx < lo or idx + max(n, 1) > hi:
            self.fail(SHARE_KEY[kind], mm, index=idx, count=n, share=[lo, hi])

    def node(self, mm, nid):
        self.count('login_id_mentions_checked')
        self.count('login_node_mentions_checked')
        lo, hi = self.lay['node']
        if not isinstance(nid, int) or not lo <= nid < hi:
            self.fail('node-id-outside-client-range', mm, node_id=nid, range=[lo, hi])

    def target(self, mm, tid):
        self.count('login_targets_checked')
        if tid != self.lay['own_group']:
            self.fail('target-is-not-own-default-group', mm, target=tid,
                      expected=self.lay['own_group'])

    def values(self, mm, pairs):
        for k in range(0, len(pairs) - 1, 2):
            name, v = pairs[k], pairs[k + 1]
            if isinstance(v, str):
                m = MAP_SYM.match(v)
                if m:
                    self.share('audio' if m.group(1) == 'a' else 'control', mm,
                               int(m.group(2)))
            elif name in VALUE_SLOT and isinstance(v, int):
                self.share(VALUE_SLOT[name], mm, v)

    def message(self, mm):
        a, g = mm.addr, list(mm.args)
        if a == '/s_new' and len(g) >= 4:
            self.node(mm, g[1])
            self.target(mm, g[3])
            self.values(mm, g[4:])
        elif a in ('/g_new', '/p_new'):
            for k in range(0, len(g) - 2, 3):
                self.node(mm, g[k])
                self.target(mm, g[k + 2])
        elif a == '/n_set' and g:
            self.node(mm, g[0])
            self.values(mm, g[1:])
        elif a in ('/n_map', '/n_mapa') and g:
            self.node(mm, g[0])
            for k in range(1, len(g) - 1, 2):
                self.share('audio' if a == '/n_mapa' else 'control', mm, g[k + 1])
        elif a in ('/n_mapn', '/n_mapan') and g:
            self.node(mm, g[0])
            for k in range(1, len(g) - 2, 3):
                self.share('audio' if a == '/n_mapan' else 'control', mm, g[k + 1], g[k + 2])
        elif a in ('/n_free', '/n_run'):
            for nid in (g if a == '/n_free' else g[0::2]):
                self.node(mm, nid)
        elif a == '/c_set':
            for k in range(0, len(g) - 1, 2):
                self.share('control', mm, g[k])
        elif a == '/c_fill':
            for k in range(0, len(g) - 2, 3):
                self.share('control', mm, g[k], g[k + 1])
        elif a == '/c_setn':
            k = 0
            while k + 1 < len(g) and isinstance(g[k + 1], int) and g[k + 1] >= 0:
                self.share('control', mm, g[k], g[k + 1])
                k += 2 + g[k + 1]
        elif a == '/c_get':
            for idx in g:
                self.share('control', mm, idx)
        elif a == '/c_getn':
            for k in range(0, len(g) - 1, 2):
                self.share('control', mm, g[k], g[k + 1])
        elif a.startswith('/b_') and g:
            self.share('buffer', mm, g[0])
        else:
            self.count('login_messages_without_ids')

    def default_groups(self, mm_list, addr, op):
        """The commands of `addr` must name one default group per login."""
        got = [mm.args[0] for mm in mm_list if mm.addr == addr and mm.args
               and mm.args[0] != 0]
        self.count('login_default_group_sets_checked')
        if sorted(got) != self.lay['groups']:
            probe = next((mm for mm in mm_list if mm.addr == addr), mm_list[0])
            self.fail('default-groups-differ-from-one-per-login', probe, op=op,
                      groups_named=got[:20], logins=self.lay['logins'])


# ---------------------------------------------------------------------------
# executor

class Ctx:
    def __init__(self, m, main, wire, count, server_cls, opts_cls, netaddr_cls):
        self.m, self.main, self.wire, self.count = m, main, wire, count
        self.Server, self.ServerOptions, self.NetAddr = server_cls, opts_cls, netaddr_cls
        self.serial = 0


def _fail_lib(where, case, e):
    raise Violation(f'C17/raises/login:{where}/{_site(e)}', {'login': case, 'tb': short_tb(e)})


def _msgs(wire, target):
    out = []
    for data, t in list(wire.calls):
        if t is None or tuple(t) != target:
            continue
        out.extend(cmdref.flatten(osc.decode(data)))
    return out


def _login(ctx, server, reply, secs=8.0):
    ctx.wire.login_reply = (reply['client'], reply['max_logins'])
    done = []
    server.register(on_complete=lambda *a: done.append(1))
    ok = wait_for(lambda: done and server.status.server_running, secs)
    return bool(ok)


def _logout(ctx, server, secs=6.0):
    done = []
    server.unregister(on_complete=lambda *a: done.append(1))
    return wait_for(lambda: done, secs)


def run_case(ctx, case):
    """Returns None or 'timeout'; raises Violation."""
    m, wire, count = ctx.m, ctx.wire, ctx.count
    ctx.serial += 1
    opts = ctx.ServerOptions()
    if case['ctor'] is not None:
        for k, v in case['ctor'].items():
            setattr(opts, k, v)
    name = f'vf17L{ctx.serial}'
    try:
        server = ctx.Server(name, ctx.NetAddr('127.0.0.1', 58000 + ctx.serial % 4000), opts)
    except Exception as e:
        _fail_lib('Server()', case, e)
    server.latency = 0
    target = tuple(server.addr._target)
    registered = False
    try:
        prev_lay = layout(case['ctor'] or DEFAULTS, None, 0)
        for rno, rd in enumerate(case['rounds']):
            with ctx.main._main_lock:
                for k, v in rd['edits'].items():
                    setattr(server.options, k, v)
            reply = rd['reply']
            had = server.client_id
            wire.reset()
            if not _login(ctx, server, reply):
                return 'timeout'
            registered = True
            _time.sleep(0.01)
            lay = layout(rd['options_now'], reply['max_logins'], reply['client'])
            cls = ('reply-confirms-client-id' if reply['client'] == had
                   else 'reply-changes-client-id')
            changed = any(lay[k] != prev_lay[k] for k in
                          ('audio', 'control', 'buffer', 'node', 'groups'))
            count(f'login_rounds:{cls}')
            if changed:
                count(f'login_rounds_layout_changed:{cls}')
            if rd['edits']:
                count('login_rounds_after_options_edited_on_the_object')
            if reply['max_logins'] is None:
                count('login_rounds_reply_without_max_logins')
            elif reply['max_logins'] != rd['options_now']['max_logins']:
                count('login_rounds_reported_max_logins_differs')
            if rno:
                count('login_rounds_second_login_of_the_object')
            info = {'login': case, 'round': rno, 'client_id_before_reply': had,
                    'layout_differs_from_previous': changed}
            if server.client_id != reply['client']:
                raise Violation(f'C17/login/client-id-not-taken-from-reply/{cls}',
                                dict(info, client_id=server.client_id))
            judge = LoginJudge(lay, cls, info, count)
            _work(ctx, server, target, rd['work'], judge, case)
            prev_lay = lay
            count('login_rounds_checked')
            if rno + 1 < len(case['rounds']):
                if not _logout(ctx, server):
                    return 'timeout'
                registered = False
        return None
    finally:
        try:
            if registered:
                _logout(ctx, server, 3.0)
            server._status_watcher._stop_alive_thread()
            ctx.Server.remove(server)
        except Exception:
            count('login_cleanup_errors')
        wire.reset()


def _work(ctx, server, target, work, judge, case):
    m, wire, count = ctx.m, ctx.wire, ctx.count
    held = []             # objects to free at the end of the round
    anchor = [None]

    def call(where, f, refusal_ok=False):
        try:
            return f()
        except Violation:
            raise
        except Exception as e:
            if refusal_ok:
                count('login_allocations_refused')
                return None
            _fail_lib(where, case, e)

    def synth(args):
        return call('Synth', lambda: m.Synth('default', args, server))

    def the_synth():
        if anchor[0] is None:
            anchor[0] = synth([])
        return anchor[0]

    def judge_wire(expect_groups=None, op=None):
        mm_list = _msgs(wire, target)
        wire.reset()
        if expect_groups:
            judge.default_groups(mm_list, expect_groups, op)
            mm_list = [mm for mm in mm_list if mm.addr != expect_groups]
        for mm in mm_list:
            judge.message(mm)
        count('login_messages_judged', len(mm_list))

    wire.reset()
    for op in work:
        kind = op['op']
        if kind == 'abus':
            b = call('AudioBus', lambda: m.AudioBus(op['n'], server), True)
            if b is None:
                continue
            held.append(b)
            how = op['how']
            if how == 'synth_out':
                synth(['out', b])
            elif how == 'set_out':
                call('Node.set', lambda: the_synth().set('out', b))
            elif how == 'mapa':
                call('Node.mapa', lambda: the_synth().mapa('in', b))
            elif how == 'mapan':
                call('Node.mapan', lambda: the_synth().mapan(0, b))
            else:
                call('Node.set', lambda: the_synth().set('amp', b.as_map()))
            count('login_audio_buses_allocated')
        elif kind == 'cbus':
            b = call('ControlBus', lambda: m.ControlBus(op['n'], server), True)
            if b is None:
                continue
            held.append(b)
            how = op['how']
            if how == 'fill':
                call('Bus.fill', lambda: b.fill(0.5, op['n']))
            elif how == 'setn':
                call('Bus.setn', lambda: b.setn([0.25] * op['n']))
            elif how == 'map':
                call('Node.map', lambda: the_synth().map('kin', b))
            elif how == 'mapn':
                call('Node.mapn', lambda: the_synth().mapn(0, b))
            elif how == 'as_map':
                call('Node.set', lambda: the_synth().set('freq', b.as_map()))
            else:
                synth(['kin', b])
            if op['n'] > 1 and how not in ('fill', 'setn', 'mapn'):
                call('Bus.fill', lambda: b.fill(0.0, op['n']))   # names the extent
            count('login_control_buses_allocated')
        elif kind == 'buf':
            if op['n'] == 1:
                bs = call('Buffer', lambda: m.Buffer(8, 1, server), True)
                bs = [bs] if bs is not None else None
            else:
                bs = call('Buffer.new_consecutive',
                          lambda: m.Buffer.new_consecutive(op['n'], 8, 1, server), True)
            if not bs:
                continue
            held.extend(bs)
            how = op['how']
            if how == 'set_bufnum':
                call('Node.set', lambda: the_synth().set('bufnum', bs[-1]))
            elif how == 'synth_bufnum':
                synth(['bufnum', bs[0]])
            else:
                call('Buffer.zero', lambda: bs[-1].zero())
            count('login_buffers_allocated', len(bs))
        elif kind == 'group':
            call('Group', lambda: m.Group(server))
        elif kind == 'synth':
            synth(['amp', 0.1])
        elif kind == 'free_default_all':
            judge_wire()
            call('Server.free_default_group', lambda: server.free_default_group(True))
            judge_wire('/g_freeAll', 'Server.free_default_group(all_users=True)')
            continue
        elif kind == 'free_nodes':
            judge_wire()
            call('Server.free_nodes', server.free_nodes)
            want = 2 + len(judge.lay['groups'])
            wait_for(lambda: len(wire.calls) >= want + 2, 3.0)
            _time.sleep(0.01)
            judge_wire('/g_new', 'Server.free_nodes')
            continue
        judge_wire()
    for o in held:
        call('free', o.free)
    judge_wire()
