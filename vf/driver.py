"""Per-property orchestration: python -m vf.driver <Cxx> [quick|thorough] [--replay f]

Never imports sc3.  Spawns worker subprocesses (one library mode per process),
aggregates their accumulators, classifies witnesses against
known_findings.json, writes evidence/<Cxx>.json and prints the verdict lines.
"""

import concurrent.futures as cf
import importlib
import json
import os
import shutil
import subprocess
import sys
import tempfile
import time

from . import findings
from .common import VERIF_DIR, REPO, jsonable, MAX_SAMPLES

PY = sys.executable


def run_worker(prop, tier, seed, shard, only_case=None, attempt=0):
    scratch = tempfile.mkdtemp(prefix=f'vf-{prop}-')
    try:
        out = os.path.join(scratch, 'result.json')
        spec = {'prop': prop, 'tier': tier, 'seed': seed, 'shard': shard,
                'out': out, 'attempt': attempt}
        if only_case is not None:
            spec['only_case'] = only_case
        spec_path = os.path.join(scratch, 'spec.json')
        json.dump(spec, open(spec_path, 'w'))
        env = dict(os.environ)
        env['HOME'] = os.path.join(scratch, 'home')
        os.makedirs(env['HOME'])
        env['TMPDIR'] = scratch
        env.update({k: str(v) for k, v in shard.get('env', {}).items()})
        hard = float(shard.get('hard_timeout', 600))
        errf = open(os.path.join(scratch, 'stderr.txt'), 'wb')
        t0 = time.time()
        try:
            p = subprocess.run([PY, '-m', 'vf.worker', spec_path], env=env,
                               cwd=VERIF_DIR, stdout=errf, stderr=errf,
                               timeout=hard + 30)
            rc = p.returncode
        except subprocess.TimeoutExpired:
            rc = 'timeout'
        errf.close()
        res = None
        if os.path.exists(out):
            try:
                res = json.load(open(out))
            except Exception:
                res = None
        if res is None:
            tail = open(os.path.join(scratch, 'stderr.txt'), 'rb').read()[-3000:]
            res = {'ok': False, 'shard': shard['name'], 'evaluations': 0,
                   'nontrivial': [], 'nontrivial_overflow': 0, 'counters': {},
                   'samples': [], 'violations': {}, 'inconclusive': [],
                   'extra': {}, 'wall_s': time.time() - t0,
                   'internal_error': f'worker rc={rc}; stderr tail: '
                                     + tail.decode('utf-8', 'replace')}
        res['shard_spec'] = shard
        return res
    finally:
        shutil.rmtree(scratch, ignore_errors=True)


def run_shards(prop, tier, seed, shards, only_case=None):
    maxw = int(os.environ.get('VERIF_JOBS', '16'))
    results = [None] * len(shards)

    def job(i):
        r = run_worker(prop, tier, seed, shards[i], only_case)
        tries = 0
        while (not r.get('ok') or r.get('inconclusive')) and tries < 1 \
                and not r.get('violations'):
            tries += 1
            r2 = run_worker(prop, tier, seed, shards[i], only_case, tries)
            r2['retried'] = tries
            r2.setdefault('first_failure', r.get('internal_error')
                          or r.get('inconclusive'))
            r = r2
        return i, r

    with cf.ThreadPoolExecutor(max_workers=maxw) as ex:
        for i, r in ex.map(job, range(len(shards))):
            results[i] = r
    return results


def main(argv):
    args = [a for a in argv if not a.startswith('--')]
    replay = None
    if '--replay' in argv:
        replay = argv[argv.index('--replay') + 1]
        args = [a for a in args if a != replay]
    prop = args[0]
    tier = args[1] if len(args) > 1 else os.environ.get('VERIF_TIER', 'quick')
    seed = int(os.environ.get('VERIF_SEED', '0') or 0)
    t0 = time.time()
    mod = importlib.import_module('vf.props.' + prop)

    only_case = None
    if replay:
        rp = json.load(open(replay))
        seed = rp.get('seed', seed)
        tier = rp.get('tier', tier)
        shards = [rp['shard_spec']]
        only_case = rp['witness'].get('case') if isinstance(
            rp.get('witness'), dict) else None
    else:
        shards = mod.plan(tier, seed)

    results = run_shards(prop, tier, seed, shards, only_case)

    # ---- aggregate ----------------------------------------------------
    evaluations = 0
    nontrivial = set()
    overflow = 0
    counters = {}
    samples = []
    violations = {}
    inconclusive = []
    excluded = []
    extras = {}
    for r in results:
        if not r.get('ok'):
            excluded.append({'shard': r['shard_spec']['name'],
                             'why': (r.get('internal_error') or '')[-1500:]})
            # partial counters of a crashed shard are not used for "held"
            if not r.get('violations'):
                continue
        evaluations += r['evaluations']
        nontrivial.update(r['nontrivial'])
        overflow += r.get('nontrivial_overflow', 0)
        for k, v in r['counters'].items():
            if k.startswith('max_'):
                counters[k] = max(counters.get(k, v), v)
            elif k.startswith('min_'):
                counters[k] = min(counters.get(k, v), v)
            else:
                counters[k] = counters.get(k, 0) + v
        for s in r['samples']:
            if len(samples) < MAX_SAMPLES + 2:
                samples.append(s)
        for k, v in r['violations'].items():
            ent = violations.setdefault(k, {'count': 0, 'witnesses': []})
            ent['count'] += v['count']
            for w in v['witnesses']:
                if len(ent['witnesses']) < 3:
                    ent['witnesses'].append(
                        {'witness': w, 'shard_spec': r['shard_spec']})
        for why in r.get('inconclusive', []):
            inconclusive.append(f"{r['shard_spec']['name']}: {why}")
        if r.get('extra'):
            pub = {k: v for k, v in r['extra'].items() if k != 'progs'}
            if pub:
                extras[r['shard_spec']['name']] = pub

    # cross-shard checks (differential properties)
    if hasattr(mod, 'finalize') and not replay:
        fin = mod.finalize(results, tier, seed)
        if fin:
            for k, v in fin.get('violations', {}).items():
                ent = violations.setdefault(k, {'count': 0, 'witnesses': []})
                ent['count'] += v['count']
                ent['witnesses'].extend(v['witnesses'][:3])
            for k, v in fin.get('counters', {}).items():
                counters[k] = counters.get(k, 0) + v
            evaluations += fin.get('evaluations', 0)
            nontrivial.update(fin.get('nontrivial', []))
            samples.extend(fin.get('samples', [])[:2])
            inconclusive.extend(fin.get('inconclusive', []))

    # minimum event counts per monitor
    mins = getattr(mod, 'MIN_COUNTERS', {})
    if isinstance(mins.get(tier), dict):
        mins = mins[tier]
    else:
        mins = {k: v for k, v in mins.items() if not isinstance(v, dict)}
    unmet = []
    if not replay:
        for k, need in mins.items():
            if counters.get(k, 0) < need:
                unmet.append(f'{k}={counters.get(k, 0)}<{need}')

    known = findings.known_keys(prop)
    known_seen = {}
    new = {}
    for k, v in violations.items():
        if k in known:
            known_seen[k] = v
        else:
            new[k] = v

    # ---- replay files -------------------------------------------------
    lines = []
    for k, v in known_seen.items():
        lines.append(f"KNOWN-FINDING: property={prop} {k} "
                     f"({v['count']} witnesses this run) - {known[k].get('what', '')}")
    rdir = os.path.join(VERIF_DIR, 'replays')
    os.makedirs(rdir, exist_ok=True)
    for k, v in new.items():
        safe = ''.join(c if c.isalnum() or c in '-_.' else '_' for c in k)[:120]
        path = os.path.join(rdir, f'{safe}.json')
        w = v['witnesses'][0] if v['witnesses'] else {}
        json.dump({'property': prop, 'key': k, 'count': v['count'],
                   'seed': seed, 'tier': tier,
                   'witness': w.get('witness', w),
                   'shard_spec': w.get('shard_spec'),
                   'more_witnesses': [x.get('witness', x)
                                      for x in v['witnesses'][1:]]},
                  open(path, 'w'), indent=1)
        lines.append(f"VIOLATION property={prop} replay={path}")
        lines.append(f"  key={k} count={v['count']}")
        try:
            lines.append('  witness: ' + json.dumps(w.get('witness', w))[:2500])
        except Exception:
            pass

    n_nontrivial = len(nontrivial)
    wall = time.time() - t0
    level = getattr(mod, 'LEVEL', 'exploration')
    cov = {
        'evaluations': int(evaluations),
        'distinct_nontrivial': int(n_nontrivial),
        'rule': getattr(mod, 'RULE', ''),
        'samples': samples,
        'monitor_counters': jsonable(counters),
        'shards': len(shards),
        'shards_excluded': excluded,
        'distinct_hashes_not_tracked_beyond_cap': overflow,
        'known_findings_reobserved': {k: v['count'] for k, v in known_seen.items()},
        'new_violation_keys': {k: v['count'] for k, v in new.items()},
        'inconclusive_notes': inconclusive[:20],
        'exhaustive': False,
    }
    if extras:
        cov['extra'] = jsonable(extras)
    if hasattr(mod, 'coverage_extra'):
        cov.update(mod.coverage_extra(counters, tier))
    ev = {
        'property_id': prop, 'tier': tier if tier in ('quick', 'thorough') else 'quick',
        'seed': seed, 'level': level, 'coverage': cov,
        'assumptions': getattr(mod, 'ASSUMPTIONS', []),
        'wall_s': round(wall, 2),
        'violations': int(sum(v['count'] for v in new.values())),
    }
    if not replay:
        _write_evidence(prop, ev)

    for ln in lines:
        print(ln)
    print(f"[{prop} {tier} seed={seed}] evaluations={evaluations} "
          f"distinct_nontrivial={n_nontrivial} wall={wall:.1f}s "
          f"known={len(known_seen)} new={len(new)} excluded_shards={len(excluded)}")
    for e in excluded[:4]:
        print(f"  excluded shard {e['shard']}: " + ' | '.join(
            x.strip() for x in e['why'][-700:].splitlines() if x.strip())[-600:])
    if os.environ.get('VERIF_VERBOSE'):
        print(json.dumps(counters, indent=1, sort_keys=True))
    if new:
        return 1
    frac_excl = len(excluded) / max(1, len(shards))
    # a shard that crashed or hung on both attempts is never folded into "held":
    # a deadlock introduced in the library shows up exactly like that
    if unmet or evaluations == 0 or n_nontrivial < 2 or excluded:
        why = ';'.join(unmet) or f'excluded_shards={len(excluded)}/{len(shards)}'
        print(f"INCONCLUSIVE property={prop} reason={why}")
        for e in excluded[:3]:
            print('  excluded:', e['shard'], e['why'][-600:])
        return 2
    return 0


def _write_evidence(prop, ev):
    sub = 'evidence' if (os.path.realpath(REPO) == '/repo' and not os.environ.get('VF_COV_DIR')) else '.scratch-evidence'
    path = os.path.join(VERIF_DIR, sub, f'{prop}.json')
    os.makedirs(os.path.dirname(path), exist_ok=True)
    try:
        import jsonschema
        schema = json.load(open('/root/.vp/EVIDENCE.schema.json'))
        jsonschema.validate(ev, schema)
    except ImportError:
        pass
    except FileNotFoundError:
        pass
    except Exception as e:   # schema violation: still write, but say so
        print(f'evidence schema problem: {str(e)[:300]}', file=sys.stderr)
    tmp = path + '.tmp'
    json.dump(ev, open(tmp, 'w'), indent=1)
    os.replace(tmp, path)


if __name__ == '__main__':
    sys.exit(main(sys.argv[1:]))
