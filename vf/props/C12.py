"""C12 - TempoClock time arithmetic and quantisation are consistent.

Monitors
* icontract postconditions (vf/c12_contracts.py) attached from the harness to
  the real TempoClock methods and property setters: conversions are mutually
  inverse and advance at the tempo, tempo / etempo changes keep the current
  (second, beat) pair, the beats setter passes through (now, value), a meter
  change starts a bar now, next_time_on_grid is the earliest congruent beat
  not before the reference, next_bar / bar / beat_in_bar / time_to_next_beat
  ranges.  They also run for the library's own internal calls.
* a reference affine map (vf/c12_model.py) replayed over generated histories
  of tempo / etempo / beats / beats_per_bar changes issued from a routine that
  runs on the clock (vf/c12_run.py): after every change the public readings of
  the clock are compared with the model, every wake-up must come delta / tempo
  seconds after the previous one, grid queries are judged by an independent
  grid oracle against the model's meter reference, and routines played with a
  quant must first wake on the grid point computed at the time of play().
Non-real-time workers for volume (the clock is a pure object there,
main.reset() between cases) and a real-time shard running the same programs
on clock threads.
* real-time 'rtc' shards (vf/c12_conc.py): functions, routines and quantised
  tasks on known beats read clock.beats / clock.seconds repeatedly during their
  wake-up while 1-2 plain threads poll the clocks, under sys.monitoring yield
  injection on the main time thread's getter, _update_logical_time and the
  TempoClock loop; every reading must be the scheduled beat / grid point.
* error paths followed by continued use (round 7): in all of the above the
  played / scheduled tasks end their wake-up in every way a clock has to cope
  with - plain return, generator running off its end, user code raising (five
  exception types, from Function and Routine tasks), StopStream, handing back
  a non-delta - and the clock goes on; the event that runs next (root routine,
  another played task, a task of another clock) is judged like any other and
  keyed '.../right-after-task-ending-with-<how>' (a stale logical time left
  behind by the failed wake-up shows as a wrong second / beat there).
* tasks put on the clock AGAIN (round 8, vf/c12_moved.py; class: a task /
  routine scheduled a second, third ... time on the same TempoClock while its
  first wake-up is still pending, between wake-ups, from inside its own
  wake-up or after it came to rest, and then going on by numeric deltas, with
  tempo / etempo / beats / beats_per_bar changes before and after): Routines
  and Function objects that wake 2-5 times are started by the root routine
  through Routine.play(clock, quant), TempoClock.play(task, quant),
  play_next_bar(task), sched_abs(beat, task) or sched(delta, task) and are
  moved 0-3 times by any of these, by pause() ... resume(clock | None,
  quant) or by the restart idioms reset(); play() and stop(); reset();
  play(); the other ops of the step (map changes, queries) fall between the
  calls.  Every wake-up must be at the beat of the LATEST scheduling (grid
  oracle for the quantised calls with the meter reference of that call, the
  given beat, current beat + delta, the next bar line), every later one at
  previous beat + delta, and its (seconds, beats) reading must lie on the
  reference map; play() on a playing routine and resume() on an unpaused one
  must leave the pending wake-up alone; no wake-up may come for a task at
  rest, none may be missing.  NRT and RT programs alike.  play_next_bar is
  also one of the ways the one-shot children are played.
* reference beats at sub-musical distances from grid / bar lines (round 9,
  'near' / 'rtn' shards, vf/c12_near.py, oracle vf/c12_exact.py; class: the
  reference beat - an explicit argument or the current beat of the calling
  routine - lies ON a line, 1 ... 16 ulp or 1e-15 ... 1e-6 beats BEFORE or
  AFTER it, on fresh clocks and after meter changes at fractional beats, at
  small and large (1e12) beat counts, with whole, fractional, tiny (1e-9) and
  huge (1e9) quants and phases 0, fractions, tiny, next to +-quant): 'never
  before the reference beat' and 'the earliest such beat' are decided in exact
  rational arithmetic (fractions.Fraction of the floats passed and of the
  meter reference the clock publishes) for next_time_on_grid, next_bar,
  time_to_next_beat, bar, beat_in_bar, beats2bars / bars2beats (also as
  inverses), for explicit references and - the root routine aims its wake-ups
  at line + offset and uses the beat it actually woke on - for the current
  beat; tasks played from such beats by TempoClock.play, Routine.play and
  play_next_bar (Routine and plain function) must first wake on an exactly
  admissible line AND where next_time_on_grid / next_bar said in that same
  wake-up.  The only slack is the evaluation noise of the few float operations
  (8 ulp of the magnitudes entering the expression; none at all when nothing
  can be rounded: whole numbers, power-of-two meters with dyadic beats), so a
  "snap to the line when closer than 1e-9", an epsilon before a ceil / floor,
  a `<` for a `<=` on the line are all seen, which the 1e-9 tolerance of the
  model oracle and of the contracts cannot tell from correct answers.
* real-time 'rtm' shards (vf/c12_race.py): every change of a history stays
  continuous when a second party changes the same map concurrently: routines on
  the clock / on another TempoClock change tempo / beats / etempo during
  wake-ups that keep the library lock busy, a plain thread calls etempo /
  tempo / beats setters meanwhile (yield injection inside the three mutators);
  lock-held samples of the clock's line in one total order; every gap must be
  the identity, the routine's own change, or - once per plain call - that
  call's change applied to the line of that very gap (serialisability; a
  pivot taken before the other party's change is keyed 'pivot-from-before-
  the-routine-change').
"""

import types

from vf.common import iter_cases, case_rng, h64, split, short_tb

LEVEL = 'exploration'
RULE = ("seeded programs run by a routine on a real TempoClock: clock created "
        "with random tempo (1e-3..1e3) / beats / seconds, 1-12 wake-ups "
        "separated by random beat deltas, 0-40 tempo / etempo / beats / "
        "beats_per_bar changes and play(quant) of child routines between the "
        "yields, 2-40 queries (next_time_on_grid with integer, fractional, "
        "zero quants, phases in (-q, q), reference beats +-1e6, on-grid "
        "references; conversions; bars).  A program is non-trivial when it "
        "has a map change followed by a query or wake-up and a grid query with "
        "a fractional quant, negative phase or after a meter change; distinct "
        "= hash of the program.  Played tasks end by return / generator end / "
        "raise / StopStream / non-delta value.  0-3 multi-wake tasks (Routine "
        "/ Function object, 1-4 deltas) per program, each scheduled by one of "
        "six entry points and put on the clock again 0-3 times (60 % in the "
        "same step, i.e. before its first wake-up) with the step's other ops "
        "in between.  rtm rounds: 2-3 clocks, each "
        "with 1-2 routines (own clock / another TempoClock) making 100-180 "
        "changes and a plain thread calling etempo / tempo / beats setters; "
        "non-trivial when a plain call took effect after a routine change "
        "made inside its window.  near / rtn programs: 1-4 phases of (meter / "
        "tempo / beats change at a fractional beat, 20-60 queries with "
        "explicit reference beats = grid or bar line k (|k| up to 1e12 / "
        "quant) + offset (on the line, +-1..16 ulp, +-1e-15..1e-5.5 beats "
        "absolute or relative), 2-8 wake-ups aimed at line + offset with 2-6 "
        "current-beat queries and plays each); non-trivial with >= 10 queries "
        "and >= 2 aimed wake-ups")
ASSUMPTIONS = [
    "vf/c12_model.py (affine map, meter reference, grid oracle) is the meaning "
    "of the statement; any whole bar number next to the running bar is "
    "accepted for base_bar",
    "float tolerance: 1e-9 relative + 1e-9 absolute on beats plus 16 ulp per "
    "re-basing of the magnitudes entering the affine map (tempo * seconds)",
    "after the beats setter both readings of 'takes effect after "
    "rescheduling' are accepted for the next wake-up",
    "icontract 2.7.3; its recursion guard is replaced by the harness' own",
    "rtm: etempo(), the tempo setter and the beats setter are public and take "
    "the library lock, so calls from a plain thread are judged for atomicity "
    "against the routines' changes only: continuity at SOME physical second "
    "of the call's duration, no order between the parties assumed; clocks are "
    "not stopped while calls are in flight",
    "a clock holds one entry per task: scheduling a pending task again moves "
    "it (real-time queue by construction; non-real-time scheduler since repo "
    "fix 622fbde, 'moves it, as rt clocks do'); a delta handed back after the "
    "task scheduled itself during the wake-up moves it once more; "
    "Routine.play on a playing routine / resume on an unpaused one do nothing "
    "(doc strings)",
    "near / rtn shards: the library documents no tolerance for the grid "
    "arithmetic, so vf/c12_exact.py grants only the evaluation noise of the "
    "expression itself: 8 * 2**-52 * (|reference| + |base_bar_beat| + quant + "
    "|result| [+ beats_per_bar * (1 + |base_bar|) for bar numbers]) + 1e-300 "
    "(worst-case analysis < 2.5, measured < 1 such units on 10000 programs); "
    "a reference closer than that to a line may be answered with either "
    "neighbouring line; zero when every operation is exact (whole numbers "
    "below 2**31; power-of-two quant / beats_per_bar with multiples of "
    "2**-20 resp. 2**-10); for a played task's first wake-up the noise of one "
    "beats -> seconds -> beats round trip, 8 * 2**-52 * 2 * (max |beat| + "
    "max tempo * (max |second| + 1)), is added",
    "near / rtn shards: the meter reference used by the exact oracle is what "
    "the clock publishes (base_bar_beat, base_bar, beats_per_bar), itself "
    "compared with the model in the grid / hist shards; fractional, tiny and "
    "huge quants are inside 'quant >= 0' of the quantifier",
    "a task that raises is logged by the clock and not rescheduled "
    "(documented 'always recover'); only the events after it are judged",
]
MIN_COUNTERS = {
    'quick': {'restart_histories': 800, 'restart_histories_meter_change_inside': 300,
              'grid_queries_checked': 5000, 'contract_next_time_on_grid': 5000,
              'contract_secs2beats': 5000, 'contract_tempo-setter': 300,
              'contract_etempo': 100, 'contract_beats-setter': 100,
              'contract_beats_per_bar-setter': 100, 'observations': 1000,
              'wake_times_checked': 1000, 'play_first_wakes_checked': 500,
              'grid_queries_after_meter_change': 500,
              'grid_queries_reference_on_grid': 300,
              'next_bar_checked': 50, 'bar_conversions_checked': 100,
              'rt_programs_finished': 20, 'rt_wake_times_checked': 50,
              'rtc_wakeups_checked': 500, 'rtc_wakeups_checked_function': 200,
              'rtc_wakeups_checked_routine': 100,
              'rtc_wakeups_checked_quant-function': 10,
              'rtc_wakeups_checked_quant-routine': 10,
              'rtc_reader_reads': 500,
              'rtc_reader_reads_overlapping_a_wakeup': 20,
              'wakes_checked_right_after_raise': 500,
              'wakes_checked_right_after_stopstream': 30,
              'wakes_checked_right_after_value': 200,
              'rt_wakes_checked_right_after_raise': 10,
              'rtc_wakeups_checked_right_after_raise': 50,
              'rtc_wakeups_checked_right_after_stopstream': 10,
              'rtc_wakeups_checked_right_after_value': 30,
              'moved_task_wakeups': 3000,
              'moved_task_moves_before_first_wake': 800,
              'moved_task_delta_wakes_checked_after_move': 1200,
              'moved_task_wakeups_after_map_change': 600,
              'moved_task_first_wakes_checked_resume': 100,
              'moved_task_first_wakes_checked_play': 80,
              'moved_task_first_wakes_checked_clock.play': 250,
              'moved_task_first_wakes_checked_next_bar': 150,
              'moved_task_first_wakes_checked_sched_abs': 150,
              'moved_task_first_wakes_checked_sched': 150,
              'moved_task_self_moves': 250,
              'moved_task_resets_while_pending': 40,
              'moved_task_stops_while_pending': 40,
              'moved_tasks_moved_and_continued_by_delta': 600,
              'play_next_bar_first_wakes_checked': 400,
              'rt_moved_task_wakeups': 50,
              'rt_moved_task_moves_while_pending': 20,
              'exact_programs_finished': 300,
              'exact_grid_ref_just_after_line': 800,
              'exact_grid_ref_just_before_line': 800,
              'exact_grid_ref_on_line': 600,
              'exact_grid_tiny_quant': 800, 'exact_grid_huge_quant': 800,
              'exact_grid_large_beat_count': 4000,
              'exact_grid_no_rounding_possible_ref_on_line': 150,
              'exact_next_bar_ref_just_after_line': 600,
              'exact_next_bar_ref_just_before_line': 600,
              'exact_next_bar_ref_on_line': 1200,
              'exact_next_bar_after_meter_change_at_fractional_beat': 5000,
              'exact_next_bar_no_rounding_possible_ref_on_line': 300,
              'exact_next_bar_now_ref_just_after_line': 150,
              'exact_next_bar_now_ref_just_before_line': 150,
              'exact_next_bar_now_ref_on_line': 300,
              'exact_grid_now_ref_just_after_line': 200,
              'exact_grid_now_ref_just_before_line': 200,
              'exact_bar_now_ref_just_after_line': 70,
              'exact_bar_now_ref_just_before_line': 70,
              'exact_ttnb_ref_just_after_line': 60,
              'exact_ttnb_ref_just_before_line': 60,
              'exact_bar_conversions_checked': 3000,
              'exact_play_ref_just_after_line': 100,
              'exact_play_ref_on_line': 250,
              'exact_play_next_bar_ref_just_after_line': 50,
              'exact_play_next_bar_ref_on_line': 150,
              'rt_exact_programs_finished': 16,
              'rt_exact_next_bar_checked': 60,
              'rt_exact_next_bar_now_checked': 40,
              'rt_exact_play_next_bar_checked': 20,
              'rtm_routine_wakeups': 3000, 'rtm_plain_changes_checked': 1000,
              'rtm_plain_changes_applied_after_a_routine_change_etempo': 40,
              'rtm_plain_changes_applied_after_a_routine_change_tempo': 40,
              'rtm_plain_changes_applied_after_a_routine_change_beats': 25},
    'thorough': {'restart_histories': 20000, 'restart_histories_meter_change_inside': 8000,
                 'grid_queries_checked': 500000,
                 'contract_next_time_on_grid': 500000,
                 'observations': 100000, 'wake_times_checked': 100000,
                 'play_first_wakes_checked': 50000,
                 'rt_programs_finished': 300, 'rt_wake_times_checked': 1000,
                 'rtc_wakeups_checked': 20000,
                 'rtc_reader_reads_overlapping_a_wakeup': 2000,
                 'wakes_checked_right_after_raise': 50000,
                 'rt_wakes_checked_right_after_raise': 100,
                 'rtc_wakeups_checked_right_after_raise': 2000,
                 'moved_task_wakeups': 150000,
                 'moved_task_moves_before_first_wake': 40000,
                 'moved_task_delta_wakes_checked_after_move': 60000,
                 'moved_task_wakeups_after_map_change': 30000,
                 'play_next_bar_first_wakes_checked': 20000,
                 'rt_moved_task_wakeups': 5000,
                 'rt_moved_task_moves_while_pending': 2000,
                 'exact_programs_finished': 1000,
                 'exact_grid_ref_just_after_line': 4000,
                 'exact_grid_ref_just_before_line': 4000,
                 'exact_next_bar_ref_just_after_line': 3000,
                 'exact_next_bar_ref_just_before_line': 3000,
                 'exact_next_bar_now_ref_just_after_line': 1200,
                 'exact_grid_now_ref_just_after_line': 1800,
                 'exact_play_next_bar_ref_just_after_line': 300,
                 'exact_play_ref_just_after_line': 600,
                 'rt_exact_programs_finished': 300,
                 'rtm_plain_changes_checked': 20000,
                 'rtm_plain_changes_applied_after_a_routine_change_etempo': 800,
                 'rtm_plain_changes_applied_after_a_routine_change_tempo': 800,
                 'rtm_plain_changes_applied_after_a_routine_change_beats': 500},
}


def plan(tier, seed):
    if tier == 'quick':
        n_grid, n_hist, parts, secs = 2000, 2000, 5, 35
        n_rt, rt_parts = 64, 2
    else:
        n_grid, n_hist, parts, secs = 700_000, 450_000, 5, 540
        n_rt, rt_parts = 12000, 2
    shards = []
    # thorough: 16 shards in all, one wave of the driver's 16 workers
    for kind, total in (('grid', n_grid), ('hist', n_hist)):
        for p, (f, n) in enumerate(split(total, parts)):
            shards.append({'name': f'{kind}{p}', 'mode': 'nrt', 'kind': kind,
                           'first_case': f, 'n': n, 'secs': secs,
                           'hard_timeout': secs + 120})
    for p, (f, n) in enumerate(split(n_rt, rt_parts)):
        shards.append({'name': f'rt{p}', 'mode': 'rt', 'kind': 'rt',
                       'first_case': f, 'n': n, 'secs': secs,
                       'hard_timeout': secs + 120})
    # tasks on known beats while plain threads poll the clocks (vf/c12_conc.py)
    n_rtc, cparts, csecs = (24, 2, 12) if tier == 'quick' else (1200, 2, 360)
    for p, (f, n) in enumerate(split(n_rtc, cparts)):
        shards.append({'name': f'rtc{p}', 'mode': 'rt', 'kind': 'rtc',
                       'first_case': f, 'n': n, 'secs': csecs,
                       'p_yield': 0.2, 'hard_timeout': csecs + 120})
    # map changes from a plain thread racing with those of routines on the
    # clocks (vf/c12_race.py)
    n_rtm, mparts, msecs = (64, 4, 20) if tier == 'quick' else (500, 2, 360)
    for p, (f, n) in enumerate(split(n_rtm, mparts)):
        shards.append({'name': f'rtm{p}', 'mode': 'rt', 'kind': 'rtm',
                       'first_case': f, 'n': n, 'secs': msecs,
                       'p_yield': 0.25, 'hard_timeout': msecs + 120})
    # reference beats at sub-musical distances from grid / bar lines, exact
    # rational oracle (vf/c12_near.py, vf/c12_exact.py)
    # (thorough: these four start when the rtc / rtm shards have ended)
    n_near, nparts, nsecs = (600, 2, 25) if tier == 'quick' else (24_000, 3, 170)
    for p, (f, n) in enumerate(split(n_near, nparts)):
        shards.append({'name': f'near{p}', 'mode': 'nrt', 'kind': 'near',
                       'first_case': f, 'n': n, 'secs': nsecs,
                       'hard_timeout': nsecs + 120})
    n_rtn, rsecs = (32, 20) if tier == 'quick' else (1200, 170)
    shards.append({'name': 'rtn0', 'mode': 'rt', 'kind': 'rtn',
                   'first_case': 0, 'n': n_rtn, 'secs': rsecs,
                   'hard_timeout': rsecs + 120})
    # routines that restart their function while scheduled (YieldAndReset), change
    # the meter after the restart and are resumed / played on the grid from
    # another routine (vf/c11_restart.py: the histories of C11's restart shard
    # that touch the grid; judged here: the meter change must be accepted inside
    # the routine and every wake-up lies on the beat the grid gives)
    n_rs, ssecs = (4000, 20) if tier == 'quick' else (300_000, 170)
    shards.append({'name': 'restart0', 'mode': 'nrt', 'kind': 'restart',
                   'first_case': 0, 'n': n_rs, 'secs': ssecs,
                   'hard_timeout': ssecs + 120})
    return shards


def _sc():
    from sc3.base.main import main
    from sc3.base.clock import TempoClock, Quant, SystemClock
    from sc3.base.stream import Routine, StopStream
    from sc3.base.functions import Function
    return types.SimpleNamespace(main=main, TempoClock=TempoClock, Quant=Quant,
                                 SystemClock=SystemClock, Function=Function,
                                 Routine=Routine, StopStream=StopStream)


def _nontrivial(feat):
    return feat['changes'] > 0 and feat['grid'] > 0 and (
        feat['fractional_quant'] or feat['negative_phase']
        or feat['grid_after_meter'])


def run_shard(spec, acc):
    from vf import c12_contracts as K
    import os
    sc = _sc()
    if spec['shard']['kind'] == 'rtc':
        # no contracts here: the readers must stay a tight loop
        from vf.c12_conc import run_rtc
        run_rtc(spec, acc, sc)
        return
    if spec['shard']['kind'] == 'rtm':
        # no contracts either: the sampling is the monitor
        from vf.c12_race import run_rtm
        run_rtm(spec, acc, sc)
        return
    if spec['shard']['kind'] == 'restart':
        from vf.c11_restart import run_restart, touches_grid
        run_restart(spec, acc, 'C12', judged=('call-refused/beats_per_bar', 'wake-up-'),
                    only=touches_grid)
        return
    if spec['shard']['kind'] in ('near', 'rtn'):
        # no contracts (their tolerance is 1e-9): the exact oracle decides
        from vf.c12_near import run_near
        run_near(spec, acc, sc)
        return
    if os.environ.get('VERIF_C12_NO_CONTRACTS'):
        # mutation sanity of the reference-model layer alone (the run is then
        # INCONCLUSIVE by its contract counters, never "held")
        K.MAIN[0] = sc.main
        restore = lambda: None
    else:
        restore = K.attach(sc.TempoClock, sc.main)
    try:
        if spec['shard']['kind'] == 'rt':
            run_rt(spec, acc, sc, K)
        else:
            run_nrt(spec, acc, sc, K)
    finally:
        restore()
        for tag, n in K.EVALS.items():
            acc.count('contract_' + tag, n)


def _report(acc, run, i, extra=None):
    key, detail = run.bads[0]
    w = {'case': i, 'program': run.prog, 'step': run.step_index,
         'wakes': run.wakes[-4:], 'detail': detail}
    if extra:
        w.update(extra)
    acc.violation(key, w)


def run_nrt(spec, acc, sc, K):
    from vf import c12_gen as G, c12_run as R
    kind = spec['shard']['kind']
    counts = {}
    for i in iter_cases(spec):
        rng = case_rng(spec['seed'], 'C12', kind, i)
        prog = G.gen_program(rng, kind)
        feat = G.features(prog)
        acc.case(h64(repr(prog)), nontrivial=_nontrivial(feat))
        sc.main.reset()
        K.take_fails()
        R.PREV_END[0] = 'return'
        run = R.Run(prog, 'nrt', sc, counts)
        if prog.get('create_at'):
            def starter():      # no parameters: a scheduled function
                try:            # gets (function, clock)[:nargs]
                    run.start()
                except BaseException as e:      # harness error
                    run.internal = short_tb(e, 10)
            sc.SystemClock.sched(prog['create_at'], starter)
            counts['clocks_created_at_later_second'] = counts.get(
                'clocks_created_at_later_second', 0) + 1
        else:
            run.start()
        if not run.stop:
            try:
                sc.main.process()
            except K.ContractBroken:
                pass
        if run.internal:
            raise RuntimeError('harness error in routine body, case %d:\n%s'
                               % (i, run.internal))
        fails = K.take_fails()
        if not run.stop and fails:
            # a contract was violated inside a library-internal call and the
            # exception was absorbed there
            acc.violation('C12/contract/' + fails[0]['tag'],
                          {'case': i, 'program': prog, 'contract': fails[0],
                           'where': 'library-internal call'})
            continue
        if not run.stop and not run.finished:
            acc.violation('C12/routine-did-not-complete',
                          {'case': i, 'program': prog, 'step': run.step_index})
            continue
        if not run.stop:
            run.judge_children()
        if run.stop:
            _report(acc, run, i)
        elif acc.want_sample() and feat['changes'] >= 3 and feat['grid'] >= 2 \
                and len(repr(prog)) < 1500:
            acc.sample({'case': i, 'program': prog, 'wakes': run.wakes})
    for k, v in counts.items():
        acc.count(k, v)


def run_rt(spec, acc, sc, K):
    """The same programs on real clock threads, in batches of 8 clocks."""
    import time
    from vf import c12_gen as G, c12_run as R
    counts = {}
    cases = list(iter_cases(spec))
    deadline = time.time() + spec['shard'].get('secs', 40)
    batch = 8
    for at in range(0, len(cases), batch):
        if time.time() > deadline:
            break
        runs = []
        K.take_fails()
        for i in cases[at:at + batch]:
            rng = case_rng(spec['seed'], 'C12', 'rt', i)
            prog = G.gen_program(rng, 'rt')
            feat = G.features(prog)
            acc.case(h64(repr(prog)), nontrivial=feat['changes'] > 0)
            run = R.Run(prog, 'rt', sc, counts)
            run.case = i
            run.start()
            runs.append(run)
        t_end = time.time() + 6.0
        def pending(r):
            if r.stop or r.internal or r.clk is None:
                return False
            return not r.finished or r.mt_pending() or any(
                c['wake'] is None for c in r.children)
        while time.time() < t_end and any(pending(r) for r in runs):
            time.sleep(0.01)
        with sc.main._main_lock:
            late = [r for r in runs if pending(r)]
        for r in runs:
            if r.clk is not None:
                try:
                    r.clk.stop()
                except Exception:
                    pass
        fails = K.take_fails()
        for r in runs:
            if r.internal:
                raise RuntimeError('harness error in routine body, case %d:\n%s'
                                   % (r.case, r.internal))
            if r in late:
                # a missing wake-up is C08's subject; here it only means the
                # program was not observed to the end
                acc.count('rt_programs_unfinished')
                continue
            if not r.stop:
                r.judge_children()
            if r.stop:
                _report(acc, r, r.case)
            else:
                acc.count('rt_programs_finished')
        if fails and not any(r.stop for r in runs):
            acc.violation('C12/contract/' + fails[0]['tag'],
                          {'cases': [r.case for r in runs],
                           'contract': fails[0],
                           'where': 'library-internal call (real time)'})
    if counts.get('wake_times_checked'):
        acc.count('rt_wake_times_checked', counts['wake_times_checked'])
    for k, v in counts.items():
        acc.count('rt_' + k if not k.startswith('rt_') else k, v)
    unfinished = acc.counters.get('rt_programs_unfinished', 0)
    if unfinished > 0.2 * max(1, acc.counters.get('rt_programs_finished', 0)):
        acc.mark_inconclusive(f'{unfinished} real-time programs did not finish')
