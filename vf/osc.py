"""Independent OSC 1.0 reader/writer (does NOT import sc3).

Written from the OSC 1.0 specification:
  * OSC-string: ASCII/UTF-8 bytes, NUL terminated, padded with NULs to a
    multiple of 4 (at least one NUL).
  * OSC-blob: int32 size, bytes, NUL padded to a multiple of 4.
  * message: address string (starts with '/'), type tag string (starts with
    ','), arguments.  Tags: i f s b (required), d t T F N I [ ] h c r m S
    (optional; all handled).
  * bundle: "#bundle\\0", 8-byte timetag, then (int32 size, element)*; size is
    a positive multiple of 4 and elements are messages or bundles.
decode() is strict: any deviation raises OscError.  It consumes all bytes.
"""

import struct


class OscError(Exception):
    pass


class Msg:
    __slots__ = ('addr', 'tags', 'args')

    def __init__(self, addr, tags, args):
        self.addr, self.tags, self.args = addr, tags, args

    def __repr__(self):
        return f'Msg({self.addr!r}, {self.tags!r}, {self.args!r})'

    def __eq__(self, o):
        return isinstance(o, Msg) and (self.addr, self.tags, self.args) == \
            (o.addr, o.tags, o.args)

    def plain(self):
        return [self.addr] + [a.plain() if isinstance(a, (Msg, Bundle)) else a
                              for a in self.args]


class Bundle:
    __slots__ = ('timetag', 'elements')

    def __init__(self, timetag, elements):
        self.timetag, self.elements = timetag, elements

    def __repr__(self):
        return f'Bundle({self.timetag}, {self.elements!r})'

    def __eq__(self, o):
        return isinstance(o, Bundle) and self.timetag == o.timetag \
            and self.elements == o.elements

    def plain(self):
        return [self.timetag] + [e.plain() for e in self.elements]


def _string(b, i, what='string'):
    end = b.find(b'\0', i)
    if end < 0:
        raise OscError(f'{what}: no NUL terminator')
    total = ((end - i) // 4 + 1) * 4
    if i + total > len(b):
        raise OscError(f'{what}: padding runs past the end')
    if any(b[end:i + total]):
        raise OscError(f'{what}: non-NUL padding')
    try:
        s = b[i:end].decode('utf-8')
    except UnicodeDecodeError as e:
        raise OscError(f'{what}: bad utf-8') from e
    return s, i + total


def _blob(b, i):
    if i + 4 > len(b):
        raise OscError('blob: truncated size')
    n, = struct.unpack_from('>i', b, i)
    if n < 0:
        raise OscError('blob: negative size')
    i += 4
    total = (n + 3) // 4 * 4
    if i + total > len(b):
        raise OscError('blob: data runs past the end')
    if any(b[i + n:i + total]):
        raise OscError('blob: non-NUL padding')
    return bytes(b[i:i + n]), i + total


def decode(b):
    """bytes -> Msg | Bundle, strict, whole buffer."""
    b = bytes(b)
    if len(b) % 4:
        raise OscError(f'packet size {len(b)} not a multiple of 4')
    if b[:8] == b'#bundle\0':
        return _bundle(b)
    return _message(b)


def _message(b):
    if not b.startswith(b'/'):
        raise OscError('message address does not start with /')
    addr, i = _string(b, 0, 'address')
    if i >= len(b):
        raise OscError('message without type tag string')
    tags, i = _string(b, i, 'typetags')
    if not tags.startswith(','):
        raise OscError('type tag string does not start with ,')
    tags = tags[1:]
    args, i = _args(b, i, tags, 0, False)
    if i != len(b):
        raise OscError(f'{len(b) - i} trailing bytes after the arguments')
    return Msg(addr, tags, args)


def _args(b, i, tags, k, nested):
    """Parses tags[k:]; returns (args, i) at top level, (args, i, k) nested."""
    out = []
    while k < len(tags):
        t = tags[k]
        k += 1
        if t == 'i':
            if i + 4 > len(b): raise OscError('int: truncated')
            out.append(struct.unpack_from('>i', b, i)[0]); i += 4
        elif t == 'f':
            if i + 4 > len(b): raise OscError('float: truncated')
            out.append(struct.unpack_from('>f', b, i)[0]); i += 4
        elif t == 'd':
            if i + 8 > len(b): raise OscError('double: truncated')
            out.append(('d', struct.unpack_from('>d', b, i)[0])); i += 8
        elif t == 'h':
            if i + 8 > len(b): raise OscError('int64: truncated')
            out.append(('h', struct.unpack_from('>q', b, i)[0])); i += 8
        elif t == 't':
            if i + 8 > len(b): raise OscError('timetag: truncated')
            out.append(('t', struct.unpack_from('>Q', b, i)[0])); i += 8
        elif t in 'sS':
            s, i = _string(b, i)
            out.append(s)
        elif t == 'b':
            bl, i = _blob(b, i)
            out.append(bl)
        elif t == 'T':
            out.append(True)
        elif t == 'F':
            out.append(False)
        elif t == 'N':
            out.append(None)
        elif t == 'I':
            out.append(('I',))
        elif t == 'm':       # 4 bytes: port id, status, data1, data2
            if i + 4 > len(b): raise OscError('midi: truncated')
            out.append(('m', tuple(b[i:i + 4]))); i += 4
        elif t == 'r':       # 32-bit RGBA
            if i + 4 > len(b): raise OscError('rgba: truncated')
            out.append(('r', struct.unpack_from('>I', b, i)[0])); i += 4
        elif t == 'c':       # ASCII character sent as 32 bits
            if i + 4 > len(b): raise OscError('char: truncated')
            out.append(('c', struct.unpack_from('>i', b, i)[0])); i += 4
        elif t == '[':
            sub, i, k = _args(b, i, tags, k, True)
            out.append(sub)
        elif t == ']':
            if not nested:
                raise OscError('unbalanced ]')
            return out, i, k
        else:
            raise OscError(f'unknown type tag {t!r}')
    if nested:
        raise OscError('unbalanced [')
    return out, i


def _bundle(b):
    if len(b) < 16:
        raise OscError('bundle shorter than 16 bytes')
    tt, = struct.unpack_from('>Q', b, 8)
    i = 16
    elements = []
    while i < len(b):
        if i + 4 > len(b):
            raise OscError('bundle element: truncated size')
        n, = struct.unpack_from('>i', b, i)
        i += 4
        if n <= 0 or n % 4:
            raise OscError(f'bundle element size {n} invalid')
        if i + n > len(b):
            raise OscError('bundle element runs past the end')
        elements.append(decode(b[i:i + n]))
        i += n
    return Bundle(tt, elements)


# ---- tiny writer (used to build hostile and reference datagrams) -----------

def pad_str(s):
    raw = s.encode('utf-8') if isinstance(s, str) else bytes(s)
    return raw + b'\0' * (4 - len(raw) % 4)


def enc_blob(x):
    return struct.pack('>i', len(x)) + x + b'\0' * (-len(x) % 4)


def enc_msg(addr, *args, tags=None):
    """Reference encoder: int->i, float->f (float32), str->s, bytes->b,
    True/False/None -> T/F/N, list -> [ ... ]."""
    tt = [',']
    body = []

    def put(a):
        if isinstance(a, bool):
            tt.append('T' if a else 'F')
        elif a is None:
            tt.append('N')
        elif isinstance(a, int):
            tt.append('i'); body.append(struct.pack('>i', a))
        elif isinstance(a, float):
            tt.append('f'); body.append(struct.pack('>f', a))
        elif isinstance(a, str):
            tt.append('s'); body.append(pad_str(a))
        elif isinstance(a, (bytes, bytearray)):
            tt.append('b'); body.append(enc_blob(bytes(a)))
        elif isinstance(a, (list, tuple)):
            tt.append('[')
            for x in a:
                put(x)
            tt.append(']')
        else:
            raise TypeError(a)
    for a in args:
        put(a)
    return pad_str(addr) + pad_str(''.join(tt) if tags is None else tags) \
        + b''.join(body)


def enc_bundle(timetag, *elements):
    out = b'#bundle\0' + struct.pack('>Q', timetag)
    for e in elements:
        out += struct.pack('>i', len(e)) + e
    return out


def f32(x):
    """float -> the value a float32 slot holds (inf on overflow)."""
    try:
        return struct.unpack('>f', struct.pack('>f', x))[0]
    except OverflowError:
        return float('inf') if x > 0 else float('-inf')


SELFTEST = [
    # (bytes, expected plain form) hand-written from the OSC 1.0 spec examples
    (b'/oscillator/4/frequency\0' + b',f\0\0' + bytes.fromhex('43dc0000'),
     ['/oscillator/4/frequency', 440.0]),
    (b'/foo\0\0\0\0' + b',iisff\0\0' + bytes.fromhex('000003e8ffffffff')
     + b'hello\0\0\0' + bytes.fromhex('3f9df3b6') + bytes.fromhex('40b5b22d'),
     ['/foo', 1000, -1, 'hello', f32(1.234), f32(5.678)]),
    (b'#bundle\0' + (1).to_bytes(8, 'big') + (12).to_bytes(4, 'big')
     + b'/a\0\0,i\0\0' + (7).to_bytes(4, 'big'),
     [1, ['/a', 7]]),
    (b'/b\0\0,b\0\0' + (5).to_bytes(4, 'big') + b'abcde\0\0\0', ['/b', b'abcde']),
]


def selftest():
    for raw, exp in SELFTEST:
        got = decode(raw).plain()
        assert got == exp, (raw, got, exp)
    for bad in (b'/a\0\0,i\0\0\0\0\0', b'/a\0\0', b'/abc,i\0\0' + b'\0' * 4,
                b'#bundle\0' + b'\0' * 8 + (-4 & 0xffffffff).to_bytes(4, 'big'),
                b'/a\0\0,b\0\0' + (5).to_bytes(4, 'big') + b'abcde\0\0x'):
        try:
            decode(bad)
        except OscError:
            continue
        raise AssertionError(('accepted', bad))
    assert decode(enc_msg('/x', 1, 2.5, 'hé', b'12345', [1, [2]], True, None)
                  ).plain() == ['/x', 1, 2.5, 'hé', b'12345', [1, [2]], True, None]
    return True
