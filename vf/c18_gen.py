"""C18 generators (no sc3 import): addresses, OSC 1.0 patterns, argument
templates, message arguments and hostile datagrams, plus `diagnose()` which
names the first way a byte string deviates from OSC 1.0 (strict reading by the
independent decoder vf/osc.py)."""

import re
import struct

from . import osc
from .model_dispatch import osc_match, well_formed, FORBIDDEN_IN_ADDRESS

# legal OSC method-name characters that are special for regular expressions
# or for bracket expressions; part of the domain (printable ASCII minus the
# characters OSC 1.0 forbids in addresses)
PLAIN = 'abcxyz0123'
ODD = '.+-$^()|!~_=:@\\'

HIST_PATHS = ['/a', '/a/b', '/ab', '/a/bc', '/foo', '/foo/bar', '/foobar',
              '/x/1', '/x/2', '/x/12', '/fo', '/a.b', '/a+']
SENDERS = [('127.0.0.1', 4001), ('127.0.0.1', 4002), ('127.0.0.2', 4001),
           ('10.1.2.3', 57110)]


def rand_part(rng, lo=1, hi=4, odd=0.15):
    n = rng.randint(lo, hi)
    return ''.join(rng.choice(ODD) if rng.random() < odd else rng.choice(PLAIN)
                   for _ in range(n))


def rand_path(rng, odd=0.15):
    return '/' + '/'.join(rand_part(rng, odd=odd)
                          for _ in range(rng.choice([1, 1, 2, 2, 3])))


def _set_for(rng, c, negate):
    """A bracket expression that accepts c (or, negated, still accepts c)."""
    pool = PLAIN + '.+$^()|~_=:@\\'
    if c == '-':
        # the only way to list '-' itself: at the end of the string, where the
        # spec gives it no special meaning
        return '[' + ''.join(rng.sample(PLAIN, rng.randint(1, 2))) + '-]'
    if negate:
        others = [x for x in pool if x != c]
        body = ''.join(rng.sample(others, rng.randint(1, 3)))
        if rng.random() < 0.3 and c not in 'abc':
            body += 'a-c'
        return '[!' + body + ']'
    kind = rng.random()
    if kind < 0.35 and c.isalnum():
        lo = chr(max(ord(c) - rng.randint(0, 2), ord('0') if c.isdigit() else ord('a')))
        hi = chr(min(ord(c) + rng.randint(0, 2), ord('9') if c.isdigit() else ord('z')))
        body = lo + '-' + hi
        if rng.random() < 0.3:
            body = rng.choice(PLAIN) + body
    else:
        extra = rng.sample(pool, rng.randint(0, 2))
        lst = [c] + extra
        rng.shuffle(lst)
        body = ''.join(lst)
    if body[0] == '!':
        # '!' is only special right after '['
        body = (body[1:] or rng.choice(PLAIN)) + '!'
    r = rng.random()
    if r < 0.08:
        body += '-'                  # spec: trailing minus is a plain '-'
    elif r < 0.13 and not negate:
        body = '-' + body            # nothing on its left: a plain '-' too
    elif r < 0.28 and c.isalnum():
        body += rng.choice(['0-z', '!-~', '0-9a-z'])    # wide ASCII ranges
    return '[' + body + ']'


def generalise_part(rng, part, p=0.35):
    out = []
    i = 0
    while i < len(part):
        c = part[i]
        r = rng.random()
        if r > p or c == ',':
            out.append(c); i += 1
        elif c in '-!':
            out.append(_set_for(rng, c, False)); i += 1
        else:
            k = rng.random()
            if k < 0.25:
                out.append('?'); i += 1
            elif k < 0.5:
                j = rng.randint(i, len(part))       # '*' eats part[i:j] (maybe empty)
                out.append('*'); i = j
            elif k < 0.7:
                out.append(_set_for(rng, c, rng.random() < 0.3)); i += 1
            else:
                j = rng.randint(i + 1, len(part))
                alts = [part[i:j]] + [rand_part(rng, 1, 3, odd=0.05)
                                      for _ in range(rng.randint(1, 2))]
                alts = [a for a in alts if not any(ch in a for ch in ',{}[]*?')]
                if rng.random() < 0.1 and j < len(part):
                    alts.append('')          # empty alternative: matches nothing extra
                rng.shuffle(alts)
                out.append('{' + ','.join(alts) + '}'); i = j
    if rng.random() < 0.1:
        out.insert(rng.randint(0, len(out)), '*')
    return ''.join(out)


def pattern_for(rng, path):
    """A well-formed pattern related to `path`: usually matches it; sometimes
    a near miss (prefix, one part short/long, one char off)."""
    parts = path.split('/')[1:]
    pat = '/' + '/'.join(generalise_part(rng, p) for p in parts)
    r = rng.random()
    if r < 0.15 and len(pat) > 2:
        cut = rng.randint(2, len(pat) - 1)
        cand = pat[:cut]
        if well_formed(cand) and not cand.endswith('/'):
            pat = cand                      # prefix of a matching pattern
    elif r < 0.22 and len(parts) > 1:
        pat = '/' + '/'.join(generalise_part(rng, p) for p in parts[:-1])
    elif r < 0.28:
        pat = pat + '/' + rng.choice(['*', '?', rand_part(rng)])
    elif r < 0.34:
        pat = pat + rng.choice(PLAIN)
    elif r < 0.40:
        pat = '/' + '*' + pat[rng.randint(1, len(pat)):]
        if not well_formed(pat):
            pat = '/*'
    if rng.random() < 0.03 and len(parts) > 1:
        # a bracket list whose ASCII range happens to contain '/' in place of a
        # separator: still one part, must not match the two-part address
        k = rng.randrange(1, len(parts))
        pat = '/' + '/'.join(parts[:k]) + rng.choice(['[!-~]', '[x+-9]', '[a!-~]'][1:]) \
            + '/'.join(parts[k:])
        if not well_formed(pat):
            pat = '/*'
    assert well_formed(pat), pat
    return pat


def related_paths(rng, base):
    """Paths sharing prefixes with base."""
    out = {base, base + rng.choice(PLAIN), base + '/' + rand_part(rng, 1, 2, 0)}
    if len(base) > 2 and not base[:-1].endswith('/'):
        out.add(base[:-1])
    if base.count('/') > 1:
        out.add(base.rsplit('/', 1)[0])
    return [p for p in out if p != '/' and not p.endswith('/')]


MALFORMED_PATTERNS = ['/[', '/{a', '/a}', '/[]', '/[c-a]', '/a[b', '/{a,b',
                      '/x/[', '/*[', '/{', '/a/{b}}', '/[z-a]x']


# ---------------------------------------------------------------- arguments

def rand_arg(rng):
    k = rng.random()
    if k < 0.4:
        return rng.choice([0, 1, 2, 3, 4, 7, -1, 100])
    if k < 0.6:
        return rng.choice([0.0, 0.5, 1.0, 2.5, 3.0, -4.25])
    if k < 0.85:
        return rng.choice(['a', 'b', 'hello', '', 'x/y', 'ñ'])
    if k < 0.92:
        return bytes(rng.randrange(256) for _ in range(rng.randint(1, 6)))
    return rng.choice([True, False])


def rand_args(rng):
    return [rand_arg(rng) for _ in range(rng.choice([0, 1, 1, 2, 2, 3, 4]))]


def rand_template(rng):
    """None | list of None / ('val', v) / ('fn', name)."""
    if rng.random() < 0.55:
        return None
    items = []
    for _ in range(rng.choice([0, 1, 1, 2, 2, 3])):
        k = rng.random()
        if k < 0.3:
            items.append(None)
        elif k < 0.75:
            items.append(('val', rng.choice([0, 1, 2, 3, 0.5, 2.5, 'a', 'hello'])))
        else:
            items.append(('fn', rng.choice(['is_num', 'is_str', 'gt2', 'even',
                                            'always', 'never', 'not3', 'falsy',
                                            'lt5', 'gt2', 'not3'])))
    return items


def args_for_template(rng, template):
    """Arguments likely to satisfy the template (then perturbed by caller)."""
    out = []
    for it in template or []:
        if it is None:
            out.append(rand_arg(rng))
        elif it[0] == 'val':
            out.append(it[1])
        else:
            out.append({'is_num': 3, 'is_str': 'a', 'gt2': 7, 'even': 4,
                        'always': 1, 'never': 1, 'not3': 4, 'falsy': 0,
                        'lt5': 2}[it[1]])
    return out


# ---------------------------------------------------------------- datagrams

def flatten(tree, depth=0):
    """Independent reading of a decoded packet: [(timetag|None, addr, args,
    tags, depth)] in document order (message inherits the timetag of its
    innermost enclosing bundle)."""
    if isinstance(tree, osc.Msg):
        return [(None, tree.addr, _plain_args(tree.args), tree.tags, depth)]
    out = []
    for e in tree.elements:
        if isinstance(e, osc.Msg):
            out.append((tree.timetag, e.addr, _plain_args(e.args), e.tags, depth + 1))
        else:
            out.extend(flatten(e, depth + 1))
    return out


def _plain_args(args):
    out = []
    for a in args:
        if isinstance(a, tuple):
            out.append(a[1] if len(a) > 1 else None)     # ('d', x) ('t', n) ('h', n)
        elif isinstance(a, list):
            out.append(_plain_args(a))
        else:
            out.append(a)
    return out


_REASONS = [
    (r'packet size', 'packet-unaligned'),
    (r'does not start with /', 'not-osc'),
    (r'address: no NUL', 'addr-unterminated'),
    (r'address: padding runs', 'addr-padding-overrun'),
    (r'address: non-NUL', 'addr-padding-not-nul'),
    (r'address: bad utf-8', 'bad-utf8-address'),
    (r'without type tag', 'no-typetags'),
    (r'typetags: ', 'typetags-string-broken'),
    (r'does not start with ,', 'typetags-no-comma'),
    (r'blob: negative', 'blob-size-negative'),
    (r'blob: (truncated|data runs)', 'blob-overrun'),
    (r'blob: non-NUL', 'blob-padding-not-nul'),
    (r'(int|float|double|int64|timetag): truncated', 'arg-truncated'),
    (r'string: bad utf-8', 'bad-utf8-string'),
    (r'string: ', 'string-arg-broken'),
    (r'unbalanced', 'typetags-unbalanced-array'),
    (r'unknown type tag', 'typetags-unknown'),
    (r'shorter than 16', 'bundle-short'),
    (r'element: truncated size', 'elem-size-truncated'),
    (r'runs past the end', 'elem-size-oversized'),
    (r'trailing bytes', 'trailing-bytes'),
]


def diagnose(b):
    """-> ('valid', tree) or (reason, None): first deviation from OSC 1.0 in a
    strict left-to-right reading."""
    try:
        return 'valid', osc.decode(b)
    except osc.OscError as e:
        s = str(e)
        if 'packet size' in s:
            # look for a more specific first deviation behind the alignment rule
            try:
                bb = bytes(b)
                (osc._bundle if bb[:8] == b'#bundle\0' else osc._message)(bb)
            except osc.OscError as e2:
                if 'packet size' not in str(e2):
                    r2 = diagnose_text(str(e2), bb)
                    if r2 in ('elem-size-negative', 'elem-size-oversized',
                              'blob-size-negative'):
                        return r2 + '+unaligned', None
            except RecursionError:
                pass
            return 'packet-unaligned', None
        return diagnose_text(s, b), None
    except RecursionError:
        return 'too-deep-for-decoder', None


def diagnose_text(s, b):
    if True:
        m = re.search(r'bundle element size (-?\d+) invalid', s)
        if m:
            n = int(m.group(1))
            return ('elem-size-negative' if n < 0 else 'elem-size-zero'
                    if n == 0 else 'elem-size-unaligned')
        for rx, name in _REASONS:
            if re.search(rx, s):
                if name == 'not-osc' and bytes(b[:8]) == b'#bundle\0':
                    name = 'elem-not-osc'     # an element that is neither
                return name
        return 'other'


def has_negative_element_size(b, depth=0):
    """Tolerant left-to-right walk over bundle elements (zero, unaligned and
    oversized sizes are skipped over / clipped): is a negative size reached?"""
    b = bytes(b)
    if b[:8] != b'#bundle\0' or depth > 60:
        return False
    i = 16
    while i + 4 <= len(b):
        n, = struct.unpack_from('>i', b, i)
        i += 4
        if n < 0:
            return True
        if has_negative_element_size(b[i:i + n], depth + 1):
            return True
        i += n
    return False


def truncated_element(b, depth=0):
    """Structural walk over the bundle elements (sizes only, the way every
    reader has to walk them: zero and unaligned sizes are stepped over): does
    the datagram END INSIDE an element - 1-3 bytes left where the int32 size
    prefix of the next element is due ('size-prefix'), or an element whose
    size prefix promises more bytes than are left ('body')?  Nested bundles are
    walked the same way inside their own extent.  -> None | 'size-prefix' |
    'body'.  A negative size ends the walk (class of its own).

    This is the quantifier's 'truncated bundle element': what is left of a
    datagram that lost its tail (and, byte for byte the same thing, a bundle
    followed by 1-3 stray bytes).  No reading of such bytes yields a packet -
    the element that was cut is not there - so nothing may be invoked, the
    elements in front of the cut included."""
    b = bytes(b)
    if b[:8] != b'#bundle\0' or len(b) < 16 or depth > 60:
        return None
    i = 16
    while i < len(b):
        if i + 4 > len(b):
            return 'size-prefix'
        n, = struct.unpack_from('>i', b, i)
        i += 4
        if n < 0:
            return None
        if i + n > len(b):
            return 'body'
        inner = truncated_element(b[i:i + n], depth + 1)
        if inner is not None:
            return inner
        i += n
    return None


def bundle_layout(b, base=0, depth=0):
    """Offsets of a VALID bundle by what is there: {offset: class} for every
    cut position 0..len(b) ('header', 'boundary' = the end of a top-level
    element / of the header: what is left is a valid shorter bundle,
    'size-prefix-1..3' = that many bytes into an element's size prefix,
    'body' = inside a message, 'nested-...' = the same inside a nested
    bundle, where every cut is a cut of the enclosing element's body too)."""
    out = {}
    pre = 'nested-' if depth else ''
    for k in range(16):
        out[base + k] = pre + 'header'
    i = 16
    out[base + 16] = pre + 'boundary'
    while i < len(b):
        n, = struct.unpack_from('>i', b, i)
        for k in (1, 2, 3):
            out[base + i + k] = f'{pre}size-prefix-{k}'
        i += 4
        if b[i:i + 8] == b'#bundle\0':
            out.update(bundle_layout(b[i:i + n], base + i, depth + 1))
        else:
            for k in range(n):
                out[base + i + k] = pre + 'body'
        i += n
        out[base + i] = pre + 'boundary'
    return out


def bundle_for_cut(rng, paths, nested=None):
    """A valid bundle of 2-4 elements whose messages all go to `paths` (so
    that standing responders fire for whatever is dispatched); one element may
    be a nested bundle of 1-3 messages."""
    tt = rng.choice([1, 1, 2 ** 63, rng.getrandbits(64)])
    els = []
    n = rng.choice([2, 2, 3, 3, 4])
    nested_at = rng.randrange(n) if (rng.random() < 0.3 if nested is None else nested) else -1
    for k in range(n):
        if k == nested_at:
            inner = [osc.enc_msg(rng.choice(paths), *rand_args(rng))
                     for _ in range(rng.randint(1, 3))]
            els.append(osc.enc_bundle(rng.choice([tt, 1]), *inner))
        else:
            els.append(osc.enc_msg(rng.choice(paths), *rand_args(rng)))
    return osc.enc_bundle(tt, *els)


CUT_CLASSES = ['size-prefix-1', 'size-prefix-2', 'size-prefix-3', 'body', 'boundary',
               'header', 'nested-size-prefix-1', 'nested-size-prefix-2',
               'nested-size-prefix-3', 'nested-body', 'nested-boundary', 'nested-header']


def bundle_cut(rng, paths):
    """A valid multi-element bundle cut at a byte offset; the class of the
    offset is drawn first, then the offset within the class, so that the few
    offsets inside size prefixes are reached as often as the many inside
    message bodies.  -> (bytes, label)"""
    d = bundle_for_cut(rng, paths)
    lay = bundle_layout(d)
    by_class = {}
    for off, c in lay.items():
        if off < len(d):
            by_class.setdefault(c, []).append(off)
    c = rng.choice(sorted(by_class))
    off = rng.choice(by_class[c])
    return d[:off], 'bundle-cut/' + c


EXT_KINDS = ['nul', 'nul', 'ff', 'random', 'element-prefix']


def bundle_extended(rng, paths):
    """A valid multi-element bundle followed by 1-8 bytes nobody announced
    (NULs - 'padding' -, 0xff, arbitrary bytes, the first bytes of one more
    element); in a fifth of the cases the bytes are appended to a nested
    bundle whose size prefix is enlarged to cover them.  -> (bytes, label)"""
    kind = rng.choice(EXT_KINDS)
    k = rng.choice([1, 2, 3, 1, 2, 3, 4, 5, 6, 7, 8])
    if kind == 'nul':
        tail = b'\0' * k
    elif kind == 'ff':
        tail = b'\xff' * k
    elif kind == 'random':
        tail = bytes(rng.randrange(256) for _ in range(k))
    else:
        m = osc.enc_msg(rng.choice(paths), *rand_args(rng))
        tail = (_i32(len(m)) + m)[:k]
    if rng.random() < 0.2:
        inner = osc.enc_bundle(1, *[osc.enc_msg(rng.choice(paths), *rand_args(rng))
                                    for _ in range(rng.randint(1, 2))]) + tail
        els = [osc.enc_msg(rng.choice(paths), *rand_args(rng)) for _ in range(rng.randint(1, 2))]
        els.insert(rng.randint(0, len(els)), inner)
        return osc.enc_bundle(1, *els), f'bundle-extended/nested/{kind}-{k}'
    return bundle_for_cut(rng, paths) + tail, f'bundle-extended/{kind}-{k}'


def cut_sweep(rng, paths):
    """Exhaustive companion of bundle_cut / bundle_extended: one flat and one
    nested bundle cut at EVERY offset 0..len-1, and followed by 1..8 NUL / 0xff
    bytes.  -> [(bytes, label)]"""
    out = []
    for nested in (False, True):
        d = bundle_for_cut(rng, paths, nested=nested)
        lay = bundle_layout(d)
        for off in range(len(d)):
            out.append((d[:off], 'sweep-cut/' + lay[off]))
        for k in range(1, 9):
            out.append((d + b'\0' * k, f'sweep-extended/nul-{k}'))
            out.append((d + b'\xff' * k, f'sweep-extended/ff-{k}'))
    return out


# classes for which *no* reading of the bytes yields an OSC packet, or which
# the property statement names explicitly: any invocation is a violation
STRICT_NOTHING = {'not-osc', 'addr-unterminated', 'bundle-short',
                  'elem-size-negative', 'elem-size-oversized',
                  'blob-size-negative'}

SUPPORTED_TAGS = set('ifsbdtmrTFN[]')   # what the library documents to parse (_osclib.py:
                                        # OscMessage._parse_datagram, OscMessageBuilder.ARG_TYPE_*)


def _i32(n):
    return struct.pack('>i', n)


def valid_msg(rng, paths):
    addr = rng.choice(paths) if rng.random() < 0.8 else rand_path(rng, 0.05)
    return osc.enc_msg(addr, *rand_args(rng))


def valid_bundle(rng, paths, depth=0, tt=None):
    tt = rng.choice([1, 1, 2 ** 63, rng.getrandbits(64), 0xE0000000 << 32]) \
        if tt is None else tt
    els = []
    for _ in range(rng.choice([0, 1, 1, 2, 3])):
        if depth < 3 and rng.random() < 0.25:
            els.append(valid_bundle(rng, paths, depth + 1))
        else:
            els.append(valid_msg(rng, paths))
    return osc.enc_bundle(tt, *els)


def deep_bundle(rng, depth, paths):
    d = valid_msg(rng, paths)
    for _ in range(depth):
        d = osc.enc_bundle(1, d)
    return d


INTERESTING = [-1, -4, -8, -12, -16, -20, -32, -2 ** 31, 0, 1, 2, 3, 5, 2 ** 31 - 1,
               2 ** 31 - 4, 65536, 1000]


def targeted(rng, paths):
    """-> (bytes, generator label)."""
    k = rng.choice(TARGETS)
    m1, m2 = valid_msg(rng, paths), valid_msg(rng, paths)
    hdr = b'#bundle\0' + struct.pack('>Q', rng.choice([1, rng.getrandbits(64)]))
    if k == 'empty':
        return b'', k
    if k == 'garbage':
        return bytes(rng.randrange(256) for _ in range(rng.randint(1, 40))), k
    if k == 'no-slash':
        return osc.pad_str('abc') + osc.pad_str(',i') + _i32(1), k
    if k == 'addr-unterminated':
        return b'/abc' + b'defg' * rng.randint(0, 3), k
    if k == 'bundle-short':
        return b'#bundle\0' + bytes(rng.randrange(256) for _ in range(rng.choice([0, 4, 7]))), k
    if k == 'bundle-tag-truncated':
        return b'#bundle\0'[:rng.randint(1, 7)], k
    if k == 'elem-size-negative':
        n = rng.choice([-1, -4, -4, -4, -8, -12, -16, -20, -24, -(len(m1) + 4),
                        -(len(m1) + 8), -2 ** 31, -3])
        pre = rng.choice([b'', _i32(len(m1)) + m1])
        post = rng.choice([b'', _i32(len(m2)) + m2])
        return hdr + pre + _i32(n) + post, k
    if k == 'elem-size-zero':
        return hdr + _i32(0) + _i32(len(m1)) + m1, k
    if k == 'elem-size-unaligned':
        return hdr + _i32(len(m1) - rng.choice([1, 2, 3])) + m1, k
    if k == 'elem-size-oversized':
        n = len(m1) + rng.choice([4, 8, 1000, 2 ** 31 - 1 - len(m1)])
        pre = rng.choice([b'', _i32(len(m2)) + m2])
        return hdr + pre + _i32(n) + m1, k
    if k == 'elem-size-truncated':
        return hdr + _i32(len(m1)) + m1 + _i32(8)[:rng.randint(1, 3)], k
    if k == 'elem-not-msg-or-bundle':
        junk = osc.pad_str('junk')
        return hdr + _i32(len(junk)) + junk + _i32(len(m1)) + m1, k
    if k == 'nested-negative':
        inner = b'#bundle\0' + struct.pack('>Q', 1) + _i32(len(m1)) + m1 + \
            _i32(rng.choice([-4, -8, -20, -(len(m1) + 4)]))
        return hdr + _i32(len(inner)) + inner + _i32(len(m2)) + m2, k
    if k == 'truncated-anywhere':
        d = rng.choice([m1, valid_bundle(rng, paths), hdr + _i32(len(m1)) + m1])
        return d[:rng.randint(0, max(0, len(d) - 1))], k
    if k == 'typetag-no-comma':
        return osc.enc_msg(rng.choice(paths), 1, tags='i'), k
    if k == 'typetag-unknown':
        return osc.enc_msg(rng.choice(paths), 1, tags=',Zi'), k
    if k == 'typetag-unbalanced':
        return osc.enc_msg(rng.choice(paths), 1, tags=rng.choice([',[i', ',i]', ',]', ',[[i]'])), k
    if k == 'arg-truncated':
        t = rng.choice('ifdt')
        body = bytes(rng.randrange(256) for _ in range(rng.choice([0, 1, 2, 3])))
        return osc.pad_str(rng.choice(paths)) + osc.pad_str(',' + t) + body, k
    if k == 'string-unterminated':
        return osc.pad_str(rng.choice(paths)) + osc.pad_str(',s') + b'abcd' * rng.randint(1, 3), k
    if k == 'blob-size-negative':
        n = rng.choice([-1, -4, -8, -16, -2 ** 31])
        return osc.pad_str(rng.choice(paths)) + osc.pad_str(',bi') + _i32(n) + _i32(5), k
    if k == 'blob-size-oversized':
        return osc.pad_str(rng.choice(paths)) + osc.pad_str(',b') + _i32(rng.choice([5, 100, 2 ** 31 - 1])) + b'abcd', k
    if k == 'bad-utf8-address':
        return b'/a\xff\xfe\0\0\0\0' + osc.pad_str(',i') + _i32(1), k
    if k == 'bad-utf8-string':
        return osc.pad_str(rng.choice(paths)) + osc.pad_str(',s') + b'\xc3\x28\0\0', k
    if k == 'trailing-bytes':
        return m1 + bytes(rng.randrange(256) for _ in range(4)), k
    if k == 'bad-pattern':
        return osc.enc_msg(rng.choice(MALFORMED_PATTERNS), *rand_args(rng)), k
    if k == 'deep':
        return deep_bundle(rng, rng.choice([30, 100, 300, 600, 1500, 3000]), paths), k
    if k == 'optional-tags':
        # valid OSC 1.0 with optional ("non-standard") argument types
        a = rng.choice(paths)
        tags, body = rng.choice([
            (',iNi', _i32(1) + _i32(2)), (',N', b''), (',hi', struct.pack('>qi', 5, 7)),
            (',Si', osc.pad_str('sym') + _i32(9)), (',Ii', _i32(4)),
            (',ihs', _i32(3) + struct.pack('>q', -2) + osc.pad_str('x')),
            (',dN', struct.pack('>d', 0.5)), (',sNf', osc.pad_str('a') + struct.pack('>f', 1.5))])
        m = osc.pad_str(a) + osc.pad_str(tags) + body
        if rng.random() < 0.4:
            return osc.enc_bundle(1, m1, m), k
        return m, k
    if k == 'no-typetags':
        return osc.pad_str(rng.choice(paths)), k
    if k == 'bundle-cut':
        return bundle_cut(rng, paths)
    if k == 'bundle-extended':
        return bundle_extended(rng, paths)
    raise AssertionError(k)


TARGETS = ['empty', 'garbage', 'no-slash', 'addr-unterminated', 'bundle-short',
           'bundle-tag-truncated', 'elem-size-negative', 'elem-size-negative',
           'elem-size-zero', 'elem-size-unaligned', 'elem-size-oversized',
           'elem-size-oversized', 'elem-size-truncated', 'elem-not-msg-or-bundle',
           'nested-negative', 'truncated-anywhere', 'truncated-anywhere',
           'typetag-no-comma', 'typetag-unknown', 'typetag-unbalanced',
           'arg-truncated', 'string-unterminated', 'blob-size-negative',
           'blob-size-oversized', 'bad-utf8-address', 'bad-utf8-string',
           'trailing-bytes', 'bad-pattern', 'deep', 'no-typetags', 'optional-tags',
           'optional-tags', 'bundle-cut', 'bundle-cut', 'bundle-cut', 'bundle-cut',
           'bundle-extended', 'bundle-extended']


def mutate(rng, d):
    """Mutational fuzzing over a valid packet."""
    d = bytearray(d)
    ops = []
    for _ in range(rng.choice([1, 1, 2, 3])):
        if not d:
            break
        op = rng.choice(['flip', 'int', 'int', 'del', 'dup', 'ins', 'trunc', 'byte'])
        ops.append(op)
        if op == 'flip':
            i = rng.randrange(len(d)); d[i] ^= 1 << rng.randrange(8)
        elif op == 'byte':
            i = rng.randrange(len(d)); d[i] = rng.choice([0, 0xff, 0x2f, 0x23, 0x2c, 0x5b, 0x80])
        elif op == 'int' and len(d) >= 4:
            i = rng.randrange(0, len(d) - 3, 4) if len(d) > 4 else 0
            v = rng.choice(INTERESTING + [len(d) - i, len(d) - i + 4])
            d[i:i + 4] = struct.pack('>i', max(-2 ** 31, min(2 ** 31 - 1, v)))
        elif op == 'del':
            i = rng.randrange(len(d)); j = min(len(d), i + rng.choice([1, 4, 8]))
            del d[i:j]
        elif op == 'dup':
            i = rng.randrange(len(d)); j = min(len(d), i + rng.choice([4, 8, 16]))
            d[i:i] = d[i:j]
        elif op == 'ins':
            i = rng.randrange(len(d) + 1)
            d[i:i] = bytes(rng.randrange(256) for _ in range(rng.choice([1, 4])))
        elif op == 'trunc':
            del d[rng.randrange(len(d)):]
    return bytes(d), 'mut/' + '+'.join(ops)


def hostile(rng, paths):
    """-> (bytes, label)."""
    r = rng.random()
    if r < 0.12:
        return valid_msg(rng, paths), 'valid/msg'
    if r < 0.27:
        return valid_bundle(rng, paths), 'valid/bundle'
    if r < 0.62:
        return targeted(rng, paths)
    base = valid_bundle(rng, paths) if rng.random() < 0.7 else valid_msg(rng, paths)
    return mutate(rng, base)


def selftest():
    import random
    rng = random.Random(5)
    n_match = 0
    for _ in range(3000):
        path = rand_path(rng)
        pat = pattern_for(rng, path)
        assert well_formed(pat)
        n_match += osc_match(pat, path)
    assert 1200 < n_match < 2900, n_match
    for _ in range(300):
        path = rand_path(rng)
        pat = '/' + '/'.join(generalise_part(rng, p) for p in path.split('/')[1:])
        assert osc_match(pat, path), (pat, path)
    seen = set()
    for _ in range(4000):
        d, label = hostile(rng, HIST_PATHS)
        seen.add(diagnose(d)[0])
    assert {'valid', 'elem-size-negative', 'elem-size-oversized',
            'blob-size-negative', 'bundle-short'} <= seen, seen
    assert diagnose(b'#bundle\0' + b'\0' * 8 + _i32(-4))[0] == 'elem-size-negative'
    # cut classes: every cut of a valid bundle that is not at a top-level element
    # boundary (or inside the header) ends inside an element, and only those
    for nested in (False, True):
        d = bundle_for_cut(rng, HIST_PATHS, nested=nested)
        assert diagnose(d)[0] == 'valid' and truncated_element(d) is None
        lay = bundle_layout(d)
        assert sorted(lay) == list(range(len(d) + 1)), (len(d), sorted(lay)[-3:])
        for off in range(len(d) + 1):
            c, t = lay[off], truncated_element(d[:off])
            if c == 'boundary':
                assert t is None and diagnose(d[:off])[0] == 'valid', (off, c, t)
            elif c == 'header':
                assert t is None, (off, c, t)
            elif c.startswith('size-prefix'):
                assert t == 'size-prefix', (off, c, t)
            else:
                assert t == 'body', (off, c, t)
        for k in (1, 2, 3, 5, 6, 7):
            assert truncated_element(d + b'\0' * k) == 'size-prefix'
        assert truncated_element(d + b'\0' * 4) is None
    seen = set()
    for _ in range(600):
        seen.add(bundle_cut(rng, HIST_PATHS)[1])
    assert {'bundle-cut/' + c for c in CUT_CLASSES} <= seen, seen
    return True
