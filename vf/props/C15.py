"""C15 - operators lift uniformly over functions, streams, patterns, lists,
channel lists and operands; numeric kernels satisfy their range/inverse laws.

Monitors
* lifting (methods): every operator method found in vars(AbstractObject)
  (special methods are applied the way Python applies them: -a, a + b, 3 + a,
  abs(a), round(a), math.floor(a) ...) is applied to freshly built operands of
  every kind; the composed object is evaluated to a normal form and compared
  with the plain numeric selector applied to the operands' known values
  (vf/c15_kinds.py: element-wise, shortest stream, list wrap-around, left
  operand decides the outer structure).  Exception *types* must agree too.
* lifting (builtins): the same for every function of sc3.base.builtins made by
  the scbuiltin decorators, including the number-on-the-left forms.
* laws: wrap/fold/wrap2/fold2/clip2 inside closed bounds, clip idempotent, round/roundup/
  trunc multiples of the quantum on the correct side, mod in [0, b), the four
  inverse pairs (vf/c15_laws.py; in-domain arguments only).
* meta: a method's selector has the method's name; every binary special
  method has its reflected form; no operator method is hidden by an instance
  attribute of a subclass.
Kernel bugs cancel in the lifting law (same kernel on both sides) and are the
law monitors' business.
"""

from vf.common import iter_cases, case_rng, h64, split, short_tb, tb_sites

LEVEL = 'exploration'
RULE = ("operator entry points enumerated by introspection (all operator methods "
        "of AbstractObject, all scbuiltin-decorated functions of "
        "sc3.base.builtins; one counter per entry point), each applied round-"
        "robin to random operand kinds {int, float, Function, composed Function, "
        "Routine, composed stream, Pattern, composed pattern, ChannelList, nested "
        "ChannelList, arrayed_param, list, tuple, nested list, Operand, Rest} on "
        "either side with random small int/float values; law samples draw "
        "in-domain int/float arguments incl. boundaries and mixed types; a lifting "
        "case is non-trivial when the evaluation is a value (not an exception); "
        "a law case always is; distinct = hash of entry point, kinds and values")
ASSUMPTIONS = [
    "the numeric meaning of an operator method is the selector it hands to the "
    "composition hook (found with a probe object), applied to plain numbers; "
    "its name is checked against the method name",
    "vf/c15_kinds.py reference: streams end with the shortest operand, lists "
    "wrap around, the left operand decides the outer structure, functions are "
    "evaluated at the call argument, operands unwrap to their value",
    "a list receiver combined with a Routine on the right is not generated (the "
    "channels would share one stateful routine; evaluation order is unspecified)",
    "law tolerances: 4 ulp of the largest argument for range laws, 1e-12 "
    "relative for multiples, 1e-9 relative for inverse pairs (vf/c15_laws.py)"]
MIN_COUNTERS = {
    'quick': {'lift_method_evaluations': 8000, 'lift_builtin_evaluations': 8000,
              'lift_value_agreements': 6000, 'law_samples': 20000,
              'max_method_entry_points': 100, 'max_builtin_entry_points': 100,
              'meta_checks': 100},
    'thorough': {'lift_method_evaluations': 1000000,
                 'lift_builtin_evaluations': 1000000,
                 'lift_value_agreements': 800000, 'law_samples': 3000000,
                 'max_method_entry_points': 100, 'max_builtin_entry_points': 100,
                 'meta_checks': 100},
}


def plan(tier, seed):
    q = tier == 'quick'
    secs = 45 if q else 600
    shards = []
    for kind, total, parts in (('lift_m', 24000 if q else 2_500_000, 5 if q else 6),
                               ('lift_b', 24000 if q else 2_500_000, 5 if q else 6),
                               ('laws', 120000 if q else 6_000_000, 4 if q else 3)):
        for p, (f, n) in enumerate(split(total, parts)):
            shards.append({'name': f'{kind}{p}', 'mode': 'nrt', 'kind': kind,
                           'first_case': f, 'n': n, 'secs': secs,
                           'hard_timeout': secs + 120})
    shards.append({'name': 'meta', 'mode': 'nrt', 'kind': 'meta', 'first_case': 0,
                   'n': 1, 'secs': secs, 'hard_timeout': secs + 120})
    return shards


class Timeout(BaseException):
    pass


def _alarm(signum, frame):
    raise Timeout()


class time_limit:
    def __init__(self, secs):
        self.secs = secs

    def __enter__(self):
        import signal
        self.old = signal.signal(signal.SIGALRM, _alarm)
        signal.setitimer(signal.ITIMER_REAL, self.secs)

    def __exit__(self, *exc):
        import signal
        signal.setitimer(signal.ITIMER_REAL, 0)
        signal.signal(signal.SIGALRM, self.old)
        return False


# ---------------------------------------------------------------------------
# operand kind selection

def other_kinds_for(akind, rng, plain_ok=True):
    """Kinds allowed on the other side of a binary operator whose receiver
    (the operand that decides the structure) has kind akind."""
    from vf import c15_kinds as ck
    fam = ck.family(akind)
    kinds = list(ck.NUMBER_KINDS) * 2 + list(ck.ABSTRACT_KINDS)
    if fam == 'channels':
        kinds = [k for k in kinds if ck.family(k) != 'stream']
        if plain_ok:
            kinds += ck.PLAIN_LIST_KINDS * 2
    return kinds


def narop_arg_kinds(akind):
    from vf import c15_kinds as ck
    fam = ck.family(akind)
    if fam == 'function':
        return ck.NUMBER_KINDS * 2 + ck.FUNC_KINDS
    if fam in ('stream', 'pattern'):
        return ck.NUMBER_KINDS * 2 + ['routine', 'pattern', 'cpattern']
    if fam == 'channels':
        return ck.NUMBER_KINDS
    if fam == 'operand':
        return ck.NUMBER_KINDS * 2 + ck.OPERAND_KINDS
    return ck.NUMBER_KINDS


RANDOM_RECEIVERS = ['func', 'cfunc', 'operand', 'rest', 'routine', 'pattern',
                    'chan', 'aparam']


def vrepr(nf):
    return repr(nf)[:300]


def lift_key(entry_kind, fam, hook, others, overridden=None):
    o = '+'.join(sorted(set(others))) if others else 'none'
    k = f'C15/lifting/{fam}/{entry_kind}-{hook}/with-{o}'
    if overridden:
        k += f'/{overridden}'
    return k


def overridden_by(obj, name):
    """Name of the class that overrides an operator method of AbstractObject
    (e.g. Operand.__eq__), else None."""
    from sc3.base import absobject as aob
    for cls in type(obj).__mro__:
        if name in cls.__dict__:
            if cls is aob.AbstractObject:
                return None
            return f'{cls.__name__}.{name}'
    return None


# ---------------------------------------------------------------------------

def run_lift_methods(spec, acc):
    from vf import c15_kinds as ck, c15_ops as ops
    m = ck.mods()
    entries = ops.method_entries()
    bents = ops.builtin_entries()
    acc.counters['max_method_entry_points'] = len(entries)
    for e in entries:
        e['random'] = ops.random_selector(e['selector'], bents)
    ne = len(entries)
    for i in iter_cases(spec):
        rng = case_rng(spec['seed'], 'C15', 'lift_m', i)
        e = entries[i % ne]
        name, hook, sel = e['name'], e['hook'], e['selector']
        acc.count('m_' + name)
        x0 = rng.choice([-2, 0, 1, 3, 0.5, 2.5])
        ints = rng.random() < 0.5
        if e['random']:
            akind = rng.choice(RANDOM_RECEIVERS)
        else:
            akind = ck.ABSTRACT_KINDS[(i // ne) % len(ck.ABSTRACT_KINDS)] \
                if rng.random() < 0.7 else rng.choice(ck.ABSTRACT_KINDS)
        fam = ck.family(akind)
        a, nfa = ck.make(akind, rng, x0, ints)
        nsup = e['nreq'] + (rng.randint(0, e['nopt']) if e['nopt'] else 0)
        okinds, objs, nfs = [], [], []
        expand = False
        for j in range(nsup):
            if e['random']:
                k = rng.choice(ck.NUMBER_KINDS)
            elif hook == 'rbinop':
                k = rng.choice(ck.NUMBER_KINDS)     # plain number on the left
            elif hook == 'binop':
                k = rng.choice(other_kinds_for(akind, rng))
            else:
                k = rng.choice(narop_arg_kinds(akind))
                if fam == 'channels' and rng.random() < 0.12:
                    k = rng.choice(['chan', 'list'])
                    expand = True
            o, nf = ck.make(k, rng, x0, ints)
            okinds.append(k); objs.append(o); nfs.append(nf)
        # selector arguments after the receiver, from the probe's template
        sargs = []
        for kind_, v in e['template']:
            if kind_ == 'const':
                sargs.append(v)
            elif v < nsup:
                sargs.append(nfs[v])
            else:
                sargs.append(e['opt_defaults'][v - e['nreq']])
        seedv = rng.randrange(10 ** 9)
        # -- reference ---------------------------------------------------
        m['main']._m_rgen.seed(seedv)
        if hook == 'unop':
            exp = ck.ap1(sel, nfa)
        elif hook == 'binop':
            exp = ck.ap2(sel, nfa, sargs[0])
        elif hook == 'rbinop':
            exp = ck.ap2(sel, sargs[0], nfa)
        else:
            exp = ck.apn(sel, nfa, sargs, expand_lists=expand)
        exp = ck.collapse(exp)
        # -- the library ---------------------------------------------------
        m['main']._m_rgen.seed(seedv)
        try:
            with time_limit(10):
                try:
                    if e['dunder']:
                        call = ops.DUNDER_CALL[name]
                        if hook == 'rbinop':
                            comp = call(objs[0], a)
                        else:
                            comp = call(a, *objs)
                    else:
                        comp = getattr(a, name)(*objs)
                    got = ck.evaluate(comp, x0)
                except Exception as ex:
                    got = ('exc', type(ex).__name__)
        except Timeout:
            got = ('exc', 'HANG')
        acc.count('lift_method_evaluations')
        acc.count(f'receiver_{akind}')
        for k in okinds:
            acc.count(f'other_{k}')
        sig = (name, akind, tuple(okinds), vrepr(nfa), vrepr(nfs), x0)
        isval = not ck.is_exc(exp)
        acc.case(h64(sig), nontrivial=isval)
        if ck.same(exp, got):
            acc.count('lift_value_agreements' if isval else
                      'lift_exception_agreements')
        else:
            others = [ck.family(k) if not (hook == 'narop' and k in ('cfunc',))
                      else 'composed-function' for k in okinds]
            if expand:
                key = 'C15/lifting/channels/method-narop/list-argument-not-expanded'
            else:
                key = lift_key('method', fam, hook, others,
                               overridden_by(a, name))
            acc.violation(key, {
                'case': i, 'method': name, 'selector': getattr(sel, '__name__', '?'),
                'receiver_kind': akind, 'receiver_value': vrepr(nfa),
                'other_kinds': okinds, 'other_values': vrepr(nfs), 'x0': x0,
                'expected': vrepr(exp), 'library': vrepr(got)})
        if acc.want_sample() and isval and okinds and rng.random() < 0.01:
            acc.sample({'case': i, 'method': name, 'receiver': akind,
                        'others': okinds, 'receiver_value': vrepr(nfa),
                        'other_values': vrepr(nfs), 'evaluates_to': vrepr(got)})


def run_lift_builtins(spec, acc):
    from vf import c15_kinds as ck, c15_ops as ops
    m = ck.mods()
    entries = ops.builtin_entries()
    acc.counters['max_builtin_entry_points'] = len(entries)
    ne = len(entries)
    for i in iter_cases(spec):
        rng = case_rng(spec['seed'], 'C15', 'lift_b', i)
        e = entries[i % ne]
        name, arity, fn, func = e['name'], e['arity'], e['wrapper'], e['func']
        acc.count('b_' + name)
        x0 = rng.choice([-2, 0, 1, 3, 0.5, 2.5])
        ints = rng.random() < 0.5
        nsup = e['nreq'] + (rng.randint(0, e['nopt']) if e['nopt'] else 0)
        number_left = arity == 'binop' and nsup >= 1 and rng.random() < 0.35 \
            and not e['random']
        if e['random']:
            akind = rng.choice(RANDOM_RECEIVERS)
        elif number_left:
            akind = rng.choice(ck.NUMBER_KINDS + ck.PLAIN_LIST_KINDS[:1])
        else:
            akind = ck.ABSTRACT_KINDS[(i // ne) % len(ck.ABSTRACT_KINDS)] \
                if rng.random() < 0.7 else rng.choice(ck.ABSTRACT_KINDS)
        a, nfa = ck.make(akind, rng, x0, ints)
        okinds, objs, nfs = [], [], []
        for j in range(nsup):
            if e['random']:
                k = rng.choice(ck.NUMBER_KINDS)
            elif number_left:
                k = rng.choice(ck.CHAN_KINDS) if akind == 'list' else \
                    rng.choice(ck.ABSTRACT_KINDS)
            elif arity == 'binop':
                k = rng.choice(other_kinds_for(akind, rng))
            else:
                k = rng.choice(narop_arg_kinds(akind))
            o, nf = ck.make(k, rng, x0, ints)
            okinds.append(k); objs.append(o); nfs.append(nf)
        sargs = list(nfs) + list(e['opt_defaults'][nsup - e['nreq']:]) \
            if arity != 'unop' else []
        seedv = rng.randrange(10 ** 9)
        m['main']._m_rgen.seed(seedv)
        if arity == 'unop':
            exp = ck.ap1(func, nfa)
        elif arity == 'binop':
            exp = ck.ap2(func, nfa, sargs[0])
        else:
            exp = ck.apn(func, nfa, sargs)
        exp = ck.collapse(exp)
        m['main']._m_rgen.seed(seedv)
        try:
            with time_limit(10):
                try:
                    comp = fn(a, *objs)
                    got = ck.evaluate(comp, x0)
                except Exception as ex:
                    got = ('exc', type(ex).__name__)
        except Timeout:
            got = ('exc', 'HANG')
        acc.count('lift_builtin_evaluations')
        if number_left:
            acc.count('builtin_number_on_the_left')
        acc.count(f'receiver_{akind}')
        for k in okinds:
            acc.count(f'other_{k}')
        sig = (name, akind, tuple(okinds), vrepr(nfa), vrepr(nfs), x0)
        isval = not ck.is_exc(exp)
        acc.case(h64(sig), nontrivial=isval)
        if ck.same(exp, got):
            acc.count('lift_value_agreements' if isval else
                      'lift_exception_agreements')
        else:
            if number_left:
                fam, hook = ck.family(okinds[0]), 'rbinop'
                others = [ck.family(akind)]
            else:
                fam, hook = ck.family(akind), arity
                others = [ck.family(k) if not (arity == 'narop' and k == 'cfunc')
                          else 'composed-function' for k in okinds]
            acc.violation(lift_key('builtin', fam, hook, others), {
                'case': i, 'builtin': name, 'receiver_kind': akind,
                'receiver_value': vrepr(nfa), 'other_kinds': okinds,
                'other_values': vrepr(nfs), 'x0': x0, 'expected': vrepr(exp),
                'library': vrepr(got)})
        if acc.want_sample() and isval and okinds and rng.random() < 0.01:
            acc.sample({'case': i, 'builtin': name, 'receiver': akind,
                        'others': okinds, 'receiver_value': vrepr(nfa),
                        'other_values': vrepr(nfs), 'evaluates_to': vrepr(got)})


def run_laws(spec, acc):
    from vf import c15_laws as laws
    from sc3.base import builtins as bi
    names = sorted(laws.LAWS)
    for i in iter_cases(spec):
        rng = case_rng(spec['seed'], 'C15', 'laws', i)
        law = names[i % len(names)]
        try:
            args, bad = laws.LAWS[law](bi, rng)
        except Exception as e:
            sites = tb_sites(e)
            where = sites[-1][1] if sites else '?'
            acc.violation(f'C15/law/{law}/raises-{type(e).__name__}/{where}',
                          {'case': i, 'law': law, 'tb': short_tb(e)})
            acc.case(h64((law, i)), nontrivial=True)
            continue
        acc.count('law_samples')
        acc.count('law_' + law)
        if law == 'inverse':
            acc.count('law_inverse_' + args['pair'])
        if 'op' in args:
            acc.count('law_op_' + args['op'])
        acc.case(h64((law, repr(sorted(args.items())))), nontrivial=True)
        if bad:
            lawname = bad[2] if len(bad) > 2 else law
            key = f'C15/law/{lawname}/' + '/'.join(bad[:2])
            w = dict(args)
            w.update({'case': i, 'law': law})
            acc.violation(key, w)
        elif acc.want_sample() and rng.random() < 0.001:
            acc.sample({'case': i, 'law': law, **args})


def run_meta(spec, acc):
    import inspect
    import re
    from vf import c15_ops as ops
    from sc3.base import absobject as aob
    import sc3.all  # noqa: every subclass defined
    entries = ops.method_entries()
    names = {e['name'] for e in entries}
    # 1. a method's selector carries the method's name
    for e in entries:
        ok, want, got = ops.selector_name_ok(e)
        acc.count('meta_checks')
        acc.count('meta_selector_names_checked')
        if not ok:
            acc.violation(f"C15/method-selector-name/{e['name']}",
                          {'case': 0, 'method': e['name'], 'selector': got,
                           'expected_name': want})
    # 2. every binary special method has its reflected form
    for e in entries:
        n = e['name']
        if e['hook'] == 'binop' and n.startswith('__') and \
                n not in ('__lt__', '__le__', '__eq__', '__ne__', '__gt__',
                          '__ge__', '__round__', '__trunc__'):
            acc.count('meta_checks')
            acc.count('meta_reflected_forms_checked')
            r = '__r' + n[2:]
            ent = [x for x in entries if x['name'] == r]
            if not ent or ent[0]['hook'] != 'rbinop' or \
                    ent[0]['selector'] is not e['selector']:
                acc.violation(f'C15/reflected-form-missing/{n}',
                              {'case': 0, 'method': n, 'reflected': r,
                               'found': bool(ent)})
    # 3. operator methods hidden by instance attributes of subclasses
    public = {n for n in names if not n.startswith('_')}

    def subclasses(c):
        for s in c.__subclasses__():
            yield s
            yield from subclasses(s)
    seen = set()
    for cls in subclasses(aob.AbstractObject):
        if cls in seen or not cls.__module__.startswith('sc3.'):
            continue
        seen.add(cls)
        acc.count('meta_checks')
        acc.count('meta_classes_scanned')
        attrs = set()
        for k in cls.__mro__:
            if k is aob.AbstractObject or not k.__module__.startswith('sc3.'):
                continue
            for fname in ('__init__', '__new__'):
                f = k.__dict__.get(fname)
                if f is None:
                    continue
                try:
                    src = inspect.getsource(f)
                except (OSError, TypeError):
                    continue
                attrs |= set(re.findall(r'\bself\.(\w+)\s*=[^=]', src))
            for n2, v in k.__dict__.items():
                if n2 in public and not callable(v) and \
                        not isinstance(v, (property, staticmethod, classmethod)):
                    attrs.add(n2)
        for hit in sorted(attrs & public):
            # properties defined on the class are not instance attributes
            if isinstance(inspect.getattr_static(cls, hit, None), property):
                continue
            w = {'case': 0, 'class': cls.__name__, 'attribute': hit,
                 'module': cls.__module__}
            if cls.__name__ == 'Pslide':
                try:
                    cls([1, 2, 3]).wrap(0, 2)
                    w['dynamic'] = 'call succeeded'
                except Exception as ex:
                    w['dynamic'] = f'{type(ex).__name__}: {ex}'
            # report once, for the class that introduces the attribute
            owner = cls
            for k in cls.__mro__[1:]:
                if k.__module__.startswith('sc3.') and k is not aob.AbstractObject:
                    f = k.__dict__.get('__init__')
                    try:
                        if f and re.search(r'\bself\.%s\s*=[^=]' % hit,
                                           inspect.getsource(f)):
                            owner = k
                    except (OSError, TypeError):
                        pass
            if owner is cls:
                acc.violation(
                    f'C15/operator-method-hidden-by-attribute/{cls.__name__}.{hit}', w)
    acc.case(h64('meta'), nontrivial=True)
    acc.case(h64('meta2'), nontrivial=True)


def run_shard(spec, acc):
    kind = spec['shard']['kind']
    if kind == 'lift_m':
        run_lift_methods(spec, acc)
    elif kind == 'lift_b':
        run_lift_builtins(spec, acc)
    elif kind == 'laws':
        run_laws(spec, acc)
    else:
        run_meta(spec, acc)
