"""C09 - time-ordered collections are stable priority queues under any history.

Reference-model monitor: a sorted list with insertion sequence numbers is run
in lock step with the real sc3.base._taskq.TaskQueue; after every operation
the return value (or KeyError), empty(), both peeks and the full iteration are
compared.  An icontract invariant on the real class (index/heap/tombstone
agreement) is evaluated on every public call.  A second workload drives the
queue through its real users (OscScore add/finish/duration in NRT mode).
"""

from vf.common import iter_cases, case_rng, h64, split, short_tb

LEVEL = 'exploration'
RULE = ("seeded random histories (length 1-400) of add/re-add/remove/pop/"
        "peek(smallest|largest)/empty/clear/iteration over 1-12 tasks and 1-6 "
        "distinct int/float priorities (ties dominate), compared op by op with a "
        "sorted-list model; a history is non-trivial when it contains a re-add of "
        "a live task, a removal followed by a peek, and a tie; distinct = hash of "
        "the op sequence")
ASSUMPTIONS = ["reference model vf/props/C09.py:Model (sorted list by (prio, "
               "insertion seq)) is the meaning of 'stable priority queue'",
               "priorities are ints/floats without NaN"]
MIN_COUNTERS = {'ops_compared': 1000, 'invariant_evals': 1000,
                'score_histories': 5, 'score_failed_adds': 20, 'score_adds_of_a_reused_list': 100, 'atexit_histories': 3, 'atexit_inrun_adds': 3, 'clock_histories': 40,
                'clock_wakeups_compared': 100, 'nrt_clock_histories': 300,
                'clock_histories_moved_after_self_reschedule': 20,
                'score_identical_bundles': 20, 'ppar_histories': 1500,
                'ppar_histories_two_live_streams_of_one_pattern': 300}


def plan(tier, seed):
    total = 20000 if tier == 'quick' else 1_500_000
    parts = 8 if tier == 'quick' else 16
    secs = 40 if tier == 'quick' else 600
    shards = [{'name': f'hist{p}', 'mode': 'nrt', 'kind': 'hist',
               'first_case': f, 'n': n, 'secs': secs, 'hard_timeout': secs + 120}
              for p, (f, n) in enumerate(split(total, parts))]
    nsc = 300 if tier == 'quick' else 20000
    for p, (f, n) in enumerate(split(nsc, 2 if tier == 'quick' else 4)):
        shards.append({'name': f'score{p}', 'mode': 'nrt', 'kind': 'score',
                       'first_case': f, 'n': n, 'secs': secs,
                       'hard_timeout': secs + 120})
    # clocks as users of the queue (real-time): tasks that move / clear other
    # pending tasks of the same tick
    # (AppClock wakes the items of one tick as a batch, by design: an item moved or
    # cleared by an earlier item of the same tick still runs, so AppClock histories
    # have no moves / clears - time order and first-in-first-out are judged)
    for p, ck in enumerate(['SystemClock', 'TempoClock', 'AppClock']):
        shards.append({'name': f'clock-{ck}', 'mode': 'rt', 'kind': 'clockuser', 'clock': ck,
                       'first_case': 0, 'n': 60 if tier == 'quick' else 1200,
                       'secs': 40 if tier == 'quick' else 560, 'hard_timeout': 700})
    # the non-real-time scheduler as a user of the queue (same histories; the
    # scheduler keeps one entry per clock and task, so a task that is scheduled
    # again while pending - also after it re-scheduled itself - must move)
    for p, ck in enumerate(['SystemClock', 'TempoClock', 'AppClock']):
        shards.append({'name': f'nrtclock-{ck}', 'mode': 'nrt', 'kind': 'clockuser',
                       'clock': ck, 'nrt': True, 'first_case': 0,
                       'n': 400 if tier == 'quick' else 60000,
                       'secs': 40 if tier == 'quick' else 560, 'hard_timeout': 700})
    # parallel pattern streams (Ppar keeps its child streams in the queue)
    for p, (f, n) in enumerate(split(3000 if tier == 'quick' else 120000, 2)):
        shards.append({'name': f'ppar{p}', 'mode': 'nrt', 'kind': 'ppar',
                       'first_case': f, 'n': n, 'secs': secs, 'hard_timeout': secs + 120})
    # exit actions: one shutdown per process
    for p in range(8 if tier == 'quick' else 48):
        shards.append({'name': f'atexit{p}', 'mode': 'nrt', 'kind': 'atexit',
                       'first_case': p, 'n': 1, 'secs': 30, 'hard_timeout': 120})
    return shards


class Model:
    def __init__(self):
        self.items = []     # (prio, seq, task)
        self.seq = 0

    def add(self, prio, task):
        self.items = [e for e in self.items if e[2] is not task]
        self.items.append((prio, self.seq, task))
        self.seq += 1

    def remove(self, task):
        self.items = [e for e in self.items if e[2] is not task]

    def _sorted(self):
        return sorted(self.items, key=lambda e: (e[0], e[1]))

    def pop(self):
        if not self.items:
            raise KeyError
        e = self._sorted()[0]
        self.items.remove(e)
        return (e[0], e[2])

    def peek(self, smallest=True):
        if not self.items:
            raise KeyError
        s = self._sorted()
        e = s[0] if smallest else s[-1]
        return (e[0], e[2])

    def empty(self):
        return not self.items

    def clear(self):
        self.items = []

    def iterate(self):
        return [(e[0], e[2]) for e in self._sorted()]


class T:
    __slots__ = ('n',)

    def __init__(self, n):
        self.n = n

    def __repr__(self):
        return f't{self.n}'


class InvariantBroken(Exception):
    pass


_inv_evals = [0]


def heap_matches_index(self):
    _inv_evals[0] += 1
    R = type(self)._REMOVED
    live = [e for e in self._queue if e[-1] is not R]
    if len(self._queue) - self._removed_counter != len(self._entry_finder):
        return False
    if len(live) != len(self._entry_finder):
        return False
    for e in live:
        if self._entry_finder.get(e[-1]) is not e:
            return False
    return True


def _run(q, model, ops):
    """Apply ops to both; return None or (index, description)."""
    for k, op in enumerate(ops):
        name = op[0]
        exp = got = None
        try:
            if name == 'add':
                model.add(op[1], op[2]); q.add(op[1], op[2])
            elif name == 'remove':
                model.remove(op[1]); q.remove(op[1])
            elif name == 'clear':
                model.clear(); q.clear()
            elif name in ('pop', 'peek_s', 'peek_l'):
                try:
                    exp = ('ok', getattr(model, 'pop' if name == 'pop' else 'peek')(
                        *(() if name == 'pop' else (name == 'peek_s',))))
                except KeyError:
                    exp = ('KeyError',)
                try:
                    if name == 'pop':
                        got = ('ok', q.pop())
                    else:
                        got = ('ok', q.peek(name == 'peek_s'))
                except KeyError:
                    got = ('KeyError',)
                if not _same(exp, got):
                    return k, f'{name}: expected {exp} got {got}'
            elif name == 'empty':
                pass
            elif name == 'iter':
                pass
        except InvariantBroken as e:
            return k, f'invariant broken in {name}: {str(e)[:200]}'
        except Exception as e:
            return k, f'{name} raised {type(e).__name__}: {e}'
        # after every operation: observers agree
        try:
            if q.empty() != model.empty():
                return k, f'after {name}: empty() {q.empty()} != {model.empty()}'
            for sm in (True, False):
                try:
                    e1 = ('ok', model.peek(sm))
                except KeyError:
                    e1 = ('KeyError',)
                try:
                    g1 = ('ok', q.peek(sm))
                except KeyError:
                    g1 = ('KeyError',)
                if not _same(e1, g1):
                    return k, (f'after {name}: peek(smallest={sm}) expected '
                               f'{e1} got {g1}')
            if name in ('iter', 'remove', 'add', 'clear') or k % 5 == 0:
                it = list(q)
                mi = model.iterate()
                if len(it) != len(mi) or any(
                        a[0] != b[0] or a[1] is not b[1] for a, b in zip(it, mi)):
                    return k, f'after {name}: iteration {it} != {mi}'
        except InvariantBroken as e:
            return k, f'invariant broken observing after {name}: {str(e)[:200]}'
        except Exception as e:
            return k, f'observer raised after {name}: {type(e).__name__}: {e}'
    return None


def _same(a, b):
    if a[0] != b[0]:
        return False
    if a[0] == 'KeyError':
        return True
    return a[1][0] == b[1][0] and type(a[1][0]) is type(b[1][0]) \
        and a[1][1] is b[1][1]


def gen_history(rng):
    ntasks = rng.randint(1, 12)
    nprio = rng.randint(1, 6)
    kind = rng.choice(['int', 'float', 'mixed'])
    prios = []
    for _ in range(nprio):
        p = rng.choice([0, 1, 2, 3, -1, 5, 10, 0.5, 1.5, 2.0, 1e9, -2.5,
                        rng.random() * 4])
        if kind == 'int':
            p = int(p)
        elif kind == 'float':
            p = float(p)
        prios.append(p)
    tasks = [T(i) for i in range(ntasks)]
    length = rng.choice([rng.randint(1, 12), rng.randint(5, 60),
                         rng.randint(20, 400)])
    w = rng.choice([
        dict(add=6, remove=2, pop=2, peek_s=1, peek_l=1, empty=1, clear=0.1, iter=0.5),
        dict(add=4, remove=4, pop=1, peek_s=2, peek_l=2, empty=1, clear=0.2, iter=1),
        dict(add=3, remove=1, pop=4, peek_s=1, peek_l=1, empty=1, clear=0.05, iter=0.3),
    ])
    names, weights = zip(*w.items())
    ops = []
    for _ in range(length):
        name = rng.choices(names, weights)[0]
        if name == 'add':
            ops.append(('add', rng.choice(prios), rng.choice(tasks)))
        elif name == 'remove':
            ops.append(('remove', rng.choice(tasks)))
        else:
            ops.append((name,))
    return ops


def features(ops):
    live = set()
    readd = tie = rem_peek = False
    prios_live = {}
    last_remove = False
    for op in ops:
        if op[0] == 'add':
            if op[2] in live:
                readd = True
            live.add(op[2])
            prios_live[op[2]] = op[1]
            vals = list(prios_live.values())
            if len(vals) != len(set(vals)):
                tie = True
        elif op[0] == 'remove':
            if op[1] in live:
                live.discard(op[1]); prios_live.pop(op[1], None)
                last_remove = True
                continue
        elif op[0] in ('peek_s', 'peek_l') and last_remove:
            rem_peek = True
        elif op[0] == 'clear':
            live.clear(); prios_live.clear()
        elif op[0] == 'pop':
            if prios_live:
                # which one pops is the monitor's business; approximate
                t = min(prios_live, key=lambda t: prios_live[t])
                live.discard(t); prios_live.pop(t, None)
        last_remove = False
    return readd, tie, rem_peek


def run_shard(spec, acc):
    import icontract
    from sc3.base import _taskq
    kind = spec['shard']['kind']
    Q = icontract.invariant(heap_matches_index, error=InvariantBroken)(
        _taskq.TaskQueue)
    if kind == 'hist':
        for i in iter_cases(spec):
            rng = case_rng(spec['seed'], 'C09', 'hist', i)
            ops = gen_history(rng)
            readd, tie, rem_peek = features(ops)
            sig = h64([(o[0],) + tuple(repr(x) for x in o[1:]) for o in ops])
            acc.case(sig, nontrivial=readd and tie and rem_peek)
            acc.count('ops_compared', len(ops))
            if readd: acc.count('histories_with_readd')
            if tie: acc.count('histories_with_tie')
            if rem_peek: acc.count('histories_with_remove_then_peek')
            bad = _run(Q(), Model(), ops)
            if acc.want_sample() and readd and tie and len(ops) < 25:
                acc.sample({'case': i, 'ops': [repr(o) for o in ops]})
            if bad:
                k, why = bad
                opname = ops[k][0]
                acc.violation(f'C09/queue-differs-from-model/{opname}',
                              {'case': i, 'op_index': k, 'why': why,
                               'ops': [repr(o) for o in ops[:k + 1]]})
        acc.counters['invariant_evals'] = _inv_evals[0]
    elif kind == 'atexit':
        run_atexit(spec, acc)
    elif kind == 'ppar':
        run_ppar(spec, acc)
    elif kind == 'clockuser':
        run_clockuser(spec, acc)
    else:
        run_score(spec, acc, Q)


def run_clockuser(spec, acc):
    """The queue through its main user, a real-time clock.  A history of items
    is scheduled (by one set-up task, so nothing is awakened half way) at
    absolute logical times with many ties; when awakened, an item may schedule
    another item again (pending: it must MOVE, as the most recent entry of its
    new time; already awakened: a fresh entry) or clear the clock.  The order
    and logical times of all wake-ups are compared with the sorted-list model.
    Everything happens inside wake-ups on the clock's own thread, so the
    expected sequence does not depend on physical timing."""
    import threading
    import time as _time
    from sc3.base.main import main
    from sc3.base import clock as clk
    from sc3.base.functions import Function
    ck = spec['shard']['clock']
    nrt = bool(spec['shard'].get('nrt'))
    label = ('nrt-' if nrt else '') + ck
    t_stop = _time.time() + spec['shard']['secs']
    for i in iter_cases(spec):
        if _time.time() > t_stop:
            break
        rng = case_rng(spec['seed'], 'C09', 'clockuser' + label, i)
        if nrt:
            main.reset()
        clock = {'SystemClock': clk.SystemClock, 'AppClock': clk.AppClock}.get(ck)
        if clock is None:
            clock = clk.TempoClock(rng.choice([1, 2, 4]))
        n = rng.randint(3, 9)
        step = 1 / 64
        slots = [rng.randint(1, 5) for _ in range(n)]         # ties dominate
        actions = {}
        for k in range(n):
            x = rng.random()
            if x < 0.45:
                actions[k] = ('move', rng.randrange(n), rng.randint(0, 4))
            elif x < 0.55 and ck != 'AppClock' and not nrt:
                actions[k] = ('clear',)         # (a no-op in non real time)
            elif x < 0.7 and ck == 'TempoClock':
                # a tempo change re-keys nothing in beats: order and beats of the
                # pending items are untouched (non real time re-times its queue)
                actions[k] = ('tempo', rng.choice([1, 2, 4, 8]))
        # items that keep themselves going once: the first wake-up returns a delta
        rep = {k: rng.randint(1, 3) for k in range(n) if rng.random() < 0.3}
        if ck == 'AppClock' and not nrt:
            actions, rep = {}, {}
        nwakes = {}
        exact = nrt or ck != 'AppClock'
        woke = []
        done = threading.Event()
        items = []
        base = [None]
        due = {}

        def mk(k):
            def f(item, c):
                now = c.beats if ck == 'TempoClock' else c.seconds
                woke.append((k, now))
                nwakes[k] = nwakes.get(k, 0) + 1
                a = actions.get(k)
                if a and a[0] == 'move':
                    t = now + a[2] * step
                    if ck == 'AppClock':
                        c.sched(a[2] * step, items[a[1]])
                    else:
                        c.sched_abs(t, items[a[1]])
                elif a and a[0] == 'clear':
                    c.clear()
                elif a and a[0] == 'tempo':
                    c.tempo = a[1]
                if k in rep and nwakes[k] == 1:
                    return rep[k] * step
            return Function(f)
        items.extend(mk(k) for k in range(n))

        def setup(item, c):
            now = c.beats if ck == 'TempoClock' else c.seconds
            base[0] = now
            for k in range(n):
                if ck == 'AppClock':
                    # AppClock keys on the physical present of each call: the key of
                    # item k lies in [time before the call, time after it] + delta
                    t0_ = main.elapsed_time()
                    c.sched(slots[k] * step, items[k])
                    due[k] = (t0_ + slots[k] * step, main.elapsed_time() + slots[k] * step)
                else:
                    c.sched_abs(now + slots[k] * step, items[k])
        # model
        model = Model()
        for k in range(n):
            model.add(slots[k], k)
        exp = []
        guard = 0
        mw = {}
        moved_after_repeat = 0
        while not model.empty() and guard < 200:
            guard += 1
            t, k = model.pop()
            exp.append((k, t))
            mw[k] = mw.get(k, 0) + 1
            a = actions.get(k)
            if a and a[0] == 'move':
                if a[1] in rep and mw.get(a[1], 0) == 1 and a[1] != k and \
                        any(x == a[1] for _, x in model.iterate()):
                    moved_after_repeat += 1
                model.add(t + a[2], a[1])
            elif a and a[0] == 'clear':
                model.clear()
            if k in rep and mw[k] == 1:
                # the returned delta re-inserts the item after its wake-up
                model.add(t + rep[k], k)
        if guard >= 200 or not exact and (rep or any(
                a[0] == 'move' and a[2] == 0 for a in actions.values())):
            continue      # endless ping-pong at one instant / physical-time ties: skip
        if ck == 'AppClock' and len(set(slots)) < len(slots):
            # AppClock keys on the physical present: equal slots are not exact ties
            pass
        clock.sched(0, Function(setup))
        if nrt:
            try:
                main.process()
            except Exception as e:
                acc.violation(f'C09/clock-user/{label}/process-raised/{type(e).__name__}',
                              {'case': i, 'slots': slots, 'tb': short_tb(e),
                               'actions': {str(k): v for k, v in actions.items()}})
                continue
        else:
            t_end = _time.time() + 10
            while _time.time() < t_end and len(woke) < len(exp):
                _time.sleep(0.01)
            _time.sleep(max(0.05, 6 * step))
        with main._main_lock:
            got = list(woke)
        acc.count('nrt_clock_histories' if nrt else 'clock_histories')
        acc.count('nrt_clock_wakeups_compared' if nrt else 'clock_wakeups_compared',
                  len(exp))
        acc.count('clock_histories_moved_after_self_reschedule', int(moved_after_repeat > 0))
        moved_pending = sum(1 for a in actions.values() if a[0] == 'move')
        acc.case(h64((label, slots, sorted(actions.items()), sorted(rep.items()))),
                 nontrivial=moved_pending > 0)
        if not exact:
            # drifting clock (no exact times): every item once, and the order of the
            # wake-ups wherever the keys of two items are known to differ (on a
            # loaded host the set-up task can be held up between two of its calls
            # for longer than the distance of two slots)
            gk = [k for k, _ in got]
            okay = sorted(gk) == sorted(k for k, _ in exp) and not any(
                due[b][1] < due[a][0]
                for x, a in enumerate(gk) for b in gk[x + 1:] if a in due and b in due)
            if okay and gk != [k for k, _ in exp]:
                acc.count('appclock_order_differs_from_slots_because_of_call_times')
        else:
            okay = [k for k, _ in got] == [k for k, _ in exp] and all(
                abs((t - base[0]) / step - e) < 1e-6
                for (_, t), (_, e) in zip(got, exp))
        if not okay:
            what = 'wake-ups-differ-from-queue-model'
            gk, ek = [k for k, _ in got], [k for k, _ in exp]
            if len(gk) > len(ek) or any(gk.count(k) > ek.count(k) for k in set(gk)):
                what = 'item-awakened-although-moved-or-cleared'
            elif sorted(gk) == sorted(ek):
                what = 'order-or-time-differs'
            acc.violation(f'C09/clock-user/{label}/{what}',
                          {'case': i, 'slots': slots, 'repeat': {str(k): v for k, v in rep.items()},
                           'actions': {str(k): v for k, v in actions.items()},
                           'expected': exp, 'got': [(k, None if base[0] is None else
                                                     round((t - base[0]) / step, 6))
                                                    for k, t in got]})
        elif acc.want_sample() and moved_pending:
            acc.sample({'case': i, 'clock': label, 'slots': slots, 'repeat': {str(k): v for k, v in rep.items()},
                        'actions': {str(k): v for k, v in actions.items()},
                        'wakeups': exp})
        if ck == 'TempoClock' and not nrt:
            clock.stop()


def run_ppar(spec, acc):
    """The queue through another user: Ppar.  Children are Pbinds with an id and
    a finite list of durations from a small dyadic set (many ties, zero
    durations), also nested Ppars.  The events come out in non-decreasing time,
    equal times in the order in which the children were (re-)queued; every
    child event exactly once.  Times are rebuilt from the deltas of ALL output
    events (rests included)."""
    from sc3.base import stream as stm
    from sc3.seq.patterns.eventpatterns import Pbind, Ppar
    from sc3.seq.patterns.listpatterns import Pseq
    from sc3.seq import event as evt
    DYADIC = [0, 0.25, 0.25, 0.5, 0.5, 1, 1.5]
    # "musical" decimal values: sums are rounded, equal times only arise by the
    # same additions - the model below does the same additions as a queue user
    # that keys a re-queued stream at (time it was due) + delta
    DECIMAL = [0, 0.1, 0.2, 0.2, 0.25, 0.3, 1 / 3, 0.4, 0.8, 0.9, 1.1]

    def gen(rng, depth, ids, DURS=None):
        DURS = DURS or DYADIC
        kids = []
        for _ in range(rng.randint(1, 4)):
            if depth < 2 and rng.random() < 0.2:
                kids.append(gen(rng, depth + 1, ids, DURS))
            else:
                k = len(ids)
                ids.append(k)
                kids.append(('bind', k, [rng.choice(DURS) for _ in range(rng.randint(1, 5))]))
        return ('par', kids)

    def build(node):
        if node[0] == 'bind':
            return Pbind({'id': node[1], 'dur': Pseq(list(node[2]))})
        return Ppar(*[build(k) for k in node[1]])

    def model(node):
        """The node as a stream of events [(id | None for a rest, delta)].  A
        Ppar merges its children by time through the queue model (equal times:
        the child queued first), re-queues a child at now + its event's delta,
        stamps every event with the gap to the next one and fills the gap left
        by a child that ended with a rest."""
        if node[0] == 'bind':
            return [(node[1], d) for d in node[2]]
        kids = [model(k) for k in node[1]]
        m = Model()
        pos = [0] * len(kids)
        for i in range(len(kids)):
            m.add(0.0, i)
        out = []
        now = 0.0
        while not m.empty():
            t, i = m.pop()
            if pos[i] < len(kids[i]):
                cid, d = kids[i][pos[i]]
                pos[i] += 1
                m.add(now + d, i)
                nxt = m.peek()[0]
                out.append((cid, nxt - now))
                now = nxt
            elif not m.empty():
                nxt = m.peek()[0]
                out.append((None, nxt - now))       # rest until the next child
                now = nxt
        return out

    for i in iter_cases(spec):
        rng = case_rng(spec['seed'], 'C09', 'ppar', i)
        ids = []
        decimal = i % 2 == 1
        tree = gen(rng, 0, ids, DECIMAL if decimal else DYADIC)
        acc.count('ppar_histories_decimal_durations', int(decimal))
        exp, t = [], 0.0
        for c, d in model(tree):
            if c is not None:
                exp.append((c, t))
            t += d
        got, t, guard = [], 0.0, 0
        # every third case: a second stream of the SAME pattern object is alive
        # and stepped in between (each embedding has a queue of its own)
        two = i % 3 == 0
        got2, t2, live2 = [], 0.0, two
        lead = rng.randint(0, 3)
        try:
            pat = build(tree)
            s = stm.stream(pat)
            s2 = stm.stream(pat) if two else None
            while guard < 400:
                guard += 1
                if live2 and guard > lead:
                    try:
                        e2 = s2.next(evt.event())
                        if 'id' in e2:
                            got2.append((e2['id'], t2))
                        t2 += float(e2['delta'])
                    except stm.StopStream:
                        live2 = False
                e = s.next(evt.event())
                if 'id' in e:
                    got.append((e['id'], t))
                t += float(e['delta'])
        except stm.StopStream:
            pass
        except Exception as e:      # noqa
            acc.violation(f'C09/ppar-raises/{type(e).__name__}',
                          {'case': i, 'tree': tree, 'tb': short_tb(e)})
            continue
        if two:
            try:
                while live2 and guard < 900:
                    guard += 1
                    e2 = s2.next(evt.event())
                    if 'id' in e2:
                        got2.append((e2['id'], t2))
                    t2 += float(e2['delta'])
            except stm.StopStream:
                pass
            acc.count('ppar_histories_two_live_streams_of_one_pattern')
            if got2 != exp and got == exp:
                acc.violation('C09/ppar/second-live-stream-of-the-same-pattern-differs',
                              {'case': i, 'tree': tree, 'expected': exp[:40], 'got': got2[:40]})
                continue
        acc.count('ppar_histories')
        acc.count('ppar_events_compared', len(exp))
        ties = len(exp) - len({t for _, t in exp})
        acc.case(h64(repr(tree)), nontrivial=ties > 0)
        if got != exp:
            what = 'order' if sorted(got) == sorted(exp) else \
                'times' if [c for c, _ in got] == [c for c, _ in exp] else \
                'events-lost-or-duplicated' if sorted(c for c, _ in got) != sorted(
                    c for c, _ in exp) else 'order-and-times'
            acc.violation(f'C09/ppar/{what}', {'case': i, 'tree': tree, 'expected': exp[:40],
                                               'got': got[:40]})
        elif acc.want_sample() and ties and len(exp) < 12:
            acc.sample({'case': i, 'ppar_tree': tree, 'events': exp})


def run_atexit(spec, acc):
    """The queue through another real user: the library's exit-action queue.
    Functions are registered with random priorities (ties), some are removed or
    re-registered, then the library's shutdown runs: they must run once each in
    (priority, registration order).  In every other case some actions work on
    the queue while the shutdown is draining it (an action registers a follow-up
    action, postpones or removes a pending one - never below its own priority,
    so that any correct queue user keeps the non-decreasing order): the
    shutdown is a pop loop, its history is add/re-add/remove between pops."""
    from sc3.base.main import main
    i = spec['shard']['first_case']
    rng = case_rng(spec['seed'], 'C09', 'atexit', i)
    ran = []
    model = Model()
    funcs = []
    n = rng.randint(3, 25)
    inrun = {}              # k -> list of ops performed by action k when it runs
    prio_of = {}
    PR = [0, 0, 1, 5, 250, 499, 10.5, 3]   # below SERVERS (500)

    done = set()

    def perform(k):
        if k in done:           # an action works on the queue the first time it runs
            return
        done.add(k)
        for op in inrun.get(k, ()):
            if op[0] == 'add':
                main._atexitq.add(op[1], funcs[op[2]])
            else:
                try:
                    main._atexitq.remove(funcs[op[1]])
                except KeyError:
                    pass

    for k in range(2 * n):      # n registered up front, n reserved for follow-ups
        def f(k=k):
            ran.append(k)
            perform(k)
        funcs.append(f)
    ops = []
    for _ in range(rng.randint(n, 3 * n)):
        k = rng.randrange(n)
        if rng.random() < 0.75:
            prio = rng.choice(PR)
            main._atexitq.add(prio, funcs[k])
            model.add(prio, funcs[k])
            prio_of[k] = prio
            ops.append(('add', prio, k))
        else:
            main._atexitq.remove(funcs[k])
            model.remove(funcs[k])
            prio_of.pop(k, None)
            ops.append(('remove', k))
    reentrant = i % 2 == 1
    if reentrant:
        fresh = list(range(n, 2 * n))
        for k in sorted(prio_of):
            if rng.random() < 0.45:
                lst = []
                for _ in range(rng.randint(1, 3)):
                    later = [p for p in PR if p >= prio_of[k]]
                    r = rng.random()
                    if r < 0.4 and fresh:       # register a follow-up action
                        lst.append(('add', rng.choice(later), fresh.pop()))
                    elif r < 0.75:              # postpone a pending (or re-register a spent) action
                        lst.append(('add', rng.choice(later), rng.randrange(n)))
                    else:
                        lst.append(('remove', rng.randrange(n)))
                inrun[k] = lst
    # expectation: pop loop over the model, in-run ops applied after each pop
    exp = []
    m2 = Model()
    m2.items = list(model.items)
    m2.seq = model.seq
    mdone = set()
    guard = 0
    while not m2.empty() and guard < 10 * n + 50:
        guard += 1
        _, t = m2.pop()
        k = funcs.index(t)
        exp.append(k)
        if k in mdone or k not in inrun:
            continue
        mdone.add(k)
        ops.append(('inrun', k, inrun[k]))
        for op in inrun[k]:
            if op[0] == 'add':
                m2.add(op[1], funcs[op[2]])
                acc.count('atexit_inrun_adds')
            else:
                m2.remove(funcs[op[1]])
                acc.count('atexit_inrun_removes')
    try:
        main._shutdown()
    except Exception as e:
        acc.violation(f'C09/atexit-shutdown-raised/{type(e).__name__}',
                      {'case': i, 'ops': ops, 'tb': short_tb(e)})
    if ran != exp:
        acc.violation('C09/atexit-order' + ('/actions-work-on-the-queue' if reentrant else ''),
                      {'case': i, 'ops': ops, 'ran': ran, 'expected': exp})
    acc.count('atexit_histories')
    if reentrant:
        acc.count('atexit_histories_reentrant')
    acc.count('atexit_actions_run', len(ran))
    acc.case(h64(ops), nontrivial=len(set(o[1] for o in ops if o[0] == 'add')) < n)
    if acc.want_sample():
        acc.sample({'case': i, 'atexit_ops': ops[:12], 'ran': ran[:12]})


def run_score(spec, acc, Q):
    """The queue through a real user: OscScore (add / finish / duration /
    iteration order) in NRT mode, with the contract-wrapped class swapped in."""
    from sc3.base import _oscinterface as osci, _taskq
    from sc3.base.main import main
    orig = _taskq.TaskQueue
    _taskq.TaskQueue = Q      # looked up dynamically as tsq.TaskQueue
    try:
        for i in iter_cases(spec):
            rng = case_rng(spec['seed'], 'C09', 'score', i)
            score = osci.OscScore()
            if not isinstance(score._scoreq, Q):
                acc.mark_inconclusive('OscScore does not use patched TaskQueue')
                return
            n = rng.randint(1, 40)
            times = [rng.choice([0.0, 0.5, 1.0, 1.0, 2.0, 2.5, rng.random() * 3])
                     for _ in range(n)]
            entries = [(0.0, -1, -1)]      # OscScore starts with the root node
            # payload values repeat: bundles that are byte-identical (same time,
            # same message) are still separate entries, each kept, in send order
            npay = rng.choice([1, 2, 3, n + 5])
            seen = set()
            faulty = i % 2 == 1
            reuse = i % 3 == 2
            nested_scratch = reuse and i % 2 == 0
            scratch = [0.0, ['/m', 0]] + ([[0.0, ['/n', 0]]] if nested_scratch else [])
            for k, t in enumerate(times):
                if faulty and rng.random() < 0.3:
                    # an entry the encoder refuses (later than everything else):
                    # the caller gets the exception, the score is as before
                    tb = rng.choice([10.0, 31.0, 100.5])
                    bad = rng.choice([
                        [tb, ['/m', object()]],                 # argument that cannot be encoded
                        [tb, ['/m', 1], [tb - 50.0, ['/x', 1]]],    # nested bundle before its parent
                        [tb, ['/m', 2 ** 40]],                  # int out of range
                        [tb, ['/m', 1], ['/n', {1: 2}]]])       # second element fails
                    try:
                        score.add(bad)
                        acc.count('score_unencodable_entry_accepted')
                        entries = None      # not this property's business: case dropped
                        break
                    except Exception:
                        acc.count('score_failed_adds')
                        if score.duration != max([e[0] for e in entries]):
                            acc.violation('C09/score-duration/after-failed-add',
                                          {'case': i, 'times': times[:k], 'failed': repr(bad),
                                           'duration': score.duration})
                            break
                v = rng.randrange(npay)
                if reuse:
                    # a caller that keeps one scratch bundle and rewrites it for
                    # every add: the entries already in the score are not its list
                    # (bundle lists only: the message lists inside are fresh ones -
                    # what a score shows of a message the caller rewrites later is
                    # not a question of time order)
                    scratch[0] = t
                    scratch[1] = ['/m', v]
                    if nested_scratch:
                        scratch[2][0] = t + 0.25
                        scratch[2][1] = ['/n', v]
                    score.add(scratch)
                    acc.count('score_adds_of_a_reused_list')
                else:
                    msg = ['/m', v]
                    score.add([t, msg])
                entries.append((t, k, v))
                if (t, v) in seen:
                    acc.count('score_identical_bundles')
                seen.add((t, v))
            if entries is None:
                continue
            exp = sorted(entries, key=lambda e: (e[0], e[1]))
            try:
                dur = score.duration
                if dur != max(times + [0.0]):
                    acc.violation('C09/score-duration',
                                  {'case': i, 'times': times, 'duration': dur})
                tail = rng.choice([0, 0.25, 1, 5])
                score.finish(tail)     # outside routines: absolute time
                lst = score.list
                # the closing marker is placed tailtime after the latest entry
                exp = sorted(entries + [(max(times + [0.0]) + tail, 10**6, 10**6)],
                             key=lambda e: (e[0], e[1]))
                exp = [(e[0], e[2]) for e in exp]
                got = [(b[0], -1 if b[1][0] == '/g_new' else
                        10**6 if b[1][0] == '/c_set' else b[1][1])
                       for b in lst]
                if nested_scratch and got == exp:
                    # the nested bundle of each entry is the one that was added
                    sub = [(b[2][0], b[2][1][1]) for b in lst if b[1][0] == '/m']
                    subexp = [(e[0] + 0.25, e[1]) for e in exp if 0 <= e[1] < 10**6]
                    if sub != subexp:
                        acc.violation('C09/score-nested-entry-differs-from-what-was-added',
                                      {'case': i, 'times': times, 'got': sub, 'expected': subexp})
                if got != exp:
                    acc.violation('C09/score-order' if len(got) == len(exp)
                                  else 'C09/score-entry-count-differs',
                                  {'case': i, 'times': times, 'tail': tail,
                                   'got': got, 'expected': exp})
            except InvariantBroken as e:
                acc.violation('C09/score-invariant', {'case': i, 'why': str(e)[:200]})
            except Exception as e:
                acc.violation(f'C09/score-raises/{type(e).__name__}',
                              {'case': i, 'times': times, 'tb': short_tb(e)})
            acc.case(h64(times), nontrivial=len(set(times)) < len(times))
            acc.count('score_histories')
            if acc.want_sample() and n < 8:
                acc.sample({'case': i, 'score_times': times})
    finally:
        _taskq.TaskQueue = orig
    acc.counters['invariant_evals'] = _inv_evals[0]
