"""C17 executor: runs a generated program against the real client objects,
captures what reaches the OSC interface, keeps the id ledger and compares
with the independent oracles (vf/model_cmds.py, vf/cmdref.py).

Capture points (boundary only):
  NRT  the OscNrtInterface *instance* attribute send_bundle is wrapped to note
       which operation caused which score entry; the bytes that are judged are
       the ones of main.process().raw, decoded with vf/osc.py.
  RT   the OscUdpInterface *instance* attribute _send is replaced by a
       recorder (nothing leaves the process); dgram bytes decoded with vf/osc.py.
Ledger: alloc/free of the server's node, buffer, control-bus and audio-bus
allocator objects are wrapped (instance attributes).

Use after free (round 7): operations on and with objects that were freed
earlier in the history (vf/c17_gen.py kinds busq, busfreed, buffreed,
nodefreed, freed `$map` / `$bus` / `$buf` arguments).  Decided by the same
three oracles: the per-method expectation (must raise / may raise but must not
send, vf/model_cmds.py), the return value of Bus.as_map() on a live bus, and
the id ledger, which also resolves ids written as bus mapping symbols
('c3', 'a2': role usesym of vf/cmdref.py) in /s_new, /n_set and /n_setn.

Nested bind() blocks (round 8): NestedCase runs a tree of blocks over one or
two servers (one Runner each, one capture) from the main thread or a routine
and logs block entries, exits (normal / by exception), operations and sync
points in execution order; NestedJudge replays the log on a reference model
(per server a stack of pending command lists) and compares the wire with it:
first which commands arrived in which order per server (keys
C17/bind-nested/commands-of-a-block-that-raised-reached-the-wire/...,
commands-lost/..., commands-duplicated, commands-out-of-issue-order), then
packet by packet (one bundle per outermost block and sync point:
grouping-differs-from-outermost-blocks), then per method, grammar and ledger.
"""

import errno
import struct
import threading
import time as _time

from vf import osc, cmdref, model_cmds as mc
from vf.common import short_tb, tb_sites


class Boom(Exception):
    """Raised by the harness inside bind() blocks."""


class Abort(Exception):
    """Leaves a bind() block after an undocumented library exception."""


class Ledger:
    KINDS = ('node', 'buffer', 'control', 'audio')

    def __init__(self):
        self.events = []
        self.live = {'buffer': {}, 'control': {}, 'audio': {}}
        self.nodes = set()

    def attach(self, server):
        self.events = []
        self.live = {'buffer': {}, 'control': {}, 'audio': {}}
        self.nodes = set()
        self._wrap_node(server._node_allocator)
        self._wrap_block('buffer', server._buffer_allocator)
        self._wrap_block('control', server._control_bus_allocator)
        self._wrap_block('audio', server._audio_bus_allocator)

    def _wrap_node(self, a):
        orig = a.alloc

        def alloc():
            r = orig()
            self.events.append(('node', 'alloc', 1, r))
            self.nodes.add(r)
            return r
        a.alloc = alloc

    def _wrap_block(self, kind, a):
        oalloc, ofree = a.alloc, a.free
        live = self.live[kind]

        def alloc(n=1):
            r = oalloc(n)
            self.events.append((kind, 'alloc', n, r))
            if r is not None:
                live[r] = n
            return r

        def free(addr):
            ofree(addr)
            n = live.pop(addr, None) if addr is not None else None
            self.events.append((kind, 'free', addr, n))
        a.alloc = alloc
        a.free = free

    def numbers(self, kind):
        out = set()
        for s, n in self.live[kind].items():
            out.update(range(s, s + n))
        return out

    def snapshot(self):
        return {k: self.numbers(k) for k in ('buffer', 'control', 'audio')}


class Capture:
    MAX_DGRAM = 65504     # NetAddr's documented datagram bound (65507 for IPv4 UDP)

    def __init__(self, mode, main, background=False):
        """background=True: datagrams sent by other threads than the main one
        (the status watcher's alive routine and its responders) are kept apart
        from the workload's traffic and answered the way scsynth would:
        /status -> /status.reply, /notify -> /done /notify id maxLogins."""
        self.background = background
        self.bg = []
        self.bg_status = 0
        self.mode = mode
        self.main = main
        self.calls = []           # NRT: (n_elements,)   RT: (bytes, target)
        self.sync_replies = 0
        self.fault_armed = False
        self.faults_injected = 0
        itf = main._osc_interface
        self.itf = itf
        if mode == 'nrt':
            orig = itf.send_bundle

            def send_bundle(target, time, *elements):
                r = orig(target, time, *elements)
                self.calls.append((target, time, len(elements)))
                return r
            itf.send_bundle = send_bundle
        else:
            def _send(msg, target):
                if self.fault_armed:
                    # stands for the socket refusing the datagram
                    self.fault_armed = False
                    self.faults_injected += 1
                    raise OSError(errno.EMSGSIZE, 'Message too long (injected)')
                data = bytes(msg.dgram)
                if self.background and \
                        threading.current_thread() is not threading.main_thread():
                    self.bg.append(data)
                    try:
                        for mm in cmdref.flatten(osc.decode(data)):
                            if mm.addr == '/status':
                                self.bg_status += 1
                                itf._handle_request(osc.enc_msg(
                                    '/status.reply', 1, 0, 0, 2, 0, 0.5, 1.0,
                                    48000.0, 48000.0), target)
                            elif mm.addr == '/notify' and mm.args:
                                itf._handle_request(osc.enc_msg(
                                    '/done', '/notify',
                                    mm.args[1] if len(mm.args) > 1 else 0, 1), target)
                            elif mm.addr == '/sync' and mm.args:
                                itf._handle_request(
                                    osc.enc_msg('/synced', mm.args[0]), target)
                    except osc.OscError:
                        pass
                    return
                self.calls.append((data, target))
                # stand-in for the server: every '/sync id' is answered with
                # '/synced id', fed through the interface's receive path
                if b'/sync' in data:
                    try:
                        for mm in cmdref.flatten(osc.decode(data)):
                            if mm.addr == '/sync' and mm.args:
                                self.sync_replies += 1
                                itf._handle_request(
                                    osc.enc_msg('/synced', mm.args[0]), target)
                    except osc.OscError:
                        pass
            itf._send = _send

    def reset(self):
        self.calls = []

    def packets(self):
        """Decoded packets in emission order: [(packet, target)]."""
        if self.mode == 'rt':
            self.sizes = [len(b) for b, t in self.calls]
            return [(osc.decode(b), t) for b, t in self.calls]
        score = self.main.process()
        raw = bytes(score.raw)
        out = []
        i = 0
        while i < len(raw):
            n, = struct.unpack_from('>i', raw, i)
            i += 4
            out.append(osc.decode(raw[i:i + n]))
            i += n
        def when(c):
            return c[1] if isinstance(c[1], (int, float)) and c[1] > 0 else 0.0
        # first entry: root node created by the score itself; last entry: the
        # end-of-score marker written by finish() (the NRT workload sends no
        # bundle with a positive time outside bind blocks, so every entry sits
        # at time 0 and the marker is last whatever tail rule finish() uses)
        if len(out) != len(self.calls) + 2:
            raise ScoreShape(f'{len(self.calls)} sends but {len(out) - 2} score entries')
        root, marker = out[0], out[-1]
        if [m.plain() for m in root.elements] != [['/g_new', 1, 0, 0]] or \
                [m.plain() for m in marker.elements] != [['/c_set', 0, 0]]:
            raise ScoreShape('unexpected score framing')
        if any(when(c) != 0.0 for c in self.calls):
            raise ScoreShape('workload sent a bundle with a positive time in NRT')
        body = out[1:-1]
        # the score is ordered by time, then by insertion: undo that to get
        # emission order (outside routines a bundle time is absolute)
        order = sorted(range(len(self.calls)), key=lambda j: (when(self.calls[j]), j))
        out = [None] * len(self.calls)
        for pos, j in enumerate(order):
            out[j] = (body[pos], self.calls[j][0])
        return out


class ScoreShape(Exception):
    pass


class Violation(Exception):
    def __init__(self, key, witness):
        super().__init__(key)
        self.key = key
        self.witness = witness


def _site(e):
    sites = tb_sites(e)
    return f'{type(e).__name__}@{sites[-1][1] if sites else "outside-sc3"}'


class Runner:
    """One program against one server."""

    def __init__(self, sc3mods, server, mode, capture, ledger, counters):
        self.m = sc3mods
        self.server = server
        self.mode = mode
        self.cap = capture
        self.led = ledger
        self.count = counters
        self.objs = {}
        self.env = {}
        self.records = []         # per op
        self.blocks = []          # bind blocks: dict
        self.stream = []          # top-level items in order: ('op', rec) | ('block', blk)
        self.aborted = False

    # ---- value realisation ------------------------------------------------
    def real(self, v):
        if isinstance(v, dict):
            if '$bus' in v:
                return self.objs[v['$bus']]
            if '$busindex' in v:
                return self.objs[v['$busindex']].index
            if '$map' in v:
                return self.objs[v['$map']].as_map()
            if '$buf' in v:
                return self.objs[v['$buf']]
            if '$node' in v:
                return self.objs[v['$node']]
            if '$tuple' in v:
                return tuple(self.real(x) for x in v['$tuple'])
            if '$dict' in v:
                return {self.real(k): self.real(x) for k, x in v['$dict']}
            raise ValueError(v)
        if isinstance(v, list):
            return [self.real(x) for x in v]
        return v

    def real_target(self, t):
        if t is None:
            return None
        if '$server' in t:
            return self.server
        if '$node' in t:
            return self.objs[t['$node']]
        if '$lit' in t:
            return t['$lit']
        return self.objs[t['$int']].node_id

    def real_completion(self, c):
        if c is None:
            return None
        if '$msg' in c:
            return [x.bufnum if hasattr(x, 'bufnum') else x
                    for x in (self.real(y) for y in c['$msg'])]
        f = c['$fn']
        if f == 'zero':
            return lambda buf: ['/b_zero', buf.bufnum]
        if f == 'query':
            return lambda buf: ['/b_query', buf.bufnum]
        if f == 'index':
            return lambda buf, i: ['/b_set', buf.bufnum, 0, i]
        if f == 'raise':
            def boom(buf):
                raise Boom('completion function failed')
            return boom
        return lambda buf: None

    # ---- env facts -----------------------------------------------------------
    def note_node(self, h, obj):
        self.objs[h] = obj
        self.env[h] = {'id': obj.node_id}

    def note_buf(self, h, obj, frames, channels, owns_block=True):
        self.objs[h] = obj
        self.env[h] = {'bufnum': obj.bufnum, 'frames': frames, 'channels': channels,
                       'state': 'live', 'owns_block': owns_block}

    def note_bus(self, h, obj, rate, owns=True):
        self.objs[h] = obj
        self.env[h] = {'index': obj.index, 'channels': obj.channels, 'rate': rate,
                       'state': 'live', 'owns': owns}

    # ---- one operation ---------------------------------------------------------
    def perform(self, op):
        m = self.m
        s = self.server
        k = op['op']
        if k == 'hold':
            _time.sleep(op['secs'])      # the block simply stays open
            return
        if k == 'busq':
            return getattr(self.objs[op['h']], op['m'])()
        if k == 'synth':
            args = self.real(op.get('args'))
            if op.get('args_as_tuple') and args is not None:
                args = tuple(args)
            ctor = op['ctor']
            tgt = self.real_target(op.get('target'))
            if ctor == 'init':
                o = m.Synth(op['def'], args, tgt, op['action'])
            elif ctor == 'new_paused':
                o = m.Synth.new_paused(op['def'], args, tgt, op['action'])
            elif ctor == 'grain':
                o = m.Synth.grain(op['def'], args, tgt, op['action'])
                if o is not None:
                    raise Violation('C17/method/Synth.grain/returns-an-object', {})
                return
            elif ctor == 'replace':
                o = m.Synth.replace(tgt, op['def'], args, op.get('same_id', False))
            else:
                o = getattr(m.Synth, ctor)(tgt, op['def'], args)
            self.note_node(op['out'], o)
        elif k == 'group':
            cls = getattr(m, op['cls'])
            tgt = self.real_target(op.get('target'))
            if op['ctor'] == 'init':
                o = cls(tgt, op['action'])
            else:
                o = getattr(cls, op['ctor'])(tgt)
            self.note_node(op['out'], o)
        elif k == 'basic_new':
            cls = getattr(m, op['cls'])
            if 'node_id' in op:
                o = cls.basic_new(op['def'], s, op['node_id']) if op['cls'] == 'Synth' \
                    else cls.basic_new(s, op['node_id'])
                if o.node_id != op['node_id']:
                    raise Violation('C17/method/Node.basic_new(node_id)/'
                                    'explicit-id-not-kept',
                                    {'op': op, 'object_id': o.node_id})
            else:
                o = cls.basic_new(op['def'], s) if op['cls'] == 'Synth' else cls.basic_new(s)
            self.note_node(op['out'], o)
        elif k == 'node':
            o = self.objs[op['h']]
            mm = op['m']
            if mm == 'free':
                o.free(op.get('send', True))
            elif mm == 'run':
                o.run(op['flag'])
            elif mm in ('set', 'setn', 'fill', 'map', 'mapa', 'mapn', 'mapan'):
                getattr(o, mm)(*self.real(op['args']))
            elif mm == 'release':
                o.release(op['time'])
            elif mm in ('trace', 'free_all', 'deep_free'):
                getattr(o, mm)()
            elif mm == 'query':
                o.query(lambda *a: None)
            elif mm in ('move_before', 'move_after'):
                getattr(o, mm)(self.objs[op['t']])
            elif mm in ('move_to_head', 'move_to_tail'):
                getattr(o, mm)(None if op['t'] is None else self.objs[op['t']])
            elif mm == 'dump_tree':
                o.dump_tree(op['controls'])
            elif mm == 'seti':
                o.seti(*op['args'])
            elif mm == 'get':
                o.get(op['index'], lambda *a: None)
            elif mm == 'getn':
                o.getn(op['index'], op['count'], lambda *a: None)
            else:
                raise ValueError(mm)
        elif k == 'server':
            mm = op['m']
            if mm == 'reorder':
                s.reorder([self.objs[h] for h in op['nodes']],
                          self.real_target(op['target']), op['action'])
            elif mm == 'dump_osc':
                s.dump_osc(op['code'])
            elif mm == 'free_default_group':
                s.free_default_group()
            elif mm == 'send_msg':
                s.addr.send_msg(*[x.node_id if hasattr(x, 'node_id') else x
                                  for x in self.real(op['msg'])])
            elif mm == 'send_bundle':
                s.addr.send_bundle(op['time'], *[
                    [x.node_id if hasattr(x, 'node_id') else x for x in self.real(mm_)]
                    for mm_ in op['msgs']])
        elif k == 'buffer':
            ctor = op['ctor']
            B = m.Buffer
            if ctor == 'init':
                o = B(op['frames'], op['channels'], s,
                      completion_msg=self.real_completion(op.get('completion')))
                self.note_buf(op['out'], o, op['frames'], op['channels'])
            elif ctor == 'noalloc':
                o = B(op['frames'], op['channels'], s, alloc=False)
                self.note_buf(op['out'], o, op['frames'], op['channels'])
            elif ctor == 'consecutive':
                lst = B.new_consecutive(len(op['out']), op['frames'], op['channels'], s,
                                        completion_msg=self.real_completion(
                                            op.get('completion')))
                if len(lst) != len(op['out']):
                    raise Violation('C17/method/Buffer.new_consecutive/wrong-number-of-objects', {})
                for i, (h, o) in enumerate(zip(op['out'], lst)):
                    self.note_buf(h, o, op['frames'], op['channels'], owns_block=i == 0)
            elif ctor == 'read':
                o = B.new_read(op['path'], op['start'], op['frames'], s)
                self.note_buf(op['out'], o, None, None)
            elif ctor == 'read_channel':
                o = B.new_read_channel(op['path'], op['start'], op['frames'],
                                       op['chans'], s)
                self.note_buf(op['out'], o, None, None)
            elif ctor == 'cue':
                o = B.new_cue(op['path'], op['start'], op['frames'], op['channels'], s,
                              completion_msg=self.real_completion(op.get('completion')))
                self.note_buf(op['out'], o, op['frames'], op['channels'])
        elif k == 'buf':
            o = self.objs[op['h']]
            mm = op['m']
            comp = self.real_completion(op.get('completion'))
            if mm == 'free':
                o.free(comp)
            elif mm == 'alloc':
                o.alloc(comp)
            elif mm == 'alloc_read':
                o.alloc_read(op['path'], op['start'], op['frames'], comp)
            elif mm in ('zero', 'close'):
                getattr(o, mm)(comp)
            elif mm == 'read':
                o.read(op['path'], op['file_start'], op['frames'], op['buf_start'],
                       op['leave_open'])
            elif mm == 'read_channel':
                o.read_channel(op['path'], op['file_start'], op['frames'],
                               op['buf_start'], op['leave_open'], op['chans'])
            elif mm == 'cue':
                o.cue(op['path'], op['start'], comp)
            elif mm == 'write':
                o.write(op['path'], op['header'], op['sample'], op['frames'],
                        op['start'], op['leave_open'], comp)
            elif mm == 'set':
                o.set(*op['pairs'])
            elif mm == 'setn':
                o.setn(*op['args'])
            elif mm == 'fill':
                o.fill(op['start'], op['frames'], op['values'])
            elif mm == 'get':
                o.get(op['index'], lambda *a: None)
            elif mm == 'getn':
                o.getn(op['index'], op['count'], lambda *a: None)
            elif mm == 'query':
                o.query(lambda *a: None)
            elif mm == 'update_info':
                o.update_info()
            elif mm in ('sine1', 'cheby'):
                getattr(o, mm)(op['amps'], op['normalize'], op['as_wavetable'],
                               op['clear_first'])
            elif mm == 'sine2':
                o.sine2(op['freqs'], op['amps'], op['normalize'], op['as_wavetable'],
                        op['clear_first'])
            elif mm == 'sine3':
                o.sine3(op['freqs'], op['amps'], op['phases'], op['normalize'],
                        op['as_wavetable'], op['clear_first'])
            elif mm == 'gen':
                o.gen(op['cmd'], op['args'], op['normalize'], op['as_wavetable'],
                      op['clear_first'])
            elif mm == 'normalize':
                o.normalize(op['new_max'], op['as_wavetable'])
            elif mm == 'copy_data':
                o.copy_data(self.objs[op['dst']], op['dst_start'], op['start'], op['num'])
            else:
                raise ValueError(mm)
        elif k == 'bufgroup_free':
            comp = self.real_completion(op.get('completion'))
            for h in op['hs']:
                self.objs[h].free(comp)
        elif k == 'free_all':
            m.Buffer.free_all(s)
        elif k == 'bus':
            cls = m.ControlBus if op['rate'] == 'control' else m.AudioBus
            o = cls(op['channels'], s)
            self.note_bus(op['out'], o, op['rate'])
        elif k == 'subbus':
            o = self.objs[op['h']].sub_bus(op['offset'], op['channels'])
            self.note_bus(op['out'], o, self.env[op['h']]['rate'], owns=False)
        elif k == 'busm':
            o = self.objs[op['h']]
            mm = op['m']
            if mm in ('free', 'clear'):
                getattr(o, mm)()
            elif mm == 'set':
                o.set(*op['values'])
            elif mm == 'setn':
                o.setn(op['values'])
            elif mm == 'set_at':
                o.set_at(op['offset'], *op['values'])
            elif mm == 'setn_at':
                o.setn_at(op['offset'], op['values'])
            elif mm == 'set_pairs':
                o.set_pairs(*op['pairs'])
            elif mm == 'fill':
                o.fill(op['value'], op['channels'])
            elif mm == 'get':
                o.get(lambda *a: None)
            elif mm == 'getn':
                o.getn(op['count'], lambda *a: None)
            else:
                raise ValueError(mm)
        else:
            raise ValueError(k)

    def after(self, op):
        """State the model needs for later expectations."""
        k = op['op']
        if k == 'buf' and op['m'] == 'free':
            self.env[op['h']]['state'] = 'freed'
        elif k == 'bufgroup_free':
            for h in op['hs']:
                self.env[h]['state'] = 'freed'
        elif k == 'busm' and op['m'] == 'free':
            self.env[op['h']]['state'] = 'freed'
        elif k == 'buf' and op['m'] == 'alloc_read':
            self.env[op['h']]['frames'] = None

    def step(self, index, op, in_block, proxy=None):
        """Runs one op; returns its record."""
        led = self.led
        rec = {'index': index, 'op': op, 'before': led.snapshot(),
               'ev0': len(led.events), 'call0': len(self.cap.calls),
               'raised': None, 'in_block': in_block}
        if proxy is not None:
            # public API of the context manager: messages collected so far
            rec['blk0'] = len(proxy.get_bundle()) - 1
        self.env['$default_group'] = self.server.default_group.node_id
        self.env['$live_buffer_numbers'] = led.numbers('buffer')
        exp_pre = None
        if op.get('m') == 'seti' and 'layout' not in op:
            from vf.c17_gen import SETI_DEFS
            op['layout'] = SETI_DEFS[op['def']]
        # everything the expectation needs is known before the call (no
        # object created), or the argument expressions already have to raise
        exp_pre = mc.expect_before(op, self.env)
        try:
            rec['returned'] = self.perform(op)
        except Violation:
            raise
        except Exception as e:
            rec['raised'] = e
        rec['events'] = led.events[rec['ev0']:]
        rec['after'] = led.snapshot()
        rec['call1'] = len(self.cap.calls)
        if proxy is not None:
            rec['blk1'] = len(proxy.get_bundle()) - 1
        if rec['raised'] is None or exp_pre is not None:
            rec['expect'] = exp_pre if exp_pre is not None else mc.expect(op, self.env)
        else:
            rec['expect'] = mc.expect_if_raised(op, self.env)
        if rec['raised'] is None:
            self.after(op)
        self.count('ops_executed')
        self.count(f"op:{rec['expect'].method}" if rec['expect'] else 'op:raised-before-expectation')
        e = rec['raised']
        if e is not None and not (rec['expect'] is not None
                                  and rec['expect'].raise_ok(e)):
            self.aborted = True      # undocumented exception: stop the history here
        return rec

    # ---- a bind block with sync points, inside a routine -----------------------------
    def sync_task(self, prog, blk, done):
        """Generator function for Routine.run: the documented form
        `with s.bind(): ...; yield from s.sync(); ...`."""
        def task():
            idx = blk['first_index']
            addr_before = self.server.addr
            try:
                with self.server.bind() as proxy:
                    blk['addr_inside_is_proxy'] = self.server.addr is proxy
                    for s, ops in enumerate(prog['sections']):
                        if s > 0:
                            el = prog['sync_elements'][s - 1]
                            blk['syncs_started'] += 1
                            if el is None:
                                yield from self.server.sync()
                            else:
                                real = [[x.node_id if hasattr(x, 'node_id') else x
                                         for x in self.real(mm)] for mm in el]
                                blk['elements'].append(
                                    [[mc.control_input(x, self.env) for x in mm]
                                     for mm in el])
                                yield from self.server.sync(elements=real)
                            if el is None:
                                blk['elements'].append(None)
                            blk['syncs_done'] += 1
                        sec = []
                        blk['secs'].append(sec)
                        for op in ops:
                            rec = self.step(idx, op, True, None)
                            idx += 1
                            sec.append(rec)
                            if self.aborted:
                                raise Abort()
                        if prog['raise_at'] == s:
                            raise Boom()
            except (Boom, Abort):
                blk['failed'] = True
            except Violation as v:
                blk['failed'] = True
                blk['violation'] = v
            except Exception as e:        # noqa
                blk['failed'] = True
                blk['unexpected_escape'] = e
            finally:
                blk['call1'] = len(self.cap.calls)
                blk['addr_restored'] = self.server.addr is addr_before
                done.set()
        return task

    def run_sync(self, prog, clocks, wait=10.0):
        """Pre-ops on the calling thread, then the block in a routine.
        Returns False when the routine did not finish in time."""
        import threading
        idx = 0
        for op in prog['pre']:
            rec = self.step(idx, op, False)
            idx += 1
            self.stream.append(('op', rec))
            if self.aborted:
                return True
        blk = {'secs': [], 'elements': [], 'failed': False, 'syncs_started': 0,
               'syncs_done': 0, 'first_index': idx, 'call0': len(self.cap.calls),
               'raise_at': prog['raise_at']}
        done = threading.Event()
        self.m.Routine.run(self.sync_task(prog, blk, done), clocks[prog['clock']])
        if not done.wait(wait):
            return False
        if blk.get('violation') is not None:
            raise blk['violation']
        self.stream.append(('syncblock', blk))
        self.count('sync_blocks_failed' if blk['failed'] else 'sync_blocks_ok')
        return True

    # ---- whole program --------------------------------------------------------------
    def run(self, prog):
        idx = 0
        for item in prog:
            if 'bind' in item:
                blk = {'recs': [], 'failed': False, 'call0': len(self.cap.calls),
                       'escaped': None, 'first_index': idx}
                addr_before = self.server.addr
                try:
                    with self.server.bind() as proxy:
                        blk['addr_inside_is_proxy'] = self.server.addr is proxy
                        for k, op in enumerate(item['bind']):
                            rec = self.step(idx, op, True, proxy)
                            idx += 1
                            blk['recs'].append(rec)
                            if self.aborted:
                                raise Abort()
                            if rec['raised'] is not None and item.get('propagate') \
                                    and k == len(item['bind']) - 1:
                                raise rec['raised']
                        if item['raise_at'] is not None:
                            raise Boom()
                        blk['body_done'] = True
                        if item.get('exit_fault') == 'socket' and self.mode == 'rt':
                            self.cap.fault_armed = True
                except (Boom, Abort):
                    blk['failed'] = True
                    blk['escaped'] = 'Boom'
                except Violation:
                    raise
                except Exception as e:
                    blk['failed'] = True
                    blk['escaped'] = type(e).__name__
                    if item.get('exit_fault') and blk.get('body_done'):
                        blk['exit_failed'] = True      # the provoked failing exit
                    elif not (item.get('propagate') and blk['recs']
                              and blk['recs'][-1]['raised'] is e):
                        blk['unexpected_escape'] = e
                self.cap.fault_armed = False
                blk['exit_fault'] = item.get('exit_fault')
                blk['call1'] = len(self.cap.calls)
                blk['addr_restored'] = self.server.addr is addr_before
                blk['calls_during'] = blk['recs'][-1]['call1'] - blk['call0'] \
                    if blk['recs'] else 0
                self.stream.append(('block', blk))
                self.count('bind_blocks_failed' if blk['failed'] else 'bind_blocks_ok')
                if blk.get('exit_failed'):
                    self.count(f"bind_blocks_exit_failed:{blk['exit_fault']}:{blk['escaped']}")
                idx += 1
                if self.aborted:
                    return
            else:
                rec = self.step(idx, item, False)
                idx += 1
                self.stream.append(('op', rec))
                if self.aborted:
                    return


# ---------------------------------------------------------------------------
# judging

def _decode_blob(b):
    return osc.decode(b)


def _msgs_of(packet):
    return cmdref.flatten(packet)


class Judge:
    def __init__(self, runner, packets, mode, counters):
        self.r = runner
        self.packets = packets          # [(decoded, target)]
        self.mode = mode
        self.count = counters
        self.wire_live = set()          # buffer numbers allocated on the wire
        self.wire_freed_once = set()

    def fail(self, key, rec, **w):
        wit = {'op_index': rec['index'] if rec else None,
               'op': rec['op'] if rec else None}
        wit.update(w)
        op = rec['op'] if rec else None
        if op and op.get('op') == 'synth' and isinstance(op.get('args'), dict) \
                and op['args'].get('sequence_value') \
                and '(freed' not in key and '.as_map' not in key \
                and key.startswith(('C17/raises/', 'C17/method/', 'C17/grammar/')):
            # one class of input, one mechanism: a dict argument whose value is
            # a sequence (the equivalent list form is sent as a [ ] array)
            wit['manifestation'] = key
            key = 'C17/method/Synth(dict args)/sequence-value-not-sent-as-array'
        if op and op.get('m') == 'seti' and key.startswith('C17/method/Synth.seti/'):
            sizes = dict(op.get('layout') or [])
            offs = [(sizes[nm], off) for nm, off, _v in mc._pairs(op['args'], 3)
                    if nm in sizes]
            cls = 'offset-equals-size' if any(off == sz for sz, off in offs) else None
            if cls:
                wit['manifestation'] = key
                key = f'C17/method/Synth.seti/control-outside-the-array-addressed/{cls}'
        if op and isinstance(op.get('target'), dict) and '$lit' in op['target'] \
                and key.startswith(('C17/method/', 'C17/ledger/', 'C17/ids/')) \
                and key.rsplit('/', 1)[-1] in ('arg-mismatch', 'unexpected-allocation',
                                              'node-id-not-allocated'):
            # class of input: a plain int (0 root, 1 default group) as target
            wit['manifestation'] = key
            key = 'C17/target/plain-int-target/' + key.rsplit('/', 1)[-1]
        raise Violation(key, wit)

    # ---- per op -------------------------------------------------------------------
    def check_exception(self, rec):
        exp = rec['expect']
        e = rec['raised']
        if e is None:
            if exp.raises:
                self.fail(f'C17/method/{exp.method}/documented-exception-not-raised',
                          rec, expected=exp.raises, returned=repr(rec.get('returned')),
                          sent=[g.plain() for g, _ in
                                self.packets[rec['call0']:rec['call1']]])
            if exp.returns is not mc.NOTHING:
                self.count('return_values_checked')
                if rec.get('returned') != exp.returns or \
                        type(rec.get('returned')) is not type(exp.returns):
                    self.fail(f'C17/method/{exp.method}/wrong-return-value', rec,
                              expected=exp.returns, returned=repr(rec.get('returned')))
            self.note_use_after_free(rec, raised=False)
            return
        if exp is not None and exp.raise_ok(e):
            self.count('documented_exceptions_seen')
            self.note_use_after_free(rec, raised=True)
            return
        method = exp.method if exp is not None else _method_of(rec['op'])
        self.fail(f'C17/raises/{method}/{_site(e)}', rec, tb=short_tb(e))

    def note_use_after_free(self, rec, raised):
        """Evidence: which kinds of use after free were judged."""
        exp = rec['expect']
        op = rec['op']
        if exp.freed_args:
            self.count('freed_object_in_value_slot_checked')
            self.count('observed_freed_object_in_value_slot_'
                       + ('raised' if raised else 'sent_as_nil_0'))
        if '(freed' in exp.method and not exp.freed_args:
            self.count('calls_on_freed_objects_checked')
            self.count(f'freed:{exp.method}')
            if op.get('cached_symbol'):
                self.count('as_map_after_free_with_cached_symbol_checked')
        if op.get('on_freed_node'):
            self.count('ops_on_freed_nodes_checked')

    def check_packets_outside(self, rec):
        exp = rec['expect']
        got = self.packets[rec['call0']:rec['call1']]
        want = [] if rec['raised'] is not None else exp.packets
        method = exp.method
        if getattr(exp, 'optional', False) and len(got) == 0:
            return
        if exp.method == 'Buffer.free_all' and want and not want[0][1]:
            # nothing to free: an empty bundle or no packet at all
            if len(got) == 0:
                return
        if len(got) != len(want):
            mech = 'unexpected-message' if len(got) > len(want) else 'message-missing'
            self.fail(f'C17/method/{method}/{mech}', rec,
                      expected=mc.plain([p for _, p in want]),
                      got=[g.plain() for g, _ in got], grammar=self.grammar_notes(got))
        for (kind, p), (g, target) in zip(want, got):
            self.check_target(rec, target)
            if self.mode == 'rt':
                is_bundle = isinstance(g, osc.Bundle)
                if (kind == 'bundle') != is_bundle:
                    self.fail(f'C17/method/{method}/'
                              + ('message-sent-as-bundle' if is_bundle
                                 else 'bundle-sent-as-message'), rec, got=g.plain())
                msgs = g.elements if is_bundle else [g]
            else:
                msgs = g.elements
            if any(not isinstance(x, osc.Msg) for x in msgs):
                self.fail(f'C17/method/{method}/nested-bundle', rec, got=g.plain())
            want_msgs = [p] if kind == 'msg' else p
            self.match_sequence(rec, want_msgs, msgs, exp.unordered, got=[g.plain()])
            for mm in msgs:
                self.check_message(rec, mm)

    def match_sequence(self, rec, want_msgs, msgs, unordered, got):
        method = rec['expect'].method
        if not msgs and getattr(rec['expect'], 'optional', False):
            return
        alt = getattr(rec['expect'], 'alt_messages', None)
        if alt is not None:
            def same(want):
                return len(want) == len(msgs) and all(
                    mc.match_message(w, mm, _decode_blob) is None
                    for w, mm in zip(want, msgs))
            if not same(want_msgs) and same(alt):
                # accepted alternative spelling: an observation, not a verdict
                self.count(rec['expect'].alt_counter)
                return
        if unordered:
            left = list(msgs)
            missing = []
            for w in want_msgs:
                for k, mm in enumerate(left):
                    if mc.match_message(w, mm, _decode_blob) is None:
                        del left[k]
                        break
                else:
                    missing.append(w)
            if missing or left:
                mech = ('messages-missing' if missing and not left else
                        'unexpected-messages' if left and not missing else
                        'messages-differ')
                self.fail(f'C17/method/{method}/{mech}', rec,
                          missing=mc.plain(missing), extra=[x.plain() for x in left],
                          got=got)
            return
        if len(msgs) != len(want_msgs):
            mech = ('unexpected-message' if len(msgs) > len(want_msgs)
                    else 'message-missing')
            self.fail(f'C17/method/{method}/{mech}', rec,
                      expected=mc.plain(want_msgs), got=got)
        for w, mm in zip(want_msgs, msgs):
            r = mc.match_message(w, mm, _decode_blob)
            if r:
                self.fail(f'C17/method/{method}/{r}', rec, expected=mc.plain(w),
                          got=_show(mm), grammar=self.grammar_notes([(mm, None)]))

    def check_target(self, rec, target):
        # destination of the datagram / score entry: the server the objects of
        # this history belong to (checked for every packet, RT and NRT)
        if target is None:
            return
        self.count('destinations_checked')
        want = self.r.server.addr._target
        if tuple(target) != tuple(want):
            self.fail('C17/wire/sent-to-wrong-address', rec, target=list(target),
                      expected=list(want))

    def grammar_notes(self, got):
        notes = []
        for g, _ in got:
            for mm in (_msgs_of(g) if not isinstance(g, osc.Msg) else [g]):
                p, _m = cmdref.check(mm)
                notes.extend(k for k, _d in p)
        return notes

    def check_message(self, rec, mm):
        """Grammar and id ledger for one message that reached the wire."""
        problems, mentions = cmdref.check(mm)
        self.count('messages_grammar_checked')
        self.count(f'cmd:{mm.addr}')
        if problems:
            k, d = problems[0]
            self.fail(f'C17/grammar/{k}', rec, detail=d, got=_show(mm))
        led = self.r.led
        before, after = rec['before'], rec['after']
        srv = self.r.server
        wellknown = {0} | {g.node_id for g in srv._default_groups}
        for kind, role, first, cnt in mentions:
            self.count('id_mentions_checked')
            if kind == 'node':
                if first in led.nodes or first in wellknown or \
                        (role == 'new' and first == -1):
                    continue
                self.fail(f'C17/ids/{mm.addr}/node-id-not-allocated', rec,
                          id=first, got=_show(mm))
            elif kind == 'buf':
                ok = first in before['buffer'] or first in after['buffer'] \
                    or first in self.wire_live
                if not ok:
                    self.fail(f'C17/ids/{mm.addr}/buffer-number-not-allocated', rec,
                              id=first, got=_show(mm))
            elif kind in ('cbus', 'abus'):
                if first == -1 and cnt == 1:
                    continue
                if role == 'usesym':
                    self.count('map_symbol_mentions_checked')
                pool = 'control' if kind == 'cbus' else 'audio'
                for a in range(first, first + max(cnt, 1)):
                    if a not in before[pool] and a not in after[pool]:
                        self.fail(f'C17/ids/{mm.addr}/{pool}-bus-not-allocated', rec,
                                  id=a, got=_show(mm))
        # wire-level buffer life cycle (only top-level commands change it)
        for kind, role, first, cnt in mentions[:1]:
            if kind == 'buf' and role == 'new':
                self.wire_live.add(first)
            elif kind == 'buf' and role == 'free':
                self.wire_live.discard(first)

    def check_ledger(self, rec):
        exp = rec['expect']
        if rec['raised'] is not None:
            want = []
        else:
            want = list(exp.ledger)
        ev = rec['events']
        allocs = [e for e in ev if e[1] == 'alloc']
        if rec['raised'] is not None and exp is not None and exp.may_raise:
            # node ids are never returned: one drawn before an allowed raise
            # is simply lost
            allocs = [e for e in allocs if e[0] != 'node']
        releases = [e for e in ev if e[1] == 'free' and e[3] is not None]
        method = exp.method if exp is not None else _method_of(rec['op'])
        self.count('ledger_checks')
        idm = getattr(self.r, 'node_id_model', None)
        if idm is not None:
            for e in ev:
                if e[0] == 'node' and e[1] == 'alloc':
                    v = idm.judge(e[3])
                    self.count('node_ids_judged')
                    if not v:
                        self.fail(f'C17/ids/node-id-allocation/{v.mech}', rec,
                                  detail=v.detail, client=idm.user, first_id=idm.first)
        want_allocs = [w for w in want if w[1] == 'alloc']
        want_rel = [w for w in want if w[1] == 'release']
        if any(w[1] == 'release-all' for w in want):
            if rec['after']['buffer']:
                self.fail(f'C17/ledger/{method}/ids-left-allocated', rec,
                          left=sorted(rec['after']['buffer'])[:8])
            return
        if len(allocs) != len(want_allocs):
            mech = ('id-not-from-allocator' if len(allocs) < len(want_allocs)
                    else 'unexpected-allocation')
            self.fail(f'C17/ledger/{method}/{mech}', rec, events=ev, expected=want)
        for a, w in zip(allocs, want_allocs):
            if (a[0], a[2], a[3]) != (w[0], w[2], w[3]):
                self.fail(f'C17/ledger/{method}/object-id-differs-from-allocated-id',
                          rec, events=ev, expected=want)
        if len(releases) != len(want_rel):
            mech = ('id-not-returned-to-allocator' if len(releases) < len(want_rel)
                    else 'unexpected-release')
            self.fail(f'C17/ledger/{method}/{mech}', rec, events=ev, expected=want)
        for a, w in zip(releases, want_rel):
            if (a[0], a[2]) != (w[0], w[2]):
                self.fail(f'C17/ledger/{method}/released-wrong-id', rec, events=ev,
                          expected=want)

    # ---- blocks --------------------------------------------------------------------------
    def check_block(self, blk):
        recs = blk['recs']
        first = recs[0] if recs else None
        pseudo = first or {'index': blk['first_index'], 'op': {'op': 'bind-block'}}
        for rec in recs:
            self.check_exception(rec)
        if blk.get('unexpected_escape') is not None:
            e = blk['unexpected_escape']
            self.fail(f'C17/bind/raises/{_site(e)}', pseudo, tb=short_tb(e))
        if not blk.get('addr_inside_is_proxy', True):
            self.fail('C17/bind/server-address-not-proxied-inside-block', pseudo)
        if not blk['addr_restored']:
            self.fail('C17/bind/server-address-not-restored/'
                      + ('after-failing-exit' if blk.get('exit_failed') else
                         'after-exception' if blk['failed'] else 'after-normal-exit'),
                      pseudo, exit_fault=blk.get('exit_fault'), escaped=blk.get('escaped'))
        if blk.get('exit_failed'):
            self.count('exit_fault_blocks_checked')
        if blk['calls_during']:
            self.fail('C17/bind/command-sent-before-block-exit', pseudo,
                      got=[g.plain() for g, _ in
                           self.packets[blk['call0']:blk['call0'] + blk['calls_during']]])
        got = self.packets[blk['call0']:blk['call1']]
        if blk['failed']:
            self.count('failed_blocks_checked')
            if got:
                self.fail('C17/bind/commands-sent-although-block-raised', pseudo,
                          escaped=blk['escaped'], got=[g.plain() for g, _ in got])
            for rec in recs:
                self.check_ledger(rec)
            return
        self.count('ok_blocks_checked')
        issued = recs[-1]['blk1'] if recs else 0
        if issued == 0 and not got:
            for rec in recs:
                self.match_sequence(rec, [] if rec['raised'] is not None
                                    else rec['expect'].messages(), [],
                                    rec['expect'].unordered, got=[])
                self.check_ledger(rec)
            return
        if not got:
            self.fail('C17/bind/block-sent-nothing', pseudo, n_packets=0,
                      issued_messages=issued)
        sizes = getattr(self.r.cap, 'sizes', None)
        gsizes = sizes[blk['call0']:blk['call1']] if sizes else None
        for g, target in got:
            self.check_target(pseudo if first is None else first, target)
            if not isinstance(g, osc.Bundle):
                self.fail('C17/bind/block-sent-as-plain-message', pseudo, got=g.plain())
            if any(not isinstance(x, osc.Msg) for x in g.elements):
                self.fail('C17/bind/nested-bundle-in-block-bundle', pseudo,
                          got=_clip(g.plain()))
        if len(got) > 1:
            # several datagrams are only legitimate for a block that does not
            # fit one datagram (the library's own size estimate is allowed 8 %
            # of slack); each datagram must respect the documented bound
            self.count('clumped_blocks_checked')
            self.count('clumped_block_datagrams', len(got))
            if gsizes is None:
                self.fail('C17/bind/block-split-into-several-bundles', pseudo,
                          n_packets=len(got), issued_messages=issued)
        if gsizes and max(gsizes) > Capture.MAX_DGRAM:
            self.fail('C17/bind-clumped/datagram-larger-than-documented-bound', pseudo,
                      sizes=gsizes[:20], bound=Capture.MAX_DGRAM)
        msgs = [x for g, _ in got for x in g.elements]
        whole = osc.Bundle(0, msgs)
        self.count('block_messages_compared', len(msgs))
        if len(msgs) != issued:
            if len(got) > 1:
                exp_all = [w for r in recs if r['raised'] is None
                           for w in r['expect'].messages()]
                self.fail('C17/bind-clumped/datagrams-do-not-add-up-to-issued-commands',
                          pseudo, issued_messages=issued, on_wire=len(msgs),
                          datagrams=len(got),
                          per_datagram=[len(g.elements) for g, _ in got][:40],
                          first_issued=mc.plain(exp_all[:3]),
                          first_on_wire=[_show(x) for x in msgs[:3]])
            self.fail('C17/bind/bundle-size-differs-from-issued-messages', pseudo,
                      issued_messages=issued, bundle=_clip(whole.plain()))
        if len(got) > 1:
            single = sum(gsizes) - 16 * (len(got) - 1)
            if single <= 0.92 * Capture.MAX_DGRAM:
                self.fail('C17/bind/block-split-into-several-bundles', pseudo,
                          n_packets=len(got), issued_messages=issued,
                          single_bundle_bytes=single,
                          got=_clip([g.plain() for g, _ in got]))
        # every element must belong to an operation of the block
        pos = 0
        for rec in recs:
            if rec['blk0'] != pos:
                self.fail('C17/bind/foreign-command-captured-into-block-bundle', rec,
                          foreign=[_show(x) for x in msgs[pos:rec['blk0']]][:10],
                          where='between two operations of the block')
            pos = rec['blk1']
        for rec in recs:
            seg = msgs[rec['blk0']:rec['blk1']]
            if rec['op'].get('op') == 'hold':
                self.count('blocks_held_open_checked')
                if seg:
                    self.fail('C17/bind/foreign-command-captured-into-block-bundle', rec,
                              foreign=[_show(x) for x in seg][:10],
                              where='while the block was held open')
                continue
            wm = [] if rec['raised'] is not None else rec['expect'].messages()
            self.match_block_segment(rec, wm, seg, rec['expect'].unordered, whole)
            for mm in seg:
                self.check_message(rec, mm)
            self.check_ledger(rec)        # in operation order: first cause first

    def check_sync_block(self, blk):
        recs = [r for sec in blk['secs'] for r in sec]
        first = recs[0] if recs else None
        pseudo = first or {'index': blk['first_index'], 'op': {'op': 'bind-block-with-sync'}}
        for rec in recs:
            self.check_exception(rec)
        if blk.get('unexpected_escape') is not None:
            e = blk['unexpected_escape']
            self.fail(f'C17/bind-sync/raises/{_site(e)}', pseudo, tb=short_tb(e))
        if not blk.get('addr_inside_is_proxy', True):
            self.fail('C17/bind/server-address-not-proxied-inside-block', pseudo)
        if not blk['addr_restored']:
            self.fail('C17/bind/server-address-not-restored/'
                      + ('after-exception' if blk['failed'] else 'after-normal-exit'),
                      pseudo)
        # ---- observed traffic, split at the datagrams that carry /sync
        got = self.packets[blk['call0']:blk['call1']]
        wire_secs = [[]]          # per section: list of bundles (lists of Msg)
        wire_elems = []           # per sync: messages that travelled with /sync
        shape_problem = None
        for g, target in got:
            self.check_target(pseudo, target)
            msgs = _msgs_of(g) if not isinstance(g, osc.Msg) else [g]
            if any(mm.addr == '/sync' for mm in msgs):
                if msgs[-1].addr != '/sync' or sum(mm.addr == '/sync' for mm in msgs) != 1:
                    shape_problem = 'sync-not-last-in-its-bundle'
                wire_elems.append([mm for mm in msgs if mm.addr != '/sync'])
                wire_secs.append([])
            else:
                if not isinstance(g, osc.Bundle):
                    shape_problem = 'section-sent-as-plain-message'
                wire_secs[-1].append(msgs)
        witness = {'wire': [g.plain() for g, _ in got], 'syncs': blk['syncs_started'],
                   'raise_at': blk['raise_at']}
        self.count('sync_points_observed', len(wire_elems))
        if len(wire_elems) != blk['syncs_started']:
            self.fail('C17/bind-sync/sync-count-differs', pseudo,
                      syncs_on_wire=len(wire_elems), **witness)
        # ---- what had to be sent: a section goes out at the sync point that
        # ends it, the last one at block exit - unless the block raised
        nsec = len(blk['secs'])
        exp_secs = []
        for k, sec in enumerate(blk['secs']):
            sent = (k < nsec - 1) or not blk['failed']
            exp_secs.append([(w, r) for r in sec if r['raised'] is None
                             for w in r['expect'].messages()] if sent else [])
        while len(exp_secs) < len(wire_secs):
            exp_secs.append([])
        flat_exp = [w for sec in exp_secs for w, _ in sec]
        flat_wire = [mm for sec in wire_secs for b in sec for mm in b]
        self.count('sync_block_messages_compared', len(flat_wire))
        witness['expected_sections'] = mc.plain([[w for w, _ in sec] for sec in exp_secs])
        lens_ok = all(sum(len(b) for b in ws) == len(es)
                      for ws, es in zip(wire_secs, exp_secs))
        if not lens_ok:
            # greedy in-order alignment: which issued commands never arrived?
            j = 0
            lost = []
            for w in flat_exp:
                if j < len(flat_wire) and mc.match_message(w, flat_wire[j], _decode_blob) is None:
                    j += 1
                else:
                    lost.append(w)
            extra = flat_wire[j:]
            if blk['failed'] and not lost and extra:
                self.fail('C17/bind-sync/commands-sent-although-block-raised', pseudo,
                          extra=[_show(x) for x in extra], **witness)
            if lost and not extra:
                firsts = [sec[0][0] for sec in exp_secs[1:] if sec]
                pos = ('first-command-after-sync'
                       if all(any(mc.plain(w) == mc.plain(f) for f in firsts)
                              for w in lost)
                       else 'other-position')
                self.fail(f'C17/bind-sync/commands-lost/{pos}', pseudo,
                          lost=mc.plain(lost), **witness)
            if not lost and not extra:
                self.fail('C17/bind-sync/grouping-differs-from-sync-points', pseudo,
                          **witness)
            dup = any(any(mc.match_message(w, x, _decode_blob) is None for w in flat_exp)
                      for x in extra)
            self.fail('C17/bind-sync/' + ('commands-duplicated' if dup and not lost
                                          else 'commands-differ'), pseudo,
                      lost=mc.plain(lost), extra=[_show(x) for x in extra], **witness)
        if shape_problem:
            self.fail(f'C17/bind-sync/{shape_problem}', pseudo, **witness)
        for ws, es in zip(wire_secs, exp_secs):
            if len(ws) > 1:
                self.fail('C17/bind-sync/section-split-into-several-bundles', pseudo,
                          **witness)
            msgs = ws[0] if ws else []
            pos = 0
            for rec in _unique([r for _, r in es]):
                wm = rec['expect'].messages()
                seg = msgs[pos:pos + len(wm)]
                pos += len(wm)
                self.match_sequence(rec, wm, seg, False, got=witness['wire'])
                for mm in seg:
                    self.check_message(rec, mm)
        for k, (el, wel) in enumerate(zip(blk['elements'], wire_elems)):
            want = el or []
            if len(want) != len(wel) or any(
                    mc.match_message(w, x, _decode_blob) for w, x in zip(want, wel)):
                self.fail('C17/bind-sync/sync-elements-differ', pseudo, sync_index=k,
                          expected_elements=want, **witness)
        for rec in recs:
            self.check_ledger(rec)
        self.count('sync_blocks_failed_checked' if blk['failed']
                   else 'sync_blocks_ok_checked')
        self.count('sync_blocks_checked')

    def match_block_segment(self, rec, wm, seg, unordered, g):
        try:
            self.match_sequence(rec, wm, seg, unordered, got=None)
        except Violation as v:
            v.witness['got'] = [_clip(g.plain())]
            # inside a block a mismatch is either the method's fault or an
            # ordering fault of the bundle: tell them apart
            all_w = [w for r in self._cur_block_recs if r['raised'] is None
                     for w in r['expect'].messages()]
            left = list(g.elements)
            # only when every operation issued as many messages as expected
            perm = all((r['blk1'] - r['blk0']) == (
                0 if r['raised'] is not None else len(r['expect'].messages()))
                for r in self._cur_block_recs)
            for w in all_w:
                for k, mm in enumerate(left):
                    if mc.match_message(w, mm, _decode_blob) is None:
                        del left[k]
                        break
                else:
                    perm = False
                    break
            if perm and not left:
                v.key = 'C17/bind/block-bundle-out-of-issue-order'
                v.args = (v.key,)
            raise v

    # ---- driver -----------------------------------------------------------------------------
    def run(self):
        for kind, item in self.r.stream:
            if kind == 'op':
                self.check_exception(item)
                self.check_packets_outside(item)
                self.check_ledger(item)
                self.count('ops_compared')
            elif kind == 'syncblock':
                self.check_sync_block(item)
                self.count('ops_compared', sum(len(x) for x in item['secs']))
            else:
                self._cur_block_recs = item['recs']
                self.check_block(item)
                self.count('ops_compared', len(item['recs']))
        # nothing may be left over
        used = sum(1 for _ in self.packets)
        expected_calls = 0
        for kind, item in self.r.stream:
            expected_calls += (item['call1'] - item['call0'])
        if used != expected_calls:
            raise Violation('C17/wire/packets-outside-any-operation',
                            {'packets': used, 'attributed': expected_calls})


def _clip(plain, n=60):
    """Keeps witnesses of very large blocks readable."""
    if isinstance(plain, list) and len(plain) > n:
        return plain[:n] + [f'... {len(plain) - n} more']
    return plain


def _unique(seq):
    out = []
    for x in seq:
        if not any(x is y for y in out):
            out.append(x)
    return out


def _show(mm):
    out = [mm.addr]
    for a in mm.args:
        if isinstance(a, bytes):
            try:
                out.append({'blob': osc.decode(a).plain()})
            except Exception:
                out.append({'blob_hex': a.hex()})
        else:
            out.append(a)
    return out


def _method_of(op):
    k = op['op']
    if k == 'synth':
        return f"Synth.{op['ctor']}"
    if k == 'group':
        return f"{op['cls']}.{op['ctor']}"
    if k == 'buffer':
        return f"Buffer.{op['ctor']}"
    if k in ('node', 'buf', 'busm', 'busq', 'server'):
        return f"{k}.{op['m']}"
    return k


# ---------------------------------------------------------------------------
# streaming routines (Buffer.send_list / get_to_list) overlapping bind() blocks

def run_stream_case(m, server, cap, case, clocks, count, main_lock, wait_limit=8.0):
    """Returns None (held), 'timeout' (no verdict) or raises Violation.
    Decides on observed traffic only, and only on logical quantities (capture
    sequence numbers, clock order) - wall-clock waits are bounds that end in
    'timeout', never in a key: every chunk of the stream reaches the wire
    exactly once with the right offsets; chunks issued while a bind() block is
    open travel in that block's bundle, never directly.
    The main-thread forms enter and leave the block while holding the
    library's main lock, i.e. between two routine steps, so that no send of
    the streaming routine is half way when server.addr is swapped."""
    import random
    kind, n, ch, start = case['kind'], case['n'], case['channels'], case['start']
    w = case['wait']
    vr = random.Random(case['values_seed'])
    grid = [k / 64.0 for k in range(-64, 65)]              # float32 exact
    lst = [vr.choice(grid) for _ in range(n)] if kind == 'send_list' else None
    frames = (n // ch) + start + 16
    buf = m.Buffer(frames, ch, server)
    grp = m.Group(server)
    bufnum, gid = buf.bufnum, grp.node_id
    nchunks = -(-n // (1626 if kind == 'send_list' else 1633))
    done = threading.Event()
    marks = {}
    cap.reset()

    def begin(clock):
        """Starts the stream; the end is signalled logically: send_list calls
        its action after the last chunk, get_to_list (no replies here) is
        followed by a sentinel scheduled on the same clock at a later logical
        time than its last request - the clock runs tasks in time order."""
        if kind == 'send_list':
            buf.send_list(lst, start, w, lambda *a: done.set())
        else:
            buf.get_to_list(lambda *a: None, start, n, w, 60)
            clock.sched(w * (nchunks + 2), lambda: done.set())

    class Locked:
        """`with server.bind()` entered and left under the main lock."""
        def __enter__(self):
            with main_lock:
                self.cm = server.bind()
                self.proxy = self.cm.__enter__()
                marks['enter'] = len(cap.calls)
            return self.proxy

        def __exit__(self, *exc):
            with main_lock:
                marks['pre_exit'] = len(cap.calls)
                return self.cm.__exit__(*exc)

    escaped = []
    form = case['form']
    try:
        if form == 'no-block':
            begin(clocks['system'])
        elif form == 'start-inside':
            with Locked() as proxy:
                grp.run(False)
                begin(clocks['system'])
                t0 = _time.time()         # bound only: proceed anyway
                while len(proxy.get_bundle()) - 1 < 2 and _time.time() - t0 < 2.0:
                    _time.sleep(0.005)
                _time.sleep(w * (case['hold'] - 1.2))
                grp.trace()
        elif form == 'start-outside':
            begin(clocks['system'])
            t0 = _time.time()             # bound only
            while not cap.calls and _time.time() - t0 < 2.0:
                _time.sleep(0.003)
            with Locked() as proxy:
                grp.run(False)
                _time.sleep(w * (case['hold'] + 1.4))      # >= 2.6 chunk periods
                grp.trace()
        else:       # the block lives in a routine that yields after starting the stream
            fin = threading.Event()
            clock = clocks[case['clock']]

            def task():
                try:
                    with server.bind() as proxy:
                        marks['enter'] = len(cap.calls)
                        grp.run(False)
                        begin(clock)
                        yield w * case['hold']
                        grp.trace()
                        marks['pre_exit'] = len(cap.calls)
                except Exception as e:          # noqa
                    escaped.append(e)
                finally:
                    fin.set()
            m.Routine.run(task, clock)
            if not fin.wait(wait_limit):
                return 'timeout'
    except Exception as e:
        escaped.append(e)
    if escaped:
        e = escaped[0]
        raise Violation(f'C17/stream/raises/{_site(e)}', {'tb': short_tb(e)})
    if not done.wait(wait_limit):
        return 'timeout'
    # get_to_list's end marker is a sentinel on a clock that need not be the
    # one its requesting routine runs on; on a starved host the sentinel can
    # overtake the last requests.  Bounded settling (never a verdict by
    # itself): while fewer chunk commands than expected are on the wire, give
    # the routine up to 4 s more; a chunk that is really lost stays lost.
    cmd_b = (b'/b_setn' if kind == 'send_list' else b'/b_getn')
    t0 = _time.time()
    while _time.time() - t0 < 4.0:
        seen = sum(d.count(cmd_b) for d, _t in list(cap.calls))
        if seen >= nchunks:
            break
        _time.sleep(0.05)
    else:
        count('stream_cases_settling_bound_reached')
    calls = list(cap.calls)
    packets = [(osc.decode(b), t) for b, t in calls]
    # ---- expected chunk sequence
    cmd = '/b_setn' if kind == 'send_list' else '/b_getn'
    exp = []
    if kind == 'send_list':
        for pos in range(0, n, 1626):
            sub = lst[pos:pos + 1626]
            exp.append([cmd, bufnum, start * ch + pos, len(sub)] + [mc.Num(v) for v in sub])
    else:
        pos = start
        while pos < start + n:
            size = min(1633, start + n - pos)
            exp.append([cmd, bufnum, pos, size])
            pos += size
    # ---- observed
    wire = []            # (chunk Msg, 'bundle' | 'direct', call index)
    bundle_other = None
    for k, (p, _t) in enumerate(packets):
        if isinstance(p, osc.Bundle):
            others = []
            for mm in p.elements:
                if isinstance(mm, osc.Msg) and mm.addr == cmd and mm.args[:1] == [bufnum]:
                    wire.append((mm, 'bundle', k))
                else:
                    others.append(mm)
            if form != 'no-block' and bundle_other is None:
                bundle_other = others
        elif p.addr == cmd and p.args[:1] == [bufnum]:
            wire.append((p, 'direct', k))
    def brief(mm):
        return [mm.addr] + list(mm.args[:3]) + [f'... {len(mm.args) - 3} values']
    wit = {'case': case, 'expected_chunks': [e[:4] for e in exp],
           'wire_chunks': [brief(mm) + [how] for mm, how, _ in wire]}
    count('stream_chunks_expected', len(exp))
    count('stream_chunks_in_block_bundle', sum(1 for _, h, _k in wire if h == 'bundle'))
    count('stream_chunks_sent_directly', sum(1 for _, h, _k in wire if h == 'direct'))
    if 'enter' in marks:
        # logical criterion (capture sequence numbers, no clock readings): at
        # block entry at most one send of the streaming routine can be under
        # way with the address it had already read; two or more chunks sent
        # directly between the entry and the exit marker were issued while the
        # block was open
        inside = [k for mm, how, k in wire if how == 'direct'
                  and marks['enter'] <= k < marks.get('pre_exit', 10 ** 9)]
        count('stream_direct_chunks_inside_block_window', len(inside))
        if len(inside) >= 2:
            wit['direct_chunks_between_entry_and_exit_markers'] = len(inside)
            raise Violation('C17/stream/chunk-sent-directly-while-block-open', wit)
    # every chunk exactly once; the chunks issued inside the block (bundle,
    # sent at exit) and the ones issued outside (direct) each keep issue order
    def offs(seq):
        return [mm.args[1] for mm in seq]
    by_off = sorted((x[0] for x in wire), key=lambda mm: mm.args[1])
    j = 0
    lost = []
    for e in exp:
        if j < len(by_off) and mc.match_message(e, by_off[j], _decode_blob) is None:
            j += 1
        else:
            lost.append(e[:4])
    extra = by_off[j:]
    if lost and not extra and len(by_off) < len(exp):
        wit['lost'] = lost
        raise Violation('C17/stream/chunks-lost', wit)
    if extra or lost:
        seen = offs(by_off)
        dup = len(set(seen)) < len(seen)
        wit['lost'] = lost
        raise Violation('C17/stream/' + ('chunks-duplicated' if dup else 'chunks-differ'),
                        wit)
    for how in ('bundle', 'direct'):
        o = offs([mm for mm, h, _k in wire if h == how])
        if o != sorted(o):
            raise Violation(f'C17/stream/chunks-out-of-issue-order/{how}', wit)
    if form != 'no-block':
        want = [['/n_run', gid, 0], ['/n_trace', gid]]
        got = bundle_other or []
        if len(got) != 2 or any(mc.match_message(a, b, _decode_blob)
                                for a, b in zip(want, got)):
            wit['bundle_other'] = [_show(x) for x in got]
            raise Violation('C17/stream/block-bundle-differs', wit)
        if any(h == 'bundle' for _, h, _k in wire):
            count('stream_cases_with_chunks_inside_block')
        if any(h == 'direct' for _, h, _k in wire):
            count('stream_cases_with_chunks_outside_block')
    count('stream_cases_checked')
    count(f'stream_cases:{kind}:{form}')
    return None


def define_seti_defs(sc3mods_synthdef, layouts):
    """add()s the definitions of vf/c17_gen.py:SETI_DEFS and verifies that the
    library's description has the layout the model assumes.  Returns None or
    a reason (harness assumption broken -> inconclusive, never a verdict)."""
    from sc3.synth.synthdef import SynthDef
    from sc3.synth.synthdesc import SynthDescLib
    from sc3.synth.ugens import SinOsc, Out, Mix

    def ga(out=0, freqs=(440, 550, 660), amp=0.1, pan=0):
        Out.ar(out, Mix(SinOsc.ar(freqs)) * amp)

    def gb(freqs=(100, 200), amps=(0.1, 0.2, 0.3, 0.4), gate=1):
        Out.ar(0, Mix(SinOsc.ar(freqs)) * Mix(amps) * gate)

    def gc(a=0, arr=(1, 2, 3, 4, 5), b=(7, 8, 9), c=1):
        Out.ar(a, Mix(SinOsc.ar(arr)) * Mix(b) * c)

    for name, g in (('vf_seti_a', ga), ('vf_seti_b', gb), ('vf_seti_c', gc)):
        SynthDef(name, g).add()
        desc = SynthDescLib.default.at(name)
        if desc is None:
            return f'{name}: no description after add()'
        k = 0
        for pname, chans in layouts[name]:
            cn = desc.control_dict.get(pname)
            if cn is None or cn.index != k or cn.channels != chans:
                return (f'{name}.{pname}: description says index '
                        f'{getattr(cn, "index", None)} x {getattr(cn, "channels", None)}, '
                        f'assumed {k} x {chans}')
            k += chans
    return None


# ---------------------------------------------------------------------------
# nested bind() blocks (round 8)

class NestedCase:
    """Runs a case of vf/c17_gen.py:gen_nested_case: one Runner (objects, id
    ledger, model environment) per server, one capture, and a log of what
    happened in execution order: ('op', srv, rec) | ('enter', srv, st) |
    ('exit-ok', srv, st) | ('exit-fail', srv, st) | ('sync', srv, elements)."""

    def __init__(self, sc3mods, servers, mode, capture, ledgers, counters):
        self.m = sc3mods
        self.cap = capture
        self.mode = mode
        self.count = counters
        self.runners = [Runner(sc3mods, s, mode, capture, l, counters)
                        for s, l in zip(servers, ledgers)]
        self.log = []
        self.idx = 0
        self.unexpected = None
        self.violation = None
        self.aborted = False

    def do_op(self, item):
        s = item['srv']
        r = self.runners[s]
        rec = r.step(self.idx, item['do'], None)
        self.idx += 1
        self.log.append(('op', s, rec))
        if r.aborted:
            self.aborted = True
            raise Abort()

    def block(self, blk):
        """Generator (driven by a routine, or run to its end on the main
        thread when the case has no sync / wait)."""
        s = blk['srv']
        server = self.runners[s].server
        addr_before = server.addr
        st = {'blk': blk, 'srv': s}
        try:
            with server.bind():
                self.log.append(('enter', s, st))
                st['collecting_inside'] = bool(server.addr.has_bundle())
                for item in blk['items']:
                    if 'do' in item:
                        self.do_op(item)
                    elif 'block' in item:
                        yield from self.block(item['block'])
                    elif 'sync' in item:
                        r = self.runners[item['srv']]
                        el = item['sync']
                        real = want = None
                        if el is not None:
                            real = [[x.node_id if hasattr(x, 'node_id') else x
                                     for x in r.real(mm)] for mm in el]
                            want = [[mc.control_input(x, r.env) for x in mm]
                                    for mm in el]
                        self.log.append(('sync', item['srv'], want))
                        if real is None:
                            yield from r.server.sync()
                        else:
                            yield from r.server.sync(elements=real)
                    else:
                        yield item['wait']
                if blk['raise_at'] is not None:
                    raise Boom()
            self.log.append(('exit-ok', s, st))
            st['addr_restored'] = server.addr is addr_before
        except BaseException as e:
            self.log.append(('exit-fail', s, st))
            st['addr_restored'] = server.addr is addr_before
            st['escaped'] = type(e).__name__
            if isinstance(e, Boom) and blk['catch']:
                return
            raise

    def run(self, case, clocks, wait=10.0):
        """False: the routine did not finish in time (no verdict)."""
        try:
            for item in case['pre']:
                self.do_op(item)
        except Abort:
            return True
        done = threading.Event()

        def task():
            try:
                yield from self.block(case['root'])
            except (Boom, Abort):
                pass
            except Violation as v:
                self.violation = v
            except Exception as e:      # noqa
                self.unexpected = e
            finally:
                done.set()
        if case['where'] == 'routine':
            self.m.Routine.run(task, clocks[case['clock']])
            if not done.wait(wait):
                return False
        else:
            for _ in task():
                raise AssertionError('a main-thread case must not yield')
        if self.violation is not None:
            raise self.violation
        if self.aborted or self.unexpected is not None:
            return True
        try:
            for item in case['post']:
                self.do_op(item)
        except Abort:
            pass
        return True


class NestedJudge:
    """Reference model of nested blocks, written from the property statement
    and the documentation of Server.bind / Server.sync (no sc3 import):
    every server has a stack of open blocks; a command belongs to the
    innermost open block of its server (none: it is sent directly); a block
    that exits normally hands its commands to the enclosing block of the same
    server, the outermost one sends them as ONE bundle; a block that raises
    drops its commands; `yield from server.sync()` sends everything issued so
    far in the open blocks of that server as one bundle, then the /sync
    bundle (with its elements).  The wire must carry exactly that."""

    def __init__(self, nc, packets, mode, counters):
        self.nc = nc
        self.packets = packets
        self.mode = mode
        self.count = counters
        self.judges = [Judge(r, packets, mode, counters) for r in nc.runners]
        self.targets = [tuple(r.server.addr._target) for r in nc.runners]

    @staticmethod
    def msgs_of(rec):
        if rec['raised'] is not None or rec['expect'] is None:
            return []
        return rec['expect'].messages()

    def fail(self, key, rec=None, **w):
        wit = {'op_index': rec['index'] if rec else None,
               'op': rec['op'] if rec else None}
        wit.update(w)
        wit['wire'] = _clip([[list(t) if t else None, g.plain()]
                             for g, t in self.packets], 40)
        raise Violation(key, wit)

    def run(self):
        nc = self.nc
        for ev in nc.log:
            if ev[0] == 'op':
                self.judges[ev[1]].check_exception(ev[2])
        if nc.unexpected is not None:
            e = nc.unexpected
            self.fail(f'C17/bind-nested/raises/{_site(e)}', tb=short_tb(e))
        for ev in nc.log:
            if ev[0] == 'enter':
                st = ev[2]
                if not st.get('collecting_inside', True):
                    self.fail('C17/bind/server-address-not-proxied-inside-block',
                              depth=st['blk']['depth'])
            elif ev[0] in ('exit-ok', 'exit-fail') and ev[2].get('addr_restored') is False:
                self.fail('C17/bind-nested/server-address-not-restored/'
                          + ('after-exception' if ev[0] == 'exit-fail'
                             else 'after-normal-exit'), depth=ev[2]['blk']['depth'])
        # ---- the model
        stacks = [[] for _ in nc.runners]
        emis = []            # ('direct', s, rec) | ('bundle', s, recs, info) | ('sync', s, el)
        dropped = [[] for _ in nc.runners]      # (rec, nested?) of blocks that raised
        for ev in nc.log:
            kind, s = ev[0], ev[1]
            if kind == 'op':
                rec = ev[2]
                if stacks[s]:
                    if rec['call1'] != rec['call0']:
                        self.fail('C17/bind/command-sent-before-block-exit', rec,
                                  got=[g.plain() for g, _ in
                                       self.packets[rec['call0']:rec['call1']]])
                    stacks[s][-1]['recs'].append(rec)
                else:
                    emis.append(('direct', s, rec))
                    if any(stacks):
                        self.count('nested_direct_sends_to_a_server_without_open_block')
            elif kind == 'enter':
                stacks[s].append({'recs': [], 'drops': 0, 'depth': len(stacks[s])})
                self.count('nested_blocks_entered')
                if len(stacks[s]) >= 2:
                    self.count('nested_blocks_inside_a_block_of_the_same_server')
                if len(stacks[s]) >= 3:
                    self.count('nested_blocks_at_same_server_depth_3')
            elif kind == 'exit-ok':
                top = stacks[s].pop()
                if stacks[s]:
                    stacks[s][-1]['recs'].extend(top['recs'])
                    stacks[s][-1]['drops'] += top['drops']
                else:
                    emis.append(('bundle', s, top['recs'],
                                 {'how': 'exit', 'drops': top['drops']}))
            elif kind == 'exit-fail':
                top = stacks[s].pop()
                nested = bool(stacks[s])
                n = sum(len(self.msgs_of(r)) for r in top['recs'])
                dropped[s].extend((r, nested) for r in top['recs'])
                self.count('nested_blocks_failed')
                if nested and n:
                    stacks[s][-1]['drops'] += 1
                    self.count('nested_failed_inner_blocks_with_commands_in_open_outer_block')
            elif kind == 'sync':
                recs = [r for b in stacks[s] for r in b['recs']]
                drops = sum(b['drops'] for b in stacks[s])
                if len(stacks[s]) >= 2:
                    self.count('nested_sync_points_inside_inner_blocks')
                for b in stacks[s]:
                    b['recs'] = []
                    b['drops'] = 0
                emis.append(('bundle', s, recs, {'how': 'sync', 'drops': drops}))
                emis.append(('sync', s, ev[2]))
                self.count('nested_sync_points')
        # ---- whole sequences per server first (which commands, which order)
        SYNC = ['/sync']
        for s in range(len(nc.runners)):
            exp = []          # (want message, rec | None, where)
            for e in emis:
                if e[1] != s:
                    continue
                if e[0] == 'direct':
                    exp += [(w, e[2], 'outside') for w in self.msgs_of(e[2])]
                elif e[0] == 'bundle':
                    exp += [(w, r, 'block') for r in e[2] for w in self.msgs_of(r)]
                else:
                    exp += [(w, None, 'sync') for w in (e[2] or [])] + [(SYNC, None, 'sync')]
            wire = [mm for g, t in self.packets if t is not None
                    and tuple(t) == self.targets[s]
                    for mm in (_msgs_of(g) if not isinstance(g, osc.Msg) else [g])]
            self.count('nested_messages_compared', len(wire))

            def same(w, mm):
                if w is SYNC:
                    return mm.addr == '/sync' and len(mm.args) == 1
                return mc.match_message(w, mm, _decode_blob) is None
            if len(exp) == len(wire) and all(w[0] == mm.addr
                                             for (w, _r, _k), mm in zip(exp, wire)):
                continue        # same commands in the same order: details below
            left = list(wire)
            lost = []
            for w, r, k in exp:
                for j, mm in enumerate(left):
                    if same(w, mm):
                        del left[j]
                        break
                else:
                    lost.append((w, r, k))
            wit = {'server': s,
                   'expected': mc.plain([w for w, _r, _k in exp])[:60],
                   'on_wire': [_show(x) for x in wire][:60],
                   'lost': mc.plain([w for w, _r, _k in lost])[:20],
                   'extra': [_show(x) for x in left][:20]}
            leaked = [(x, nested) for x in left for r, nested in dropped[s]
                      if any(same(w, x) for w in self.msgs_of(r))]
            if leaked:
                where = ('inner-block-caught-inside-an-outer-block'
                         if any(n for _x, n in leaked) else 'outermost-block')
                wit['leaked'] = [_show(x) for x, _n in leaked][:20]
                self.fail('C17/bind-nested/commands-of-a-block-that-raised-'
                          f'reached-the-wire/{where}', **wit)
            if left and not lost:
                dup = any(same(w, x) for x in left for w, _r, _k in exp)
                self.fail('C17/bind-nested/' + ('commands-duplicated' if dup
                                                else 'unexpected-commands'), **wit)
            if lost and not left:
                kinds = {k for _w, _r, k in lost}
                where = ('of-blocks-that-exited-normally' if kinds == {'block'}
                         else 'outside-blocks' if kinds == {'outside'}
                         else 'sync-point' if kinds == {'sync'} else 'mixed')
                self.fail(f'C17/bind-nested/commands-lost/{where}', **wit)
            if not lost and not left:
                self.fail('C17/bind-nested/commands-out-of-issue-order', **wit)
            self.fail('C17/bind-nested/commands-differ', **wit)
        # ---- packet by packet: one bundle per outermost block / sync point
        cur = 0
        P = self.packets
        shape = [[len(_msgs_of(g)) if not isinstance(g, osc.Msg) else 1,
                  list(t) if t else None] for g, t in P]

        def structure(why, **w):
            self.fail('C17/bind-nested/' + why, packets_elements_and_targets=shape[:40],
                      expected_emissions=[[e[0], e[1], sum(len(self.msgs_of(r)) for r in e[2])
                                           if e[0] == 'bundle' else None]
                                          for e in emis][:40], **w)
        for e in emis:
            s = e[1]
            J = self.judges[s]
            if e[0] == 'direct':
                rec = e[2]
                if rec['call0'] != cur:
                    structure('packets-not-attributable-to-an-operation', at=cur)
                J.check_packets_outside(rec)
                cur = rec['call1']
                continue
            if e[0] == 'sync':
                if cur >= len(P):
                    structure('grouping-differs-from-outermost-blocks', at=cur)
                g, t = P[cur]
                cur += 1
                J.check_target({'index': None, 'op': {'op': 'sync'}}, t)
                msgs = _msgs_of(g) if not isinstance(g, osc.Msg) else [g]
                if not msgs or msgs[-1].addr != '/sync' or \
                        sum(mm.addr == '/sync' for mm in msgs) != 1:
                    structure('grouping-differs-from-outermost-blocks', at=cur - 1,
                              detail='expected the /sync bundle here')
                want = e[2] or []
                if len(want) != len(msgs) - 1 or any(
                        mc.match_message(w, x, _decode_blob)
                        for w, x in zip(want, msgs[:-1])):
                    self.fail('C17/bind-sync/sync-elements-differ', None,
                              expected_elements=mc.plain(want), got=g.plain())
                continue
            recs, meta = e[2], e[3]
            n = sum(len(self.msgs_of(r)) for r in recs)
            if n == 0:
                if cur < len(P) and isinstance(P[cur][0], osc.Bundle) \
                        and not P[cur][0].elements \
                        and tuple(P[cur][1] or ()) == self.targets[s]:
                    cur += 1            # an empty bundle says nothing: tolerated
                continue
            if cur >= len(P):
                structure('grouping-differs-from-outermost-blocks', at=cur)
            g, t = P[cur]
            cur += 1
            pseudo = recs[0]
            if t is None or tuple(t) != self.targets[s]:
                structure('bundles-of-two-servers-in-unexpected-order', at=cur - 1)
            J.check_target(pseudo, t)
            if not isinstance(g, osc.Bundle):
                if n == 1:
                    self.fail('C17/bind/block-sent-as-plain-message', pseudo,
                              got=g.plain())
                structure('grouping-differs-from-outermost-blocks', at=cur - 1)
            if any(not isinstance(x, osc.Msg) for x in g.elements):
                self.fail('C17/bind/nested-bundle-in-block-bundle', pseudo,
                          got=_clip(g.plain()))
            if len(g.elements) != n:
                structure('grouping-differs-from-outermost-blocks', at=cur - 1,
                          expected_elements=n, got_elements=len(g.elements),
                          sent_at=meta['how'])
            self.count('nested_bundles_compared')
            if meta['drops']:
                self.count('nested_bundles_sent_after_dropping_a_failed_inner_block')
            pos = 0
            for rec in recs:
                wm = self.msgs_of(rec)
                seg = g.elements[pos:pos + len(wm)]
                pos += len(wm)
                if rec['expect'] is None:
                    continue
                J.match_sequence(rec, wm, seg, False, got=[_clip(g.plain())])
                for mm in seg:
                    J.check_message(rec, mm)
        if cur != len(P):
            structure('packets-not-attributable-to-an-operation', at=cur)
        for ev in nc.log:
            if ev[0] == 'op':
                self.judges[ev[1]].check_ledger(ev[2])
                self.count('ops_compared')
        self.count('nested_cases_checked')
