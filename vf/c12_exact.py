"""Exact oracle for the quantisation / meter part of C12 (does NOT import sc3).

The statement's 'never before the reference beat' and 'the earliest such
beat' are properties of the returned float with respect to the EXACT grid:
every float is a rational number, so the reference beat, the meter reference
(base_bar_beat, base_bar, beats_per_bar), quant and phase are taken as
fractions.Fraction of the very floats the clock was given / publishes, and the
grid points

    G(k) = base_bar_beat + phase + k * quant                     (k integer)
    L(K) = base_bar_beat + (K - base_bar) * beats_per_bar        (bar lines)

are exact rationals.  The ideal answer is G(k*), k* = ceil((ref - G(0)) /
quant).  The library evaluates the same expressions in IEEE doubles; it
documents no tolerance, so the only slack granted is the evaluation noise of
those few operations, `ULPS` units in the last place of the magnitudes that
enter the expression (worst-case analysis of next_time_on_grid / next_bar /
beats2bars / bars2beats gives < 2.5 such units; ULPS = 8):

    noise = ULPS * 2**-52 * (|ref| + |base_bar_beat| + quant + |result|
                             [+ beats_per_bar * (1 + |base_bar|) for bars])
            + 1e-300   (underflow next to zero)

An answer R is accepted iff there is an integer k with
    |R - G(k)| <= noise               (it is a grid point),
    G(k) >= ref - noise               (not before the reference beat),
    G(k - 1) < ref + noise            (the one before IS before it: earliest).
When nothing can be rounded at all - whole-number arguments for
next_time_on_grid, a power-of-two quant / beats_per_bar with all other numbers
short dyadic fractions (the fresh 4/4 clock with beats like 8.0, 2.5, 0.125)
- every operation of the library's expression is exact and noise = 0: a beat
ON a line gets that very line, exactly.
So only when the reference lies within `noise` of a grid line may either
neighbouring answer come back; a reference 1e-12 ... 1e-6 beats AFTER a line
must get the NEXT line, one as far BEFORE a line must get that line.  (The
tolerance oracle of vf/c12_model.py, 1e-9 relative + 1e-9 absolute, cannot
tell these apart: it is the right one for beats that went through the
tempo map of a long history, not for the grid arithmetic itself.)
"""

import math
from fractions import Fraction as Fr

EPS = Fr(1, 2 ** 52)
ULPS = 8


def num(*xs):
    return all(isinstance(x, (int, float)) and not isinstance(x, bool)
               and x == x and abs(x) != float('inf') for x in xs)


TINY = Fr(1, 10 ** 300)     # gradual underflow next to zero (denormals)


def noise(*mags):
    return ULPS * EPS * sum(abs(Fr(m)) for m in mags) + TINY


def _dy(x, frac_bits, mag_bits):
    """x is a multiple of 2**-frac_bits and |x| < 2**mag_bits."""
    if isinstance(x, int):
        return abs(x) < 2 ** mag_bits
    m = x * 2.0 ** frac_bits
    return abs(x) < 2.0 ** mag_bits and m == math.floor(m)


def _pow2(q, lo, hi):
    if not q > 0:
        return False
    m, e = math.frexp(float(q))
    return m == 0.5 and lo <= e - 1 <= hi


def no_rounding_grid(q, p, ref, bbb):
    """Every operation of (ceil((ref - bbb - p') / q) * q + bbb + p') is
    exact in doubles: whole numbers below 2**31 (a quotient of such numbers
    that is not whole is at least 2**-31 away from a whole number, the
    division's rounding is 2**-22 of that), or q a power of two and the rest
    multiples of 2**-20 below 2**28 (at most 53 significant bits anywhere)."""
    vals = (q, p, ref, bbb)
    if all(_dy(v, 0, 31) for v in vals) and q >= 1:
        return True
    return _pow2(q, -10, 10) and all(_dy(v, 20, 28) for v in (p, ref, bbb))


def no_rounding_bar(beat, bbb, bpb, base_bar):
    """Same for (beat - bbb) * (1 / bpb) + base_bar and back."""
    return _pow2(bpb, -4, 6) and _dy(beat, 10, 20) and _dy(bbb, 10, 20) \
        and _dy(base_bar, 0, 20)


def _side(off, nz):
    """Where the reference lies with respect to its nearest line."""
    a = abs(off)
    if off == 0:
        return 'on_line'
    if a <= nz:
        return 'within_noise_of_line'
    if a <= Fr(1, 10 ** 6):
        return 'just_after_line' if off > 0 else 'just_before_line'
    return 'away_from_lines'


def _judge(R, r, origin, Q, nz):
    """R: answer, r: reference, lines origin + k * Q (all Fractions, Q > 0).
    -> dict(ok, why, text, side, off, k, kstar)."""
    x = (r - origin) / Q
    kstar = math.ceil(x)
    kn = round(x)
    off = r - (origin + kn * Q)
    k = round((R - origin) / Q)
    G = origin + k * Q
    d = abs(R - G)
    info = dict(ok=True, why=None, text=None, side=_side(off, nz),
                no_rounding=(nz == 0),
                ref_minus_nearest_line=float(off), noise=float(nz),
                k=k, kstar=kstar, ideal=float(origin + kstar * Q))
    if d <= nz and G >= r - nz and G - Q < r + nz:
        return info
    V = G if d <= nz else R
    if V < r - nz:
        why = 'before-reference'
        text = (f'answer {float(R)!r} is {float(r - V):.3e} beats BEFORE the '
                f'reference {float(r)!r}')
    elif V - Q >= r + nz:
        why = 'not-earliest'
        text = (f'answer {float(R)!r}: the line one quantum earlier, '
                f'{float(V - Q)!r}, is not before the reference {float(r)!r}')
    else:
        why = 'off-grid'
        text = (f'answer {float(R)!r} is {float(d):.3e} beats away from the '
                f'nearest line {float(G)!r}')
    info.update(ok=False, why=why, text=text + f' (exact answer '
                f'{info["ideal"]!r}, reference {float(off):.3e} beats from its '
                f'nearest line, float noise {float(nz):.3e})')
    return info


def grid_judge(result, q, p, ref, bbb, extra=0):
    """next_time_on_grid(q, p, ref) -> result with meter reference bbb."""
    if not num(result):
        return dict(ok=False, why='not-a-number', text=f'result {result!r}',
                    side='away_from_lines')
    R, Q, P, r, B = Fr(result), Fr(q), Fr(p), Fr(ref), Fr(bbb)
    nz = noise(r, B, Q, R) + Fr(extra)
    if not extra and no_rounding_grid(q, p, ref, bbb):
        nz = Fr(0)
    if Q == 0:
        want = r + P
        if abs(R - want) <= nz:
            return dict(ok=True, why=None, text=None, side='quant_zero')
        return dict(ok=False, why='quant-zero', side='quant_zero',
                    text=f'{result!r} != reference + phase = {float(want)!r}')
    return _judge(R, r, B + P, Q, nz)


def bar_noise(beat, bbb, bpb, base_bar, result=0):
    return noise(beat, bbb, bpb, Fr(bpb) * Fr(base_bar), result)


def next_bar_judge(result, beat, bbb, bpb, base_bar, extra=0):
    """next_bar(beat) -> result; bar lines L(K), K integer."""
    if not num(result):
        return dict(ok=False, why='not-a-number', text=f'result {result!r}',
                    side='away_from_lines')
    R, r, B, Q = Fr(result), Fr(beat), Fr(bbb), Fr(bpb)
    nz = bar_noise(r, B, Q, base_bar, R) + Fr(extra)
    if not extra and no_rounding_bar(beat, bbb, bpb, base_bar):
        nz = Fr(0)
    return _judge(R, r, B - Fr(base_bar) * Q, Q, nz)


def _bar_candidates(b, bbb, bpb, base_bar, nz):
    """Bar numbers K (integers) whose bar [L(K), L(K+1)) contains the beat b,
    give or take the noise: -> {K: L(K)}."""
    r, B, Q, BB = Fr(b), Fr(bbb), Fr(bpb), Fr(base_bar)
    kstar = math.floor((r - B) / Q + BB)
    out = {}
    for K in (kstar - 1, kstar, kstar + 1):
        lo = B + (K - BB) * Q
        if lo <= r + nz and r - nz < lo + Q:
            out[K] = lo
    return out


def bar_judge(bar, bib, b, bbb, bpb, base_bar):
    """bar() and beat_in_bar() at the current beat b -> None | (why, text)."""
    nz = bar_noise(b, bbb, bpb, base_bar)
    if no_rounding_bar(b, bbb, bpb, base_bar):
        nz = Fr(0)
    if not num(bar) or bar != math.floor(bar):
        return 'bar-not-whole', f'bar() = {bar!r}'
    cands = _bar_candidates(b, bbb, bpb, base_bar, nz)
    if int(bar) not in cands:
        return 'bar', (f'bar() = {bar!r}, but the beat {b!r} lies in bar '
                       f'{sorted(cands)} (exact, noise {float(nz):.3e})')
    if bib is None:
        return None
    if not num(bib):
        return 'beat-in-bar', f'beat_in_bar() = {bib!r}'
    r, X = Fr(b), Fr(bib)
    if not any(abs(X - (r - lo)) <= nz for lo in cands.values()):
        return 'beat-in-bar', (
            f'beat_in_bar() = {bib!r} at beat {b!r}; bar starts '
            f'{[float(v) for v in cands.values()]} (noise {float(nz):.3e})')
    return None


def beats2bars_judge(result, beat, bbb, bpb, base_bar):
    if not num(result):
        return 'beats2bars', f'result {result!r}'
    r, B, Q, BB = Fr(beat), Fr(bbb), Fr(bpb), Fr(base_bar)
    want = (r - B) / Q + BB
    nz = bar_noise(r, B, Q, BB)
    if no_rounding_bar(beat, bbb, bpb, base_bar):
        nz = Fr(0)
    if abs(Fr(result) - want) * Q > nz:
        return 'beats2bars', (f'beats2bars({beat!r}) = {result!r}, exact '
                              f'{float(want)!r} (noise {float(nz):.3e} beats)')
    return None


def bars2beats_judge(result, bars, bbb, bpb, base_bar):
    if not num(result):
        return 'bars2beats', f'result {result!r}'
    y, B, Q, BB = Fr(bars), Fr(bbb), Fr(bpb), Fr(base_bar)
    want = (y - BB) * Q + B
    nz = noise(result, B, Q * y, Q * BB)
    if _pow2(bpb, -4, 6) and _dy(bars, 16, 25) and _dy(bbb, 10, 20) \
            and _dy(base_bar, 0, 20):
        nz = Fr(0)
    if abs(Fr(result) - want) > nz:
        return 'bars2beats', (f'bars2beats({bars!r}) = {result!r}, exact '
                              f'{float(want)!r} (noise {float(nz):.3e} beats)')
    return None
