"""C07 real-time shard: routines on SystemClock / TempoClock / AppClock send
messages and (nested) bundles while wake-up jitter is injected; datagrams are
captured at the `_send` attribute of the OscUdpInterface instance.

Every decision about a routine's send is an integer equality between the
timetag decoded by vf/osc.py and int((L + t) * 2**32) + offset, where t is
`clock.seconds` read inside the routine right before the send and offset is
recomputed from main._init_time.  Physical time is used only (a) for sends
made outside routines, as the closed interval [call, return], and (b) as
evidence that jitter was present, and (c) for routines on AppClock, whose
scheduled time is by design (physical present of the scheduling call + delta):
the independent expectation there is the interval between two readings of
main.elapsed_time() around that call (see run_round, 'routines on AppClock
with an independent expectation').
"""

import itertools
import random
import sys
import threading
import time

NTP_1970 = 2208988800
TWO32 = 2 ** 32


def run_rt(spec, acc):
    from sc3.base.main import main
    from sc3.base.netaddr import NetAddr, BundleNetAddr
    from sc3.base.clock import SystemClock, TempoClock, AppClock
    from sc3.base.stream import Routine
    from sc3.base.responders import OscFunc
    from vf import osc, c06_model as M, c07_gen as G
    from vf.common import iter_cases, case_rng, h64, tb_sites

    assert osc.selftest()
    iface = main._osc_interface
    orig_send = iface._send                 # bound method of the class
    loop_target = ('127.0.0.1', iface.port)
    addr = NetAddr(*loop_target)
    off = int((main._init_time + NTP_1970) * TWO32)
    tls = threading.local()
    stray = []
    forward = [False]
    fwd_errors = [0]

    def hook(msg, target):
        raw = bytes(msg.dgram)
        cap = getattr(tls, 'cap', None)
        (cap if cap is not None else stray).append(raw)
        if target in bs_targets:
            # play scsynth for the bind+sync servers: answer /sync with
            # /synced through the interface's own request handler
            try:
                d = osc.decode(raw)
                last = d.elements[-1] if isinstance(d, osc.Bundle) and \
                    d.elements else None
                if isinstance(last, osc.Msg) and last.addr == '/sync':
                    iface._handle_request(
                        osc.enc_msg('/synced', last.args[0]), target)
            except Exception:
                pass        # the datagram itself is judged offline
        if forward[0]:
            try:
                orig_send(msg, loop_target)
            except OSError:
                fwd_errors[0] += 1

    bs_targets = {('127.0.0.1', 57210 + j) for j in range(3)}
    iface._send = hook

    incoming = []

    def on_msg(msg, tm, *_):
        incoming.append((msg[1], msg[2], tm, main.elapsed_time()))

    resp = OscFunc(on_msg, '/c7')

    # ---- jitter ---------------------------------------------------------
    sys.setswitchinterval(1e-6)
    stop_burn = [False]

    def burn():
        x = 0
        while not stop_burn[0]:
            x += 1
    burners = [threading.Thread(target=burn, daemon=True)
               for _ in range(int(spec['shard'].get('burners', 3)))]
    for b in burners:
        b.start()

    # Server objects (never booted) for the Server.bind() path: one for the
    # routines (they run one at a time under the main lock), one for the
    # main thread
    from sc3.synth.server import Server
    # (two servers cannot share an address; the recorder ignores the target)
    srv_r = Server('c07-routines', NetAddr('127.0.0.1', 57201))
    srv_m = Server('c07-main', NetAddr('127.0.0.1', 57202))
    srv_bs = [Server(f'c07-bindsync{j}', NetAddr('127.0.0.1', 57210 + j))
              for j in range(3)]
    BIND_LATS = [0, 0, 0.0, 0.0, 0.2, 0.05, None, -1, -0.0]

    def do_send(kind, lst, srv=srv_r):
        if kind == 'msg':
            addr.send_msg(*lst)
        elif kind == 'bind':
            # messages collected by a `with server.bind():` block leave as
            # one bundle stamped with the server's latency
            srv.latency = lst[0]
            with srv.bind():
                for m in lst[1:]:
                    srv.addr.send_msg(*m)
        elif kind == 'clump/clumped':
            addr.send_clumped_bundles(lst[0], *lst[1:])
        elif kind == 'clump/bind':
            srv.latency = lst[0]
            with srv.bind():
                for m in lst[1:]:
                    srv.addr.send_msg(*m)
        elif kind == 'clump/bind-addr':
            with BundleNetAddr(addr) as b:
                for m in lst[1:]:
                    b.send_msg(*m)
        else:
            addr.send_bundle(lst[0], *lst[1:])

    def gen(rng, sid, **kw):
        """G.gen_send, or (a quarter of the sends) a server.bind() block:
        ('bind', [server latency, msg, ...]) - judged as that bundle, or
        (2%) a set of messages around / above the size of one datagram sent
        through the clumping paths: ('clump/<path>', [latency, msg, ...]) -
        judged by check_clump_send."""
        r = rng.random()
        if r < 0.02:
            path, lst, _ = G.gen_clump_send(
                rng, sid, rng.choice(['small', 'straddle', 'big']))
            return ('clump/' + path, lst)
        if r >= 0.27:
            return G.gen_send(rng, sid, **kw)
        msgs = []
        for n in range(rng.randint(1, 3)):
            m = G.gen_send(rng, sid, p_bundle=0.0)[1]
            m[2] = 100 + n          # distinct from the ids inside blobs
            msgs.append(m)
        return ('bind', [rng.choice(BIND_LATS)] + msgs)

    def exc_key(e):
        s = tb_sites(e)
        return f'{type(e).__name__}@{s[-1][1] if s else "outside-sc3"}'

    # ---- checking -------------------------------------------------------
    def tt_walk(dec, lst, kind):
        """[(where, latency, decoded timetag)] for every bundle of a send."""
        out = []

        def wmsg(d, e):
            for a, da in zip(e[1:], d.args):
                if isinstance(a, list) and a:
                    sub = osc.decode(da)
                    if isinstance(a[0], str):
                        wmsg(sub, a)
                    else:
                        wb(sub, a, 'completion-bundle')

        def wb(d, b, where):
            out.append((where, b[0], d.timetag))
            for dd, e in zip(d.elements, b[1:]):
                if isinstance(e[0], str):
                    wmsg(dd, e)
                else:
                    wb(dd, e, 'nested-bundle')
        if kind == 'msg':
            wmsg(dec, lst)
        else:
            wb(dec, lst, 'server-bind' if kind == 'bind' else 'top-level')
        return out

    def content_check(i, sid, kind, pristine, cap, exc, ctx):
        """Shared part: refusal bookkeeping, one datagram, conformance,
        content and 'immediately'.  -> decoded packet or None."""
        must = None
        try:
            exp = (M.expect_msg if kind == 'msg' else M.expect_bundle)(
                pristine, Mttf_unknown)
        except M.MustRefuse as e:
            must, exp = e.reason, None
        if exc is not None:
            if must:
                acc.count(f'rt_refused_as_required/{must}')
            else:
                acc.count(f'rt_refused_allowed/{exc_key(exc)}')
            if cap:
                acc.violation('C07/rt/datagram-handed-to-send-although-the-'
                              'call-raised',
                              {'case': i, 'send': M.srepr(pristine),
                               'context': ctx, 'exception': repr(exc)[:200]})
            return None
        w = {'case': i, 'send': M.srepr(pristine), 'context': ctx}
        if len(cap) != 1:
            acc.violation(f'C07/rt/send-handed-{len(cap)}-datagrams', w)
            return None
        if must:
            acc.violation(f'C07/rt/accepted/{must}',
                          dict(w, dgram=cap[0][:200]))
            return None
        try:
            dec = osc.decode(cap[0])
        except osc.OscError as e:
            acc.violation(f'C07/rt/nonconformant/{M._slug(str(e))}',
                          dict(w, dgram=cap[0][:200]))
            return None
        mism = set(M.compare(dec, exp))
        if mism:
            for s in sorted(mism):
                if s.endswith('timetag'):
                    acc.violation('C07/rt/latency-none-or-negative-not-'
                                  'immediately', dict(w, decoded=repr(dec)[:400]))
                else:
                    acc.violation(f'C07/rt/content-differs/{M.mechanism(s)}',
                                  dict(w, decoded=repr(dec)[:400]))
            return None
        # a bundle with a latency >= 0 that leaves as IMMEDIATELY: one
        # mechanism, reported once per send (the other monitors would only
        # repeat it as 'differs' / 'earlier' / 'callback time')
        for where, L, got in tt_walk(dec, pristine, kind):
            if L is not None and L >= 0 and got == 1:
                acc.violation(f'C07/rt/timed-bundle-stamped-immediately/{where}',
                              dict(w, latency=L, dgram=cap[0][:120]))
                stamped_imm.add(sid)
                return None
        return dec

    stamped_imm = set()
    abounds = {}        # sid -> (lo, hi, 'first-step' | 'later-step')

    def Mttf_unknown(L):
        return 1 if (L is None or L < 0) else None

    def check_clump_send(i, kind, pristine, cap, exc, ctx, t, p0, p1):
        """A set of messages sent through send_clumped_bundles / a bind()
        block: 1..n datagrams, every message exactly once and in order; one
        datagram at exactly (send instant + latency) when the set fits, else
        non-decreasing timetags within [instant + latency, + (n + 1) ns]
        ('one nanosecond later each').  Send instant: the routine's logical
        time t, or [p0, p1] outside routines."""
        path = kind.split('/')[1]
        who = 'main-thread' if t is None else 'routine'
        L = pristine[0]
        size = G.bundle_size(pristine[1:])
        w = {'case': i, 'path': path, 'context': ctx, 'latency': L,
             'logical_time': t, 'call_time': p0, 'return_time': p1,
             'elements': len(pristine) - 1, 'encoded_size': size,
             'datagrams': len(cap)}
        if exc is not None:
            acc.violation(f'C07/rt/clumped-send/raises/{path}/{exc_key(exc)}',
                          dict(w, exception=repr(exc)[:200]))
            return
        want, got, tags = [], [], []

        def flat(b, out, dec):
            for e in (b.elements if dec else b[1:]):
                if dec:
                    if isinstance(e, osc.Msg):
                        out.append((e.addr, e.args[0], e.args[1]))
                    else:
                        flat(e, out, True)
                elif isinstance(e[0], str):
                    out.append(tuple(e[:3]))
                else:
                    flat(e, out, False)
        flat(pristine, want, False)
        try:
            for raw in cap:
                d = osc.decode(raw)
                if not isinstance(d, osc.Bundle):
                    raise osc.OscError('datagram is not a bundle')
                if len(raw) > G.MAX_DGRAM:
                    raise osc.OscError('datagram larger than 65504 bytes')
                tags.append(d.timetag)
                flat(d, got, True)
        except Exception as e:
            acc.violation('C07/rt/clumped-send/nonconformant-datagram',
                          dict(w, error=str(e)[:200]))
            return
        if got != want:
            acc.violation('C07/rt/clumped-send/messages-not-sent-exactly-once-'
                          f'in-order/{path}', dict(w, sent=len(got),
                                                   wanted=len(want)))
            return
        n = len(cap)
        fits = size <= G.MAX_DGRAM
        acc.count(f'rt_clump_sends_checked/{who}')
        acc.count('rt_clump_sends_checked/'
                  + ('one-datagram' if fits else 'oversized'))
        if L is None or L < 0:
            acc.count('rt_immediately_compared', n)
            if any(x != 1 for x in tags):
                acc.violation('C07/rt/latency-none-or-negative-not-immediately',
                              dict(w, timetags=tags[:6]))
            return
        if t is not None:
            lo = int((L + t) * TWO32) + off
            hi = lo if fits else int((L + t + (n + 1) * 1e-9) * TWO32) + off + 1
        else:
            lo = int((L + p0) * TWO32) + off
            hi = int((L + p1 + (0 if fits else (n + 1) * 1e-9)) * TWO32) + off + 1
        acc.count('rt_clump_timetags_compared', n)
        if (fits and n != 1) or not all(lo <= x <= hi for x in tags) or \
                any(a > b for a, b in zip(tags, tags[1:])):
            acc.violation(
                f'C07/rt/clumped-send/timetag-differs/{who}/'
                + ('one-datagram' if fits else 'oversized'),
                dict(w, expected_timetag_between=[lo, hi], timetags=tags[:6],
                     seconds_off=[(x - lo) / TWO32 for x in tags[:6]]))

    def check_routine_send(i, rec, sends):
        sid, cname, t, p0, p1, cap, exc, t_ind, _ = rec
        kind, pristine = sends[sid]
        acc.count('rt_routine_sends')
        acc.count(f'rt_routine_sends/{cname}')
        late = p0 - t
        acc.maxi('max_rt_lateness_us', int(late * 1e6))
        if late > 1e-3:
            acc.count('rt_sends_late_over_1ms')
        if kind.startswith('clump/'):
            check_clump_send(i, kind, pristine, cap, exc,
                             f'routine on {cname}', t, p0, p1)
            acc.case(h64((cname, kind, G.bundle_size(pristine[1:]),
                          pristine[0])), nontrivial=late > 1e-4)
            return
        dec = content_check(i, sid, kind, pristine, cap, exc,
                            f'routine on {cname}')
        nb, bb = G.has_nested(kind, pristine)
        if dec is None:
            acc.case(h64((cname, M.srepr(pristine))), nontrivial=False)
            return
        ncomp = 0
        for where, L, got in tt_walk(dec, pristine, kind):
            if L is None or L < 0:
                acc.count('rt_immediately_compared')
                continue
            exp = int((L + t) * TWO32) + off
            ncomp += 1
            if where == 'server-bind' and L == 0:
                acc.count('rt_server_bind_zero_latency_compared')
            acc.count('rt_timetags_compared')
            acc.count(f'rt_timetags_compared/{where}')
            lo = int((L + p0) * TWO32) + off
            hi = int((L + p1) * TWO32) + off
            if not lo <= exp <= hi:
                acc.count('rt_timetags_distinguishing_logical_from_physical')
            if got == exp:
                continue
            if lo <= got <= hi:
                cls = 'stamped-with-physical-send-time'
            elif L and got == int(t * TWO32) + off:
                cls = 'latency-not-added'
            elif got == int(L * TWO32) + off or got == int(L * TWO32):
                cls = 'send-instant-not-added'
            elif got - exp == 0 - off or abs(got - exp) == off:
                cls = 'epoch-offset'
            else:
                cls = 'other'
            acc.violation(
                f'C07/rt-routine/timetag-differs/{where}/{cls}',
                {'case': i, 'clock': cname, 'send': M.srepr(pristine),
                 'latency': L, 'logical_time': t, 'call_time': p0,
                 'return_time': p1, 'expected_timetag': exp,
                 'decoded_timetag': got,
                 'difference_seconds': (got - exp) / TWO32})
        if t_ind is not None:
            # independent expectation: exact on SystemClock (the scheduled
            # time is the float handed to sched_abs plus the same float
            # additions), 1e-9 s = 5 timetag units through a TempoClock's
            # beats -> seconds map
            tol = 0 if cname == 'SystemClock' else 5
            for where, L, got in tt_walk(dec, pristine, kind):
                if L is None or L < 0:
                    continue
                exp = int((L + t_ind) * TWO32) + off
                acc.count('rt_independent_timetags_compared')
                acc.count(f'rt_independent_timetags_compared/{cname}')
                if abs(got - exp) > tol:
                    acc.violation(
                        'C07/rt/timetag-differs-from-independent-expectation/'
                        + cname,
                        {'case': i, 'clock': cname, 'send': M.srepr(pristine),
                         'where': where, 'latency': L,
                         'expected_logical_time': t_ind,
                         'logical_time_reported_by_clock': t,
                         'physical_call_time': p0,
                         'expected_timetag': exp, 'decoded_timetag': got,
                         'difference_seconds': (got - exp) / TWO32})
                    break
        ab = abounds.get(sid)
        if ab is not None:
            # AppClock keeps no exact logical time (every (re)scheduling is
            # relative to the physical present of the call), so the
            # independent expectation is an interval: the routine's wake-up
            # time lies in [present before + delta, present after + delta] of
            # the call that scheduled it.  float addition and int() are
            # monotone, so the bounds are exact
            lo_t, hi_t, step = ab
            for where, L, got in tt_walk(dec, pristine, kind):
                if L is None or L < 0:
                    continue
                lo = int((L + lo_t) * TWO32) + off
                hi = int((L + hi_t) * TWO32) + off
                acc.count('rt_independent_timetags_compared')
                acc.count('rt_independent_timetags_compared/AppClock')
                acc.count(f'rt_independent_timetags_compared/AppClock/{step}')
                if hi_t - lo_t < 0.002:
                    acc.count('rt_independent_timetags_compared/AppClock/'
                              'expectation-narrower-than-2ms')
                if lo <= got <= hi:
                    continue
                acc.violation(
                    'C07/rt/timetag-differs-from-independent-expectation/'
                    'AppClock',
                    {'case': i, 'clock': cname, 'send': M.srepr(pristine),
                     'where': where, 'latency': L, 'step': step,
                     'expected_logical_time_between': [lo_t, hi_t],
                     'logical_time_reported_by_clock': t,
                     'physical_call_time': p0,
                     'expected_timetag_between': [lo, hi],
                     'decoded_timetag': got,
                     'seconds_outside': ((lo - got) if got < lo
                                         else (got - hi)) / TWO32,
                     'side': 'earlier' if got < lo else 'later'})
                break
        acc.case(h64((cname, M.srepr(pristine))),
                 nontrivial=ncomp > 0 and late > 1e-4)
        if acc.want_sample() and ncomp > 1 and late > 1e-3:
            acc.sample({'case': i, 'clock': cname, 'send': M.srepr(pristine),
                        'logical_time': t, 'physical_call_time': p0,
                        'lateness_ms': round(late * 1e3, 3),
                        'dgram': cap[0]})

    def check_main_send(i, rec, sends):
        sid, mode, p0, p1, cap, exc = rec
        kind, pristine = sends[sid]
        acc.count(f'rt_main_thread_sends/{mode}')
        if p1 < p0:
            acc.count('rt_host_clock_stepped_back')
            return
        if kind.startswith('clump/'):
            check_clump_send(i, kind, pristine, cap, exc,
                             f'main thread ({mode})', None, p0, p1)
            return
        dec = content_check(i, sid, kind, pristine, cap, exc,
                            f'main thread ({mode})')
        if dec is None:
            return
        inst = []
        for where, L, got in tt_walk(dec, pristine, kind):
            if L is None or L < 0:
                continue
            lo = int((L + p0) * TWO32) + off
            hi = int((L + p1) * TWO32) + off
            acc.count('rt_main_thread_timetags_compared')
            inst.append((got - off) / TWO32 - L)
            if lo <= got <= hi:
                continue
            side = 'earlier' if got < lo else 'later'
            acc.violation(
                f'C07/rt-main-thread/timetag-outside-call-interval/{mode}/{side}',
                {'case': i, 'send': M.srepr(pristine), 'where': where,
                 'latency': L, 'call_time': p0, 'return_time': p1,
                 'decoded_time': (got - off) / TWO32 - L,
                 'seconds_outside': ((lo - got) if got < lo else (got - hi)) / TWO32})
        # same send instant for every bundle of one send: 2**-32 truncation
        # plus double rounding is < 1e-9 s, distinct instants differ by > 1e-7
        if len(inst) > 1 and max(inst) - min(inst) > 1e-9:
            acc.violation('C07/rt-main-thread/nested-bundles-stamped-from-'
                          'different-instants',
                          {'case': i, 'send': M.srepr(pristine),
                           'instants': inst})
        acc.case(h64(('main', M.srepr(pristine))), nontrivial=bool(inst))

    def check_bind_sync(i, rec):
        """One `with server.bind():  msgs; yield from server.sync(latency=Ls);
        msgs` block.  Every collected message must leave in a bundle stamped
        logical time + server.latency (before the sync: at the logical time
        of the block, after it: at the logical time the routine resumed,
        which is the same instant because the reply is handled at the
        routine's logical time); only /sync follows sync()'s own latency.
        Expected logical time is the independent one (sched_abs + deltas)."""
        cname, Lsrv, Ls, pre, post, t_ind, t_seen, t2_seen, caps, exc = rec
        w = {'case': i, 'clock': cname, 'server_latency': Lsrv,
             'sync_latency': Ls, 'expected_logical_time': t_ind,
             'logical_time_reported': [t_seen, t2_seen]}
        if exc is not None:
            acc.count(f'rt_bind_sync_raised/{exc_key(exc)}')
            return
        tol = 0 if cname == 'SystemClock' else 5

        def tag(L):
            return 1 if (L is None or L < 0) else int((L + t_ind) * TWO32) + off
        where = {}          # (sid, k) | 'sync' -> [(datagram index, timetag)]
        try:
            for j, raw in enumerate(caps):
                d = osc.decode(raw)
                if not isinstance(d, osc.Bundle):
                    raise osc.OscError('datagram is not a bundle')
                for e in d.elements:
                    key = 'sync' if e.addr == '/sync' else (e.args[0], e.args[1])
                    where.setdefault(key, []).append((j, d.timetag))
        except Exception as e:
            acc.violation(f'C07/rt/bind-sync/nonconformant-datagram',
                          dict(w, error=str(e)[:200]))
            return
        want = [(m[1], m[2]) for m in pre] + ['sync'] + [(m[1], m[2]) for m in post]
        if sorted(map(str, where)) != sorted(map(str, want)) or \
                any(len(v) != 1 for v in where.values()) or \
                [where[k][0][0] for k in want] != sorted(where[k][0][0] for k in want):
            acc.violation('C07/rt/bind-sync/messages-lost-duplicated-or-reordered',
                          dict(w, datagrams=len(caps),
                               found={str(k): v for k, v in where.items()}))
            return
        acc.count('rt_bind_sync_blocks_checked')
        for part, msgs in (('pre-sync', pre), ('post-sync', post)):
            for m in msgs:
                got = where[(m[1], m[2])][0][1]
                exp = tag(Lsrv)
                acc.count('rt_bind_sync_timetags_compared')
                if abs(got - exp) <= (tol if exp != 1 else 0):
                    continue
                if abs(got - tag(Ls)) <= (tol if tag(Ls) != 1 else 0):
                    cls = 'stamped-with-the-latency-argument-of-sync'
                elif got == 1:
                    cls = 'stamped-immediately'
                else:
                    cls = 'other'
                acc.violation(
                    'C07/rt/bind-sync/collected-messages-not-stamped-logical-'
                    f'time-plus-server-latency/{part}/{cls}',
                    dict(w, expected_timetag=exp, decoded_timetag=got,
                         datagrams=len(caps)))
                return
        got = where['sync'][0][1]
        acc.count('rt_bind_sync_timetags_compared')
        if abs(got - tag(Ls)) > (tol if tag(Ls) != 1 else 0):
            acc.violation('C07/rt/bind-sync/sync-message-timetag-differs',
                          dict(w, expected_timetag=tag(Ls), decoded_timetag=got))

    def check_incoming(i, sends, info):
        """info: sid -> (t | None, p0).  Callback time of a message of a
        timed bundle must be (t + L) within 2**-31 s (timetag truncation
        2**-32 + double rounding)."""
        for sid, k, tm, now in incoming:
            if sid not in sends or sid not in info or sid in stamped_imm:
                continue
            kind, pristine = sends[sid]
            if kind.startswith('clump/'):
                continue        # pieces are nanoseconds later: judged at _send
            t, p0 = info[sid]
            lat = dict(G.dispatched(kind, pristine)).get(k, 'absent')
            if lat == 'absent':
                acc.violation('C07/rt-incoming/message-inside-blob-dispatched',
                              {'case': i, 'send': M.srepr(pristine), 'k': k})
                continue
            if lat == 'nobundle' or lat is None or lat < 0:
                acc.count('rt_incoming_immediate')
                if not p0 - 1e-6 <= tm <= now + 1e-6:
                    acc.violation('C07/rt-incoming/immediate-message-time-not-'
                                  'reception-time',
                                  {'case': i, 'time': tm, 'sent_at': p0,
                                   'callback_at': now})
                continue
            if t is None:
                continue
            acc.count('rt_incoming_compared')
            if abs(tm - (t + lat)) > 2.0 ** -31:
                acc.violation('C07/rt-incoming/callback-time-differs',
                              {'case': i, 'send': M.srepr(pristine), 'k': k,
                               'callback_time': tm, 'expected': t + lat})

    # ---- rounds ---------------------------------------------------------
    def run_round(i):
        rng = case_rng(spec['seed'], 'C07', 'rt', i)
        rng2 = random.Random(rng.random())
        forward[0] = rng.random() < 0.5
        del incoming[:]
        sids = itertools.count((i % 20000) * 100000)     # stays below 2**31
        sends = {}
        records, mrecords, bs_records = [], [], []
        app_first = {}
        abounds.clear()
        tclocks = [(TempoClock(tp), tp) for tp in
                   [rng.choice([0.5, 1, 2, 3.7, 8])
                    for _ in range(rng.randint(1, 2))]]
        clocks = [('SystemClock', SystemClock, 1.0)] * 2 + \
                 [('AppClock', AppClock, 1.0)] + \
                 [('TempoClock', c, tp) for c, tp in tclocks] * 2
        events = []
        stuck = 0

        def make_body(cname, clock, steps, ev, texp=None, aid=None):
            def body():
                try:
                    for n, (sid, kind, lst, slp, delta) in enumerate(steps):
                        if slp:
                            time.sleep(slp)       # holds the main lock
                        t = clock.seconds
                        p0 = main.elapsed_time()
                        tls.cap = cap = []
                        exc = None
                        try:
                            do_send(kind, lst)
                        except Exception as e:
                            exc = e
                        p1 = main.elapsed_time()
                        tls.cap = None
                        records.append((sid, cname, t, p0, p1, cap, exc,
                                        texp[n] if texp else None,
                                        None if aid is None else
                                        (aid, n, steps[n - 1][4] if n else None)))
                        yield delta
                finally:
                    ev.set()
            return body

        def make_slow(sleeps, ev):
            def slow():
                try:
                    for s, d in sleeps:
                        time.sleep(s)             # holds the main lock
                        yield d
                finally:
                    ev.set()
            return slow

        try:
            for _ in range(rng.randint(3, 8)):
                cname, clock, tempo = rng.choice(clocks)
                steps = []
                for _ in range(rng.randint(3, 10)):
                    sid = next(sids)
                    kind, lst = gen(rng, sid)
                    sends[sid] = (kind, G.clone(lst))
                    steps.append((sid, kind, lst,
                                  rng.choice([0, 0, 0.0004, 0.002]),
                                  rng.choice([0, 0.001, 0.004, 0.012]) * tempo))
                ev = threading.Event()
                events.append(ev)
                Routine(make_body(cname, clock, steps, ev)).play(clock)
            for _ in range(rng.randint(1, 2)):
                sleeps = [(rng.uniform(0.0003, 0.003), rng.uniform(0.001, 0.004))
                          for _ in range(rng.randint(15, 50))]
                ev = threading.Event()
                events.append(ev)
                Routine(make_slow(sleeps, ev)).play(SystemClock)
            # ---- routines with an INDEPENDENT expectation of their logical
            # time: started with sched_abs at known times / beats, yielding
            # known deltas, so the n-th send happens at logical
            # start + sum(deltas) whatever the library reports.  Start times
            # are equal, close together and partly in the past; a slow task
            # and a plain thread holding the main lock make several of them
            # due in the same wake-up cycle of the clock thread.
            T0 = main.elapsed_time() + 0.04
            atempo = rng.choice([0.5, 1, 2, 3.7, 8])
            aclock = TempoClock(atempo, 0.0, T0)
            tclocks.append((aclock, atempo))
            offs = [-0.02, 0.0, 0.0, 0.004, 0.004, 0.009, 0.013, 0.02, 0.035]
            for kind_c in ['SystemClock'] * rng.randint(3, 6) + \
                    ['TempoClock'] * rng.randint(2, 4):
                start = rng.choice(offs)
                steps, texp = [], []
                if kind_c == 'SystemClock':
                    t_log = T0 + start            # what sched_abs is given
                else:
                    beat = start * atempo
                for n in range(rng.randint(2, 5)):
                    sid = next(sids)
                    kind, lst = gen(rng, sid, p_bundle=0.9)
                    sends[sid] = (kind, G.clone(lst))
                    dsec = rng.choice([0, 0.003, 0.003, 0.007, 0.02])
                    slp = rng.choice([0, 0, 0, 0.001, rng.uniform(0.02, 0.1)
                                      if n == 0 else 0.004])
                    if kind_c == 'SystemClock':
                        texp.append(t_log)
                        steps.append((sid, kind, lst, slp, dsec))
                        t_log = t_log + dsec      # SystemClock: one float add
                    else:
                        texp.append(T0 + beat / atempo)
                        steps.append((sid, kind, lst, slp, dsec * atempo))
                        beat = beat + dsec * atempo
                ev = threading.Event()
                events.append(ev)
                if kind_c == 'SystemClock':
                    SystemClock.sched_abs(texp[0], Routine(make_body(
                        kind_c, SystemClock, steps, ev, texp)))
                else:
                    aclock.sched_abs(start * atempo, Routine(make_body(
                        kind_c, aclock, steps, ev, texp)))

            # ---- routines on AppClock with an independent expectation.
            # They are due at DIFFERENT times around T0 (distances 4-55 ms);
            # the lockers and slow tasks below, or the scheduling thread
            # itself keeping the library lock, make the AppClock thread
            # late, so that ONE tick finds several of them expired: each
            # must still be woken at its own time.  Scheduled from this
            # thread (with and without the lock), or from a SystemClock
            # routine; `play` is sched(0)
            app_jobs = []
            for aid in range(rng.randint(3, 6)):
                steps = []
                for n in range(rng.randint(1, 4)):
                    sid = next(sids)
                    kind, lst = gen(rng, sid, p_bundle=0.9)
                    sends[sid] = (kind, G.clone(lst))
                    steps.append((sid, kind, lst,
                                  rng.choice([0, 0, 0, 0.001, 0.004]),
                                  rng.choice([0, 0.003, 0.007, 0.02, 0.02])))
                ev = threading.Event()
                events.append(ev)
                d0 = rng.choice([0, 0.04 + rng.choice(offs),
                                 0.04 + rng.choice(offs), 0.05, 0.12])
                app_jobs.append((aid, d0, Routine(make_body(
                    'AppClock', AppClock, steps, ev, None, aid))))

            def sched_app(jobs):
                for aid, d0, r in jobs:
                    c0 = main.elapsed_time()
                    if d0 == 0:
                        r.play(AppClock)
                    else:
                        AppClock.sched(d0, r)
                    app_first[aid] = (c0, main.elapsed_time(), d0)
            app_how = rng.choice(['unlocked', 'locked', 'locked-and-kept',
                                  'from-a-SystemClock-routine'])
            acc.count(f'rt_appclock_groups_scheduled/{app_how}')
            if app_how == 'unlocked':
                sched_app(app_jobs)
            elif app_how == 'from-a-SystemClock-routine':
                keep = rng.choice([0, 0.03, 0.07])

                def sched_task():
                    sched_app(app_jobs)
                    time.sleep(keep)              # keeps the lock
                    return
                    yield
                SystemClock.sched(0, Routine(sched_task))
            else:
                with main._main_lock:
                    sched_app(app_jobs)
                    if app_how == 'locked-and-kept':
                        time.sleep(rng.choice([0.03, 0.07, 0.13]))

            # ---- bind() blocks with a sync inside (own Server each, because
            # the block is suspended at the sync while other routines run)
            def make_bind_sync(cname, clock, srv, blocks, ev):
                def body():
                    try:
                        for Lsrv, Ls, pre, post, delta, t_ind in blocks:
                            cap = []
                            tls.cap = cap
                            t = clock.seconds
                            t2 = exc = None
                            try:
                                srv.latency = Lsrv
                                with srv.bind():
                                    for m in pre:
                                        srv.addr.send_msg(*m)
                                    yield from srv.sync(latency=Ls)
                                    tls.cap = cap
                                    t2 = clock.seconds
                                    for m in post:
                                        srv.addr.send_msg(*m)
                            except Exception as e:
                                exc = e
                            tls.cap = None
                            bs_records.append((cname, Lsrv, Ls, pre, post, t_ind,
                                               t, t2, cap, exc))
                            yield delta
                    finally:
                        ev.set()
                return body

            for j in range(rng.randint(1, 3)):
                kind_c = rng.choice(['SystemClock', 'SystemClock', 'TempoClock'])
                start = rng.choice(offs)
                t_log, beat = T0 + start, start * atempo
                blocks = []
                for _ in range(rng.randint(1, 2)):
                    sid = next(sids)
                    msgs = [['/c7', sid, k, rng.choice([1, 0.5, 'x', b'ab'])]
                            for k in range(rng.randint(1, 4))]
                    npre = rng.randint(1, len(msgs))
                    dsec = rng.choice([0.003, 0.007, 0.02])
                    t_ind = t_log if kind_c == 'SystemClock' else T0 + beat / atempo
                    blocks.append((rng.choice([0, 0.0, 0.2, 0.05, 0.2, None]),
                                   rng.choice([None, None, 0, 0.3, 0.1, -1]),
                                   msgs[:npre], msgs[npre:],
                                   dsec if kind_c == 'SystemClock' else dsec * atempo,
                                   t_ind))
                    t_log = t_log + dsec
                    beat = beat + dsec * atempo
                ev = threading.Event()
                events.append(ev)
                if kind_c == 'SystemClock':
                    SystemClock.sched_abs(T0 + start, Routine(make_bind_sync(
                        kind_c, SystemClock, srv_bs[j], blocks, ev)))
                else:
                    aclock.sched_abs(start * atempo, Routine(make_bind_sync(
                        kind_c, aclock, srv_bs[j], blocks, ev)))

            def locker(at, dur):
                while main.elapsed_time() < at:
                    time.sleep(0.0005)
                with main._main_lock:
                    time.sleep(dur)       # every clock thread is kept out
            for _ in range(rng.randint(1, 2)):
                threading.Thread(
                    target=locker, daemon=True,
                    args=(T0 + rng.choice([-0.004, 0.0, 0.01]),
                          rng.uniform(0.02, 0.06))).start()
            # sends from the main thread while the clocks run
            deadline = time.time() + 15
            n = 0
            while not all(e.is_set() for e in events) and time.time() < deadline:
                sid = next(sids)
                kind, lst = gen(rng2, sid, p_bundle=0.9)
                sends[sid] = (kind, G.clone(lst))
                mode = ('locked-while-clocks-run', 'unlocked-while-clocks-run')[n % 2]
                n += 1
                tls.cap = cap = []
                exc = None
                if mode.startswith('locked'):
                    with main._main_lock:
                        p0 = main.elapsed_time()
                        try:
                            do_send(kind, lst, srv_m)
                        except Exception as e:
                            exc = e
                        p1 = main.elapsed_time()
                else:
                    p0 = main.elapsed_time()
                    try:
                        do_send(kind, lst, srv_m)
                    except Exception as e:
                        exc = e
                    p1 = main.elapsed_time()
                tls.cap = None
                mrecords.append((sid, mode, p0, p1, cap, exc))
                time.sleep(0.0007)
            if i % 6 == 3:
                # a routine step that keeps the library lock for longer than any
                # plausible internal time-out (1.2-1.7 s: blocking i/o, a slow
                # computation) while the main thread sends: the send waits, its
                # bundle is stamped with the sender's present, not with the logical
                # time of the routine that happens to be running
                in_step = threading.Event()
                hold = rng.choice([1.2, 1.7])

                def long_step():
                    in_step.set()
                    time.sleep(hold)
                    return
                    yield
                SystemClock.sched(0.002, Routine(long_step))
                if in_step.wait(5.0):
                    sid = next(sids)
                    kind, lst = gen(rng2, sid, p_bundle=1.0)
                    sends[sid] = (kind, G.clone(lst))
                    tls.cap = cap = []
                    exc = None
                    p0 = main.elapsed_time()
                    try:
                        do_send(kind, lst, srv_m)
                    except Exception as e:
                        exc = e
                    p1 = main.elapsed_time()
                    tls.cap = None
                    mrecords.append((sid, 'unlocked-while-a-routine-holds-the-lock',
                                     p0, p1, cap, exc))
                    acc.count('rt_main_thread_sends_during_a_long_routine_step')
                    acc.maxi('max_main_thread_send_blocked_s', p1 - p0)
            stuck = sum(not e.is_set() for e in events)
            if stuck:
                acc.count('rt_routines_not_finished_in_time', stuck)
        finally:
            for c, _ in tclocks:
                try:
                    c.stop()
                except Exception:
                    pass
        if forward[0]:
            # let loop-back datagrams arrive and their dispatch tasks run
            for _ in range(40):
                n0 = len(incoming)
                time.sleep(0.05)
                if len(incoming) == n0:
                    break
        elif stuck:
            pass                    # something may still run: not quiet
        else:
            time.sleep(0.02)
            # quiet sends: nothing scheduled, no traffic
            for q_ in range(8):
                sid = next(sids)
                kind, lst = gen(rng2, sid, p_bundle=0.9)
                sends[sid] = (kind, G.clone(lst))
                tls.cap = cap = []
                exc = None
                if q_ % 2:
                    # the send is made by a routine that this thread steps by hand
                    # (`next()`, no clock): its time is the present of that call
                    from sc3.base.stream import Routine as _Routine

                    def mk_hand(kind, lst):     # (no parameters: a routine function
                        def hand():             # with parameters is given the input value)
                            do_send(kind, lst, srv_m)
                            yield 0
                        return hand
                    hr = _Routine(mk_hand(kind, lst))
                    time.sleep(0.003)
                    p0 = main.elapsed_time()
                    try:
                        hr.next()
                    except Exception as e:
                        exc = e
                    p1 = main.elapsed_time()
                    tls.cap = None
                    mrecords.append((sid, 'quiet-from-a-hand-stepped-routine', p0, p1, cap, exc))
                    continue
                p0 = main.elapsed_time()
                try:
                    do_send(kind, lst, srv_m)
                except Exception as e:
                    exc = e
                p1 = main.elapsed_time()
                tls.cap = None
                mrecords.append((sid, 'quiet', p0, p1, cap, exc))
        forward[0] = False
        # ---- offline checks ----
        info = {}
        records = list(records)
        # AppClock: expected wake-up interval of every step.  First step:
        # [c0 + d, c1 + d] around the sched call.  Later steps: the routine
        # yielded d after its previous step returned (p1) and the library
        # re-scheduled it at (present + d) before the AppClock thread
        # started the next wake-up it made (of any routine recorded here)
        app_recs = sorted((r for r in records if r[1] == 'AppClock'),
                          key=lambda r: r[3])
        by_step = {r[8][:2]: r for r in app_recs if r[8] is not None}
        judged = []
        for r in app_recs:
            if r[8] is None:
                continue
            aid, n, dprev = r[8]
            if n == 0:
                if aid not in app_first:
                    continue
                c0, c1, d0 = app_first[aid]
                lo_t, hi_t = c0 + d0, c1 + d0
            else:
                prev = by_step.get((aid, n - 1))
                if prev is None:
                    continue
                nxt = min(x[3] for x in app_recs if x[3] > prev[4] or x is r)
                lo_t, hi_t = prev[4] + dprev, nxt + dprev
            if hi_t < lo_t:
                acc.count('rt_host_clock_stepped_back')
                continue
            abounds[r[0]] = (lo_t, hi_t, 'first-step' if n == 0 else 'later-step')
            judged.append((r, lo_t, hi_t))
        # evidence that one late tick served wake-ups due at different times:
        # consecutive AppClock wake-ups whose expectation intervals are
        # disjoint and which were both already due when the first one began
        for (a, alo, ahi), (b, blo, bhi) in zip(judged, judged[1:]):
            if ahi < blo and bhi <= a[3]:
                acc.count('rt_appclock_wakeups_batched_with_other_times')
        for rec in records:
            info[rec[0]] = (rec[2], rec[3])
            check_routine_send(i, rec, sends)
        # evidence that ready tasks with different scheduled times were run
        # in one wake-up cycle: a wake-up on SystemClock whose scheduled time
        # had already passed when the previous SystemClock wake-up (of a
        # task scheduled for another time) started
        prev = None
        for rec in sorted((r for r in records if r[7] is not None
                           and r[1] == 'SystemClock'), key=lambda r: r[3]):
            if prev is not None and rec[7] != prev[7] and rec[7] <= prev[3]:
                acc.count('rt_independent_wakeups_batched_with_other_times')
            prev = rec
        for rec in mrecords:
            info[rec[0]] = (None, rec[2])
            check_main_send(i, rec, sends)
        check_incoming(i, sends, info)
        for rec in list(bs_records):
            check_bind_sync(i, rec)
        acc.count('rt_rounds')

    try:
        for i in iter_cases(spec):
            run_round(i)
    finally:
        stop_burn[0] = True
        resp.free()
    if stray:
        acc.count('rt_stray_datagrams', len(stray))
    if fwd_errors[0]:
        acc.count('rt_forward_errors', fwd_errors[0])
    if SystemClock._elapsed_osc_offset != off:
        acc.count('rt_library_offset_differs_from_recomputed')
