"""C07 - bundles are stamped with logical time plus latency; scores are ordered.

RT shards (vf/c07_rt.py): routines on SystemClock, TempoClocks and AppClock
send messages, bundles, nested bundles and completion bundles (inside blobs)
with latencies {None, <0, 0, 1e-9, ...} while tasks sleep holding the main
lock, burner threads spin and the switch interval is 1 us; datagrams are
captured at `_send` of the OscUdpInterface instance, decoded by vf/osc.py and
every timetag is compared as an integer with int((L + t) * 2**32) + offset,
t = clock.seconds read in the routine.  A second group of routines is started
with SystemClock.sched_abs / TempoClock.sched_abs at known times and yields
known deltas: their timetags are also compared with the INDEPENDENT
expectation int((L + start + sum(deltas)) * 2**32) + offset (exact on
SystemClock, 1e-9 s on TempoClock), with equal / past start times, a slow task
and a thread holding the main lock so that several tasks with different
scheduled times are due in one wake-up cycle.  A quarter of all sends (routines
and main thread) go through `with server.bind():` blocks of never-booted
Server objects with server.latency in {0, 0.0, -0.0, 0.2, 0.05, None, -1}: the
bundle sent on exit must carry logical time + latency (exactly 0 is NOT
immediately).  Absolutely scheduled routines also run bind() blocks with a
`yield from server.sync(latency=Ls)` inside (one Server each; the recorder at
_send plays scsynth and answers /synced): every collected message, before and
after the sync, must leave stamped logical time + server.latency, only /sync
itself follows Ls.  Sends from the main thread (quiet,
holding the main lock, and unlocked while clocks run) are checked against the
closed interval [call time, return time].  Half of the rounds forward the
datagrams to the library's own UDP port: OscFunc callbacks must receive
time == t + L (2**-31 s).
Routines on AppClock have an independent expectation too (round 9): AppClock
keeps no exact logical time - every (re)scheduling is relative to the physical
present of the call - so the expectation is the interval [present before the
call + delta, present after it + delta] around `AppClock.sched(delta, r)` /
`r.play(AppClock)` (called from the test thread with and without the library
lock, and from a SystemClock routine) and, for later steps, [return of the
previous step + delta, start of the next wake-up the AppClock thread made +
delta].  3-6 such routines per round are due at DIFFERENT times 4-55 ms apart
while a plain thread, a slow task or the scheduling thread itself keeps the
library lock for 20-130 ms, so that ONE late tick of the AppClock thread finds
several of them expired: every bundle must carry its OWN routine's scheduled
time plus latency (class: tasks of one clock that are due at different times
but served by one wake-up cycle; the self-consistency oracle cannot see a
batch that is given one common time, because clock.seconds shows the same
wrong value).

NRT shards (vf/c07_nrt.py): generated programs, main.process(tail) ->
.list / .raw compared with the program's send log (time, stable order, tail
marker, raw == concatenation of length-prefixed encodings of list).
An eighth of the programs (round 9) also send through the clumping paths:
`NetAddr.send_clumped_bundles`, `with server.bind():` (server.latency in
{0, 0.0, 0.05, 0.2, 1, None, -1, ...}; messages enter the block through
send_msg / send_bundle / send_clumped_bundles of server.addr) and
`with BundleNetAddr(addr):`, from routines at known times and from outside
routines, with sets of messages whose encoded size (own OSC 1.0 size model in
vf/c07_gen.py) is small, exactly 65504 bytes -8/-4/0/+4/+8, far above it
(66-140 kB in messages of 1-7 kB) or contains single messages larger than the
8 kB pieces; 6% of the blocks are left by an exception (nothing may be listed).
Oracle: every message of the send is listed exactly once and in send order;
a set that fits one datagram is ONE entry at exactly logical time + latency;
an oversized set is a sequence of entries at non-decreasing times within
[logical time + latency, + (pieces + 1) ns] (documented: 'one nanosecond later
each'; the piece boundaries are the library's choice); the entries then take
part in the order / tail marker / raw comparisons like every other bundle.
Class: sends that reach the score through another entry point than
send_msg / send_bundle, and sends that become several bundles.
The RT shards send such sets too (2% of all sends, routines and main thread):
1..n datagrams captured at _send, every message once and in order, one
datagram at exactly (send instant + latency) when the set fits, else
non-decreasing timetags within (n + 1) ns after it.
"""

from vf.common import split

LEVEL = 'exploration'
RULE = ("RT: rounds of 3-8 routines x 3-10 sends on SystemClock / AppClock / "
        "1-2 TempoClocks (tempo 0.5-8) plus lock-holding sleeper tasks and "
        "main-thread sends; a send is non-trivial when it carries at least one "
        "timed bundle and the routine woke more than 0.1 ms late.  NRT: "
        "programs of 1-4 routines (children to depth 2) x 1-7 steps on "
        "SystemClock / AppClock / TempoClocks, 0-3 sends outside routines, "
        "tail in {0,0.1,0.5,2,10}, bundle lists sent twice, an eighth with "
        "sends through send_clumped_bundles / bind() blocks around the "
        "65504-byte limit; a score is "
        "non-trivial when it has >= 2 sends and at least one tie in time; "
        "distinct = hash of the expected entries")
ASSUMPTIONS = [
    "vf/osc.py decodes timetags; offset recomputed as "
    "int((main._init_time + 2208988800) * 2**32)",
    "t is the value of clock.seconds read inside the routine immediately "
    "before the send (the routine's logical time as the library reports it; "
    "its correctness is C05's subject)",
    "the host clock (time.time) does not step backwards between the two "
    "readings around a main-thread send (such sends are skipped)",
    "'closes with the tail-time marker' is read literally: the marker is "
    "the last score entry; its time may be either (last wake-up + tail) or "
    "(latest bundle + tail): the statement does not say which",
    "refusals are never violations; the only documented ones seen are "
    "nested bundles earlier than their parent (NetAddr.send_bundle docstring)",
    "on the real UDP loop-back path only the time argument of delivered "
    "callbacks is judged: lost datagrams give no verdict, and the ORDER of "
    "callbacks is not judged there (the UDP thread schedules one task per "
    "message while reading the global current time thread, so order is not "
    "a function of the datagram); C06 judges order on OscPacket.messages "
    "and on _handle_request driven from a quiet main thread",
    "tolerances: 0 timetag units for routines on SystemClock/AppClock and "
    "for the self-consistency oracle on every clock; 5 units (1e-9 s) for "
    "the independent expectation through a TempoClock's beats->seconds map; "
    "2**-31 s for callback times (2**-32 timetag truncation + rounding); "
    "1e-9 s for 'same send instant' of main-thread sends",
    "routines that do not finish within 15 s of a round are not judged "
    "(bounded progress is C08's subject); only then is the quiet phase "
    "skipped",
    "AppClock: the wake-up time of a routine is (physical present of the "
    "scheduling call + delta), bracketed by two readings of "
    "main.elapsed_time() around the call (first step) or by the return of "
    "the previous step and the start of the next wake-up made by the "
    "AppClock thread (later steps); float addition and int() are monotone, "
    "so the timetag interval needs no tolerance; time.time() does not step "
    "back in between (such records are skipped)",
    "clumping: whether a set of messages is split is decided by its encoded "
    "size (own size model, verified against the reference encoder) against "
    "the documented 65504 bytes; where it is split is not judged; entries "
    "without elements (the library emits an empty piece in front of a "
    "message larger than 8 kB) are counted as observed_* and tolerated only "
    "when such a message was sent; an exception out of a clumping send of "
    "valid messages is a violation (the bundles are not in the score)",
    "OscScore.finish() called from inside a routine is reachable only via "
    "private attributes; 8% of the programs do it from a routine that runs "
    "after everything else (t = 1000 s) and are judged like the others",
]
MIN_COUNTERS = {
    'rt_main_thread_sends_during_a_long_routine_step': 2,
    'rt_timetags_compared': 400,
    'rt_timetags_compared/nested-bundle': 40,
    'rt_timetags_compared/completion-bundle': 20,
    'rt_timetags_compared/server-bind': 60,
    'rt_server_bind_zero_latency_compared': 30,
    'rt_bind_sync_blocks_checked': 30,
    'rt_bind_sync_timetags_compared': 100,
    'rt_timetags_distinguishing_logical_from_physical': 200,
    'rt_sends_late_over_1ms': 50,
    'rt_routine_sends/SystemClock': 50,
    'rt_routine_sends/TempoClock': 50,
    'rt_routine_sends/AppClock': 20,
    'rt_independent_timetags_compared/SystemClock': 100,
    'rt_independent_timetags_compared/TempoClock': 60,
    'rt_independent_wakeups_batched_with_other_times': 30,
    'rt_independent_timetags_compared/AppClock': 60,
    'rt_independent_timetags_compared/AppClock/first-step': 20,
    'rt_independent_timetags_compared/AppClock/later-step': 25,
    'rt_independent_timetags_compared/AppClock/expectation-narrower-than-2ms': 30,
    'rt_appclock_wakeups_batched_with_other_times': 20,
    'rt_clump_sends_checked/routine': 8,
    'rt_clump_sends_checked/oversized': 6,
    'rt_clump_timetags_compared': 30,
    'rt_main_thread_timetags_compared': 100,
    'rt_incoming_compared': 50,
    'nrt_scores': 200,
    'nrt_entries_compared': 1000,
    'nrt_raw_entries_compared': 1000,
    'nrt_tail_markers_checked': 200,
    'nrt_scores_with/ties': 50,
    'nrt_scores_with/nested': 50,
    'nrt_clump_sends/clumped': 40,
    'nrt_clump_sends/bind': 40,
    'nrt_clump_sends/bind-addr': 15,
    'nrt_clump_sends/outside-routine': 6,
    'nrt_clump_sends_checked/one-datagram': 80,
    'nrt_clump_sends_checked/oversized': 30,
    'nrt_clump_sends_checked/within-8-bytes-of-limit': 20,
    'nrt_clump_pieces_checked': 400,
    'nrt_bind_blocks_left_by_exception': 4,
}


def plan(tier, seed):
    quick = tier == 'quick'
    shards = []
    nrt_total = 2400 if quick else 200_000
    secs = 35 if quick else 560
    for p, (f, n) in enumerate(split(nrt_total, 3 if quick else 6)):
        shards.append({'name': f'nrt{p}', 'mode': 'nrt', 'kind': 'nrt',
                       'first_case': f, 'n': n, 'secs': secs,
                       'hard_timeout': secs + 150})
    nrt = 2 if quick else 8
    rounds = 60 if quick else 4000
    rsecs = 25 if quick else 540
    for p, (f, n) in enumerate(split(rounds * nrt, nrt)):
        shards.append({'name': f'rt{p}', 'mode': 'rt', 'kind': 'rt',
                       'first_case': f, 'n': n, 'secs': rsecs,
                       'burners': [3, 1, 6, 0][p % 4],
                       'hard_timeout': rsecs + 150})
    return shards


def run_shard(spec, acc):
    if spec['shard']['kind'] == 'rt':
        from vf.c07_rt import run_rt
        run_rt(spec, acc)
    else:
        from vf.c07_nrt import run_nrt
        run_nrt(spec, acc)
