"""C19 object re-use histories: one Env object (and the objects derived from
it) goes through a random sequence of uses and public parameter changes; after
every step each server format / evaluation it gives is compared with the
reference model (vf/model_env.py) of its CURRENT public parameters (levels,
times, curves, release_node, loop_node, offset read back from the object) and
with a fresh Env built from equal parameters.

uses      _envgen_format(), _interpolation_format(), _as_control_input(),
          _at(t), EnvGen.kr/ar(env) and IEnvGen.kr(env, index) in a SynthDef
          whose bytes are decoded with vf/scgf.py
changes   duration setter; range / exprange / curverange (the history goes on
          with the derived object, sometimes with the original); copy.copy;
          assignment of the public attributes release_node, loop_node, times,
          levels, curves

The harness keeps every parameter version of the object's lineage.  A wrong
result is diagnosed from the array the object actually used:
  it is the model's array of an EARLIER parameter version ->
      C19/object-reuse/stale-format-after/<change that followed that version:
          duration-setter | derived-copy | attribute-assignment>
  it is the model's array of the OTHER layout (any version) ->
      C19/object-reuse/format-cross-talk/<envgen-side-after-interpolation-side |
                                          interpolation-side-after-envgen-side>
  otherwise -> C19/object-reuse/<side>-wrong

A change method that raises inside its documented domain (levels with min <
max, lo < hi, lo > 0 for exprange, positive total duration) is reported as
C19/derived-envelope-raises/<method>/<exception>/<site>: the derived envelope,
whose encoding and evaluation the property is about, cannot be obtained.

Re-specification ('respec' steps; the class "attribute assignments that change
the SEGMENT COUNT of an existing envelope").  The parameters of an Env are
plain attributes and the server formats are computed from whatever they hold
when the envelope is encoded, so an existing envelope - built by Env(...) or by
a standard constructor (30% of the histories start from Env.adsr(...),
Env.perc(...), ... with random parameters), encoded before or not, copied,
derived, stretched before or not - can be given more or fewer segments by
assigning new `levels` and `times` (both always), new `curves` (scalar, one per
new segment, shorter, of the OLD segment count) and new nodes, in a random
order: all orders of levels / times / curves are drawn (counters
reuse_respec_order_*).  Values are assigned as the user would write them: a
list with one duration per NEW segment, levels for the NEW count.

  * The harness keeps the values it assigned ("truth"); the expected arrays are
    the model's encoding of the ASSIGNED values (not of what is read back), and
    a fresh Env(levels, times, curves, release_node, loop_node, offset) built
    from them must evaluate to the same numbers.
  * Between the assignments the object is used (format / interpolation format /
    control input / _at / EnvGen definition) only when the intermediate
    object is consistent: `times` holds exactly one duration per segment of the
    current `levels` and a `curves` list is not longer than that.  An
    inconsistent intermediate state is never encoded or evaluated (what it
    would give is not defined by the property), but the assignment that leads
    into or out of it must not raise and must not change the list it is given.
  * After the last assignment the object is consistent: both formats and _at
    are checked.

A wrong array or an exception at a use is keyed, before the diagnosis above,
by what the object reads back: when a public attribute no longer equals the
value that was assigned to it (assigned values are kept as given: wrapping of
curves is done when the envelope is encoded, the wrapping of times in the
constructor) ->
      C19/object-reuse/assigned-value-not-kept/<attribute>
An assignment that raises -> C19/object-reuse/assignment-raises/<attribute>/
<exception>/<site>; one that changes the list it was given ->
C19/object-reuse/assignment-mutates-value/<attribute>.

Originals: the object a copy was taken from (copy.copy, range / exprange /
curverange) is kept with its parameters; at the end of the history, after the
copy has been re-specified / stretched / used, it must still encode as its own
parameters say -> C19/object-reuse/original-changed-by-history-of-copy.

Independence of objects ('indep' shards, run_indep; the class "envelopes built
with DEFAULTED arguments, one of them changed IN PLACE, a second one built the
same way before and after").  The constructor of Env and the standard
constructors fill in documented defaults (levels 0 1 0, times 1 1, 'lin'; perc
/ adsr / ... times, levels and curvatures).  Every object owns its breakpoints:
what is done to the attribute lists of one envelope must never show in another
envelope that was built from its own (equal or different) arguments.
  recipes   Env() with any subset of times / curves / nodes / offset and levels
            omitted or None; Env(levels=...) with times omitted or None; every
            standard constructor with no or a few arguments (triangle, sine,
            perc, linen, cutoff, adsr, dadsr, asr, step)
  history   A = recipe; B0 = the same (65%) or another defaulted recipe, encoded
            now or not; 1-3 in-place changes of A.levels / A.times / A.curves
            (item and slice assignment, append, insert, extend, +=, pop, del,
            sort, reverse, clear + extend), the other attributes brought to the
            new segment count in place or by assignment, an attribute
            re-assigned when A was encoded before (drops its cached formats);
            B1 = recipe of B0, built afterwards
  oracle    B0 (as it is, or after an attribute was re-assigned its own value)
            and B1 encode (both layouts) and evaluate as the model says for
            THEIR arguments and the documented defaults (Env.step(): as an
            equal object did before the change) ->
      C19/object-independence/<recipe>/<attribute>-follows-other-object
            (<attribute>: the first of levels / times / curves that the object
            does not read back as it was built; 'format' when all do);
            A itself encodes as its changed lists say ->
      C19/object-reuse/in-place-change-not-encoded/<attribute>
An object that deviates from the model BEFORE the change of the case is not
judged (sequential deviation / other shards), only counted.
"""

import copy

from vf.common import iter_cases, case_rng, h64, short_tb, tb_sites

PARAMS = ('levels', 'times', 'curves', 'release_node', 'loop_node')
USES = ('format', 'control', 'at', 'envgen', 'iformat', 'ienvgen')
ORDERS3 = ('levels-times-curves', 'levels-curves-times', 'times-levels-curves',
           'times-curves-levels', 'curves-levels-times', 'curves-times-levels')
ORDERS2 = ('levels-times', 'times-levels')


class _Skip(Exception):
    """A fresh object deviates from the model as well: sequential deviation,
    the subject of the other shards."""


class _Failed(Exception):
    """A violation was recorded; the history ends."""


def current(env):
    p = {k: copy.deepcopy(getattr(env, k)) for k in PARAMS}
    p['offset'] = env.offset
    return p


def consistent(p):
    """One duration per segment of the levels; a curves list not longer."""
    nseg = len(p['levels']) - 1
    return (isinstance(p['times'], list) and len(p['times']) == nseg
            and not (isinstance(p['curves'], list)
                     and len(p['curves']) > max(nseg, 1)))


def gen_history(rng, nseg):
    n = rng.randint(3, 10)
    uses = ['format', 'format', 'iformat', 'iformat', 'control', 'at', 'at',
            'envgen', 'ienvgen']
    changes = ['duration', 'range', 'exprange', 'curverange', 'copy',
               'assign-release_node', 'assign-loop_node', 'assign-times',
               'assign-levels', 'assign-curves', 'assign-offset',
               'respec', 'respec', 'respec', 'respec', 'respec']
    out = []
    for _ in range(n):
        if rng.random() < 0.62:
            out.append(rng.choice(uses))
        else:
            out.append(rng.choice(changes))
    if not any(o in uses for o in out[-2:]):
        out.append(rng.choice(['format', 'at', 'iformat']))
    return out


def gen_respec(rng, G, n, old_curves, dyadic):
    """A re-specification of an envelope that has n segments -> (kind, values,
    order): the attribute values to assign and the order of the assignments.
    `levels` and `times` are always assigned (one duration per NEW segment)."""
    r = rng.random()
    if r < 0.45 or (n == 1 and r < 0.85):
        kind, m = 'grow', n + rng.randint(1, rng.choice([1, 2, 3, 6]))
    elif r < 0.85:
        kind, m = 'shrink', rng.randint(1, n - 1)
    else:
        kind, m = 'same-count', n
    m = min(m, 14)
    if m == n:
        kind = 'same-count'
    vals = {'levels': [G.gen_level(rng, 'any') for _ in range(m + 1)],
            'times': [G.gen_dur(rng, dyadic) for _ in range(m)]}
    if rng.random() < 0.12:
        vals['levels'][rng.randrange(m + 1)] = [
            G.gen_level(rng, 'any') for _ in range(rng.randint(2, 3))]
    if rng.random() < 0.08:
        vals['times'][rng.randrange(m)] = [
            G.gen_dur(rng, dyadic) for _ in range(2)]
    too_long = isinstance(old_curves, list) and len(old_curves) > m
    if too_long or rng.random() < 0.55:
        form = rng.choice(['name', 'number', 'list-equal', 'list-equal',
                           'list-shorter', 'list-old-count'])
        if form == 'list-old-count' and n > m:
            form = 'list-equal'
        if form == 'name':
            vals['curves'] = rng.choice(G.ANY_SIGN_NAMES + G.CUB_NAMES)
        elif form == 'number':
            vals['curves'] = rng.choice([-4, 2.0, 0, 4.5, -1, 1e-5,
                                         round(rng.uniform(-10, 10), 2)])
        else:
            k = {'list-equal': m, 'list-shorter': rng.randint(1, m),
                 'list-old-count': n}[form]
            vals['curves'] = [G.gen_curve_item(rng, 'any') for _ in range(k)]
            if rng.random() < 0.1:
                vals['curves'][rng.randrange(k)] = [
                    G.gen_curve_item(rng, 'any') for _ in range(2)]
    if rng.random() < 0.4:
        vals['release_node'] = rng.choice([None, rng.randint(0, m - 1)])
    if rng.random() < 0.2:
        vals['loop_node'] = rng.choice([None, 0])
    order = list(vals)
    rng.shuffle(order)
    return kind, vals, order


def gen_start(rng, G):
    """-> (description for the witness, callable(Env) -> object, dyadic)."""
    if rng.random() < 0.7:
        # sign-agnostic shapes: range / exprange move the levels across signs
        a = G.gen_env_args(rng, cls='any')
        args = {k: a[k] for k in PARAMS}
        return args, (lambda Env: Env(**copy.deepcopy(args))), a['dyadic']
    bad = set(G.EXP_NAMES) | {'sqr', 'squared'}
    while True:
        name, kw, flags = G.gen_ctor_kwargs(rng)
        cv = [kw.get('curve'), kw.get('curves')] + [
            q[2] for q in kw.get('xyc', [])]
        flat = []
        for c in cv:
            flat += c if isinstance(c, list) else [c]
        if not any(isinstance(c, str) and c in bad for c in flat):
            break
    args = {'constructor': name, 'kwargs': kw}
    return (args, (lambda Env: getattr(Env, name)(**copy.deepcopy(kw))),
            bool(flags.get('dyadic')))


def run_reuse(spec, acc):
    from vf import model_env as M, c19_gen as G, scgf
    from sc3.base import utils as utl
    from sc3.synth.envelope import Env
    from sc3.synth.synthdef import SynthDef
    from sc3.synth.ugens import EnvGen, IEnvGen, Out

    def site(e):
        s = tb_sites(e)
        return f'{s[-1][0]}:{s[-1][1]}' if s else 'harness'

    for i in iter_cases(spec):
        rng = case_rng(spec['seed'], 'C19', 'reuse', i)
        args, build, dyadic = gen_start(rng, G)
        hist = gen_history(rng, None)
        try:
            env = build(Env)
            if len(env.levels) < 2 or not consistent(current(env)):
                raise ValueError('start object outside the histories')
        except Exception:
            acc.count('reuse_skipped_not_constructible')
            continue
        log = []            # steps done so far (witness)
        acc.case(h64((repr(args), hist)),
                 nontrivial=any(h in ('iformat', 'ienvgen') for h in hist)
                 and any(h in ('format', 'at', 'control', 'envgen')
                         for h in hist))
        acc.count('reuse_histories')
        if 'constructor' in args:
            acc.count('reuse_start_standard_constructor')
            acc.count('reuse_start_' + args['constructor'])

        versions = [current(env)]   # parameter versions of the lineage
        changes = []                # kind of the change after version k
        # the parameters the object has according to the history: what was
        # read after a computed change (duration setter, derived copy), what
        # was ASSIGNED after an assignment
        truth = [current(env)]
        kept = []                   # (original object, its parameters)
        st = {'encoded': False}     # a format was computed since the last change

        def model(side, p):
            if side == 'envgen-side':
                return M.encode(**{k: p[k] for k in PARAMS})
            return M.encode_interpolation(p['levels'], p['times'],
                                          p['curves'], p['offset'])

        def blame(side, obj):
            """Diagnose from the array the object hands out for that side."""
            other = 'interpolation-side' if side == 'envgen-side' \
                else 'envgen-side'
            try:
                arr = obj._envgen_format() if side == 'envgen-side' \
                    else obj._interpolation_format()
                arr = [list(t) for t in arr]
            except Exception:
                return f'C19/object-reuse/{side}-wrong'
            for v in range(len(versions) - 2, -1, -1):
                try:
                    if M.same_arrays(arr, model(side, versions[v])) is None:
                        return ('C19/object-reuse/stale-format-after/'
                                + changes[v])
                except Exception:
                    pass
            for v in range(len(versions) - 1, -1, -1):
                try:
                    if M.same_arrays(arr, model(other, versions[v])) is None:
                        return ('C19/object-reuse/format-cross-talk/'
                                f'{side}-after-{other}')
                except Exception:
                    pass
            return f'C19/object-reuse/{side}-wrong'

        def not_kept():
            """Name of a public attribute that no longer holds the value the
            history gave it (None when all do)."""
            try:
                now = current(env)
            except Exception:
                return None
            for k in ('times', 'levels', 'curves', 'release_node',
                      'loop_node', 'offset'):
                if now[k] != truth[0][k]:
                    return k
            return None

        def key_for(side):
            nk = not_kept()
            if nk:
                return 'C19/object-reuse/assigned-value-not-kept/' + nk
            return blame(side, env)

        def changed(kind):
            versions.append(current(env))
            changes.append(kind)
            st['encoded'] = False

        def witness():
            return {'case': i, 'args': args, 'history': list(log)}

        def use(step):
            """One use of the object, judged by the parameters in truth[0].
            Raises _Failed after recording a violation, _Skip when a fresh
            object deviates from the model too."""
            cur = truth[0]
            pp = {k: cur[k] for k in PARAMS}
            want = M.encode(**pp)
            wanti = M.encode_interpolation(
                cur['levels'], cur['times'], cur['curves'], cur['offset'])
            # does a fresh object agree with the model?  If not the
            # deviation is sequential (other shards' subject)
            try:
                fresh = Env(**copy.deepcopy(pp), offset=cur['offset'])
                dev = M.same_arrays(
                    [list(t) for t in fresh._envgen_format()], want)
            except Exception:
                dev = 'raises'
            if dev:
                acc.count('reuse_skipped_sequential_deviation')
                raise _Skip()
            try:
                _use(step, cur, want, wanti, fresh)
            except (_Failed, _Skip):
                raise
            except Exception as e:
                nk = not_kept()
                acc.violation(
                    'C19/object-reuse/assigned-value-not-kept/' + nk if nk
                    else f'C19/object-reuse/{step}-raises/'
                         f'{type(e).__name__}/{site(e)}',
                    dict(witness(), use=step, tb=short_tb(e), current=cur,
                         read_back=_safe_current(env)))
                raise _Failed()
            st['encoded'] = True

        def _use(step, cur, want, wanti, fresh):
            if step in ('format', 'control'):
                got = env._envgen_format() if step == 'format' else \
                    env._as_control_input()
                if step == 'control' and len(want) == 1:
                    got = [got]
                got = [list(t) for t in got]
                acc.count('reuse_envgen_side_checks')
                d = M.same_arrays(got, want)
                if d:
                    acc.violation(key_for('envgen-side'), dict(
                        witness(), differs=d, got=got[:2], expected=want[:2],
                        current=cur, read_back=_safe_current(env)))
                    raise _Failed()
            elif step == 'iformat':
                got = [list(t) for t in env._interpolation_format()]
                acc.count('reuse_interpolation_side_checks')
                d = M.same_arrays(got, wanti)
                if d:
                    acc.violation(key_for('interpolation-side'), dict(
                        witness(), differs=d, got=got[:2],
                        expected=wanti[:2], current=cur,
                        read_back=_safe_current(env)))
                    raise _Failed()
            elif step == 'at':
                nch = len(want)
                total = max(sum(arr[5::4]) for arr in want)
                for t in (0, total * rng.choice([0.25, 0.5, 0.75]), total,
                          total + 1):
                    v = env._at(t)
                    w = fresh._at(t)
                    acc.count('reuse_at_checks')
                    bad = v != w and not (v != v and w != w)
                    if not bad and cur['offset'] == 0 and t >= 0:
                        vs = v if nch > 1 else [v]
                        for c in range(nch):
                            l0, segs = M.segments(want[c])
                            ok, where, why = M.value_ok(
                                [l0] + [s[0] for s in segs],
                                [s[1] for s in segs],
                                [s[2] for s in segs], t, vs[c], False)
                            if not ok and not any(
                                    s[2] == 7 for s in segs):
                                bad = True
                    if bad:
                        acc.violation(key_for('envgen-side'), dict(
                            witness(), t=t, got=v, fresh_equal_env=w,
                            current=cur, read_back=_safe_current(env)))
                        raise _Failed()
            elif step in ('envgen', 'ienvgen'):
                e = env

                def graph():
                    if step == 'envgen':
                        Out.kr(0, EnvGen.kr(e, 1.0, 1.0, 0.0, 1.0, 0))
                    else:
                        Out.kr(0, IEnvGen.kr(e, 0.5))
                d = scgf.parse(SynthDef('c19r', graph).as_bytes())
                cls = 'EnvGen' if step == 'envgen' else 'IEnvGen'
                units = [u for u in d.units if u.cls == cls]
                head = [1.0, 1.0, 0.0, 1.0, 0.0] if step == 'envgen' \
                    else [0.5]
                exp = want if step == 'envgen' else wanti
                side = 'envgen-side' if step == 'envgen' else \
                    'interpolation-side'
                acc.count('reuse_defs_decoded')
                ok = len(units) == len(exp)
                if ok:
                    for u, arr in zip(units, exp):
                        vals = [d.constants[x[1]] if x[0] == 'c' else None
                                for x in u.inputs]
                        wv = [M.f32(x) for x in head + arr]
                        if len(vals) != len(wv) or any(
                                g is None or (g != w and abs(g - w) >
                                              2.0 ** -23 * abs(w))
                                for g, w in zip(vals, wv)):
                            ok = False
                            break
                if not ok:
                    acc.violation(key_for(side), dict(
                        witness(), units=[repr(u) for u in units][:2],
                        expected=exp[:2], current=cur,
                        read_back=_safe_current(env)))
                    raise _Failed()

        def assign(attr, val):
            """setattr with a private copy of val; the value must be taken as
            given (no exception, the list handed over is not changed)."""
            given = copy.deepcopy(val)
            try:
                setattr(env, attr, given)
            except Exception as e:
                acc.violation(
                    f'C19/object-reuse/assignment-raises/{attr}/'
                    f'{type(e).__name__}/{site(e)}',
                    dict(witness(), attribute=attr, value=val,
                         tb=short_tb(e)))
                raise _Failed()
            if given != val:
                acc.violation(
                    f'C19/object-reuse/assignment-mutates-value/{attr}',
                    dict(witness(), attribute=attr, value=val, after=given))
                raise _Failed()
            truth[0] = dict(truth[0], **{attr: copy.deepcopy(val)})
            changed('attribute-assignment')

        def respec():
            n = len(truth[0]['levels']) - 1
            kind, vals, order = gen_respec(rng, G, n, truth[0]['curves'],
                                           dyadic)
            log[-1] = ['respec', kind, order, vals]
            acc.count('reuse_respec_' + kind)
            if st['encoded']:
                acc.count('reuse_respec_of_encoded_object')
            main = [a for a in order if a in ('levels', 'times', 'curves')]
            acc.count('reuse_respec_order_' + '-'.join(main))
            for k, attr in enumerate(order):
                assign(attr, vals[attr])
                acc.count('reuse_respec_assignments')
                if k == len(order) - 1:
                    break
                if not consistent(truth[0]):
                    acc.count('reuse_respec_inconsistent_intermediates')
                    continue
                acc.count('reuse_respec_consistent_intermediates')
                if rng.random() < 0.6:
                    u = rng.choice(['format', 'format', 'iformat', 'iformat',
                                    'at', 'control', 'envgen', 'ienvgen'])
                    log.append('respec:' + u)
                    acc.count('reuse_respec_intermediate_uses')
                    use(u)
            # all values assigned: the object is the envelope of these values
            for u in ('format', 'iformat', 'at'):
                log.append('respec-done:' + u)
                use(u)
            acc.count('reuse_respec_final_checks')
            if kind != 'same-count':
                acc.count('reuse_respec_segment_count_changed')

        try:
            for step in hist:
                log.append(step)
                acc.count('reuse_step_' + step)
                if step in USES:
                    use(step)
                    continue
                if step == 'respec':
                    respec()
                    continue
                if step.startswith('assign-'):
                    attr = step.split('-', 1)[1]
                    n = len(env.levels) - 1
                    if attr == 'release_node':
                        val = rng.choice([None, rng.randint(0, max(0, n - 1))])
                    elif attr == 'loop_node':
                        val = rng.choice([None, 0])
                    elif attr == 'times':
                        val = [G.gen_dur(rng, dyadic) or 1 for _ in range(n)]
                    elif attr == 'offset':
                        val = rng.choice([0, 1, 0.5, -2.0])
                    elif attr == 'levels':
                        val = [G.gen_level(rng, 'any') for _ in range(n + 1)]
                    else:
                        val = rng.choice(['lin', 'sin', -4, 2.0, 'wel',
                                          ['lin', 3]])
                    if getattr(env, attr) != val:
                        assign(attr, val)
                    continue
                try:
                    if step == 'duration':
                        if isinstance(env.total_duration(), (int, float)) \
                                and env.total_duration() > 0:
                            env.duration = rng.choice([1, 2.0, 0.5, 3,
                                                       rng.uniform(0.1, 8)])
                            changed('duration-setter')
                            truth[0] = current(env)
                    elif step in ('range', 'exprange', 'curverange'):
                        flat = utl.flat(env.levels) if hasattr(utl, 'flat') \
                            else env.levels
                        if min(flat) < max(flat):
                            lo, hi = sorted(rng.sample(
                                [0.1, 0.25, 0.5, 1, 2, 3.5, 10, 100], 2))
                            if step == 'range' and rng.random() < 0.4:
                                lo = -lo
                            new = getattr(env, step)(lo, hi)
                            if rng.random() < 0.8:
                                kept.append((env, copy.deepcopy(truth[0])))
                                env = new
                                changed('derived-copy')
                                truth[0] = current(env)
                    elif step == 'copy':
                        kept.append((env, copy.deepcopy(truth[0])))
                        env = copy.copy(env)
                except Exception as e:
                    # a documented public method of the envelope, called
                    # inside its documented domain, that cannot produce the
                    # derived / changed envelope at all
                    acc.violation(
                        f'C19/derived-envelope-raises/{step}/'
                        f'{type(e).__name__}/{site(e)}',
                        dict(witness(), tb=short_tb(e)))
                    raise _Failed()
            # the objects copies were taken from still are what they were
            for obj, p in kept[-3:]:
                pp = {k: p[k] for k in PARAMS}
                want = M.encode(**pp)
                fresh = Env(**copy.deepcopy(pp), offset=p['offset'])
                if M.same_arrays([list(t) for t in fresh._envgen_format()],
                                 want):
                    continue
                acc.count('reuse_originals_rechecked')
                try:
                    got = [list(t) for t in obj._envgen_format()]
                    d = M.same_arrays(got, want)
                except Exception as e:
                    got, d = short_tb(e), 'raises'
                if d:
                    acc.violation(
                        'C19/object-reuse/original-changed-by-history-of-copy',
                        dict(witness(), differs=d, got=got[:2],
                             expected=want[:2], original=p))
                    raise _Failed()
        except _Failed:
            continue
        except _Skip:
            continue
        if acc.want_sample() and len(hist) <= 6 \
                and len(repr(args)) < 300 and len(repr(log)) < 900:
            acc.sample({'case': i, 'args': args, 'history': log})


def _safe_current(env):
    try:
        return current(env)
    except Exception as e:
        return f'{type(e).__name__}: {e}'


# ---------------------------------------------------------------------------
# independence of objects built with defaulted arguments

DEFAULT_LEVELS = [0, 1, 0]      # "levels = [0, 1, 0] / times = [1, 1]": the
DEFAULT_TIMES = [1, 1]          # triangle of the class documentation
DEFAULTED_CTORS = ('triangle', 'sine', 'perc', 'linen', 'cutoff', 'adsr',
                   'dadsr', 'asr')


def gen_defaulted(rng, G):
    """A construction that relies on defaults -> (recipe name, description,
    build(Env), expected parameters or None).  expected: dict(levels, times,
    curves, release_node, loop_node, offset) from the documentation."""
    r = rng.random()
    if r < 0.5:
        kw, exp = {}, dict(curves='lin', release_node=None, loop_node=None,
                           offset=0)
        if r < 0.36:
            name = 'Env-default-levels'
            if rng.random() < 0.3:
                kw['levels'] = None
            exp['levels'] = list(DEFAULT_LEVELS)
            t = rng.choice(['omit', 'omit', 'none', 'scalar', 'one', 'two'])
        else:
            name = 'Env-default-times'
            kw['levels'] = [G.gen_level(rng, 'any')
                            for _ in range(rng.choice([2, 3, 3, 4, 6]))]
            exp['levels'] = list(kw['levels'])
            t = rng.choice(['omit', 'none'])
        if t == 'none':
            kw['times'] = None
        elif t == 'scalar':
            kw['times'] = G.gen_dur(rng, True) or 0.5
        elif t in ('one', 'two'):
            kw['times'] = [G.gen_dur(rng, True) for _ in range(
                1 if t == 'one' else 2)]
        exp['times'] = copy.deepcopy(kw['times']) \
            if kw.get('times') is not None else list(DEFAULT_TIMES)
        if rng.random() < 0.4:
            nseg = len(exp['levels']) - 1
            kw['curves'] = rng.choice([
                rng.choice(G.ANY_SIGN_NAMES), rng.choice([-4, 2.0, 0, 3.5]),
                [G.gen_curve_item(rng, 'any')
                 for _ in range(rng.randint(1, nseg))]])
            exp['curves'] = copy.deepcopy(kw['curves'])
        if rng.random() < 0.3:
            kw['release_node'] = exp['release_node'] = rng.choice([None, 0, 1])
            if kw['release_node'] is not None and rng.random() < 0.4:
                kw['loop_node'] = exp['loop_node'] = 0
        if rng.random() < 0.15:
            kw['offset'] = exp['offset'] = rng.choice([0, 0.5, 1])
        return (name, {'Env': kw},
                (lambda Env: Env(**copy.deepcopy(kw))), exp)
    if r < 0.58:
        return 'step', {'constructor': 'step', 'kwargs': {}}, \
            (lambda Env: Env.step()), None
    bad = set(G.EXP_NAMES) | {'sqr', 'squared'}
    while True:
        name, kw, _flags = G.gen_ctor_kwargs(rng)
        if name not in DEFAULTED_CTORS:
            continue
        if rng.random() < 0.5:
            kw = {}
        elif len(kw) > 2:
            kw = {k: kw[k] for k in rng.sample(sorted(kw), 2)}
        c = kw.get('curve')
        if not (isinstance(c, str) and c in bad):
            break
    exp = G.ctor_expected(name, kw)
    exp['offset'] = 0
    return (name, {'constructor': name, 'kwargs': kw},
            (lambda Env: getattr(Env, name)(**copy.deepcopy(kw))), exp)


def _flat_numbers(lst):
    return all(isinstance(x, (int, float)) for x in lst)


def gen_inplace(rng, G, attr, lst):
    """One in-place change of a list that holds `lst` -> (name, function that
    applies it to a list).  The result keeps at least 2 levels / 1 time."""
    least = 2 if attr == 'levels' else 1
    val = (lambda: G.gen_level(rng, 'any')) if attr == 'levels' else \
        (lambda: G.gen_dur(rng, True) or 0.25) if attr == 'times' else \
        (lambda: rng.choice(G.ANY_SIGN_NAMES + [-4, 2.0, 0, 3]))
    n = len(lst)
    ops = ['setitem', 'setitem', 'slice-same', 'reverse']
    if attr == 'levels':
        ops += ['append', 'append', 'insert', 'extend', 'iadd', 'slice-grow',
                'clear-extend']
        if n > least:
            ops += ['pop', 'del', 'slice-shrink']
    if attr != 'curves' and _flat_numbers(lst):
        ops.append('sort')
    op = rng.choice(ops)
    if op == 'setitem':
        k, v = rng.randrange(n), val()
        if lst[k] == v:
            v = 0.625 if attr != 'curves' else 1.5
        return op, lambda x: x.__setitem__(k, v)
    if op == 'slice-same':
        a = rng.randrange(n)
        b = rng.randint(a + 1, n)
        vs = [val() for _ in range(b - a)]
        return op, lambda x: x.__setitem__(slice(a, b), vs)
    if op == 'reverse':
        return op, lambda x: x.reverse()
    if op == 'sort':
        return op, lambda x: x.sort()
    if op == 'append':
        v = val()
        return op, lambda x: x.append(v)
    if op == 'insert':
        k, v = rng.randint(0, n), val()
        return op, lambda x: x.insert(k, v)
    if op in ('extend', 'iadd'):
        vs = [val() for _ in range(rng.randint(1, 3))]
        if op == 'extend':
            return op, lambda x: x.extend(vs)
        return op, lambda x: x.__iadd__(vs)
    if op == 'slice-grow':
        a = rng.randrange(n)
        vs = [val() for _ in range(rng.randint(2, 3))]
        return op, lambda x: x.__setitem__(slice(a, a + 1), vs)
    if op == 'clear-extend':
        vs = [val() for _ in range(rng.randint(2, 5))]
        return op, lambda x: (x.clear(), x.extend(vs))
    if op == 'pop':
        return op, lambda x: x.pop()
    if op == 'del':
        k = rng.randrange(n)
        return op, lambda x: x.__delitem__(k)
    a, v = rng.randrange(n - 1), val()             # slice-shrink
    return op, lambda x: x.__setitem__(slice(a, a + 2), [v])


def run_indep(spec, acc):
    from vf import model_env as M, c19_gen as G
    from sc3.synth.envelope import Env

    def arrays(p):
        pp = {k: p[k] for k in PARAMS}
        return (M.encode(**pp), M.encode_interpolation(
            p['levels'], p['times'], p['curves'], p['offset']))

    def formats(obj):
        return ([list(t) for t in obj._envgen_format()],
                [list(t) for t in obj._interpolation_format()])

    def judge(obj, want, wanti, offset, rng):
        """None or a description of the first difference between what the
        object gives (both layouts, evaluation) and the expected arrays."""
        try:
            got, goti = formats(obj)
            d = M.same_arrays(got, want)
            if d:
                return {'differs': 'envgen-format/' + d, 'got': got[:2],
                        'expected': want[:2]}
            d = M.same_arrays(goti, wanti)
            if d:
                return {'differs': 'interpolation-format/' + d,
                        'got': goti[:2], 'expected': wanti[:2]}
            if offset or len(want[0]) < 8:
                return None
            nch = len(want)
            total = max(sum(arr[5::4]) for arr in want)
            for t in (0, total * rng.choice([0.25, 0.5, 0.75]), total,
                      total + 1):
                v = obj._at(t)
                vs = v if nch > 1 else [v]
                for c in range(nch):
                    l0, segs = M.segments(want[c])
                    ok, where, why = M.value_ok(
                        [l0] + [s[0] for s in segs], [s[1] for s in segs],
                        [s[2] for s in segs], t, vs[c], False)
                    acc.count('indep_at_checks')
                    if not ok and not any(s[2] == 7 for s in segs):
                        return {'differs': 'value-at/' + where, 't': t,
                                'got': v, 'allowed': why}
        except Exception as e:
            return {'differs': 'raises/' + type(e).__name__,
                    'tb': short_tb(e)}
        return None

    for i in iter_cases(spec):
        rng = case_rng(spec['seed'], 'C19', 'indep', i)
        name_a, desc_a, build_a, exp_a = gen_defaulted(rng, G)
        same = rng.random() < 0.65
        if same:
            name_b, desc_b, build_b, exp_b = name_a, desc_a, build_a, exp_a
        else:
            name_b, desc_b, build_b, exp_b = gen_defaulted(rng, G)
        with_b0 = rng.random() < 0.7
        encode_a_first = rng.random() < 0.5
        encode_b0_first = rng.random() < 0.5
        touch_b0 = rng.random() < 0.5
        log = []
        witness = lambda: {'case': i, 'changed_object': desc_a,
                           'other_object': desc_b, 'history': list(log)}
        try:
            a = build_a(Env)
            log.append('A = build(changed_object)')
            truth = current(a)
            b0 = None
            if with_b0:
                b0 = build_b(Env)
                log.append('B0 = build(other_object)')
            # what B stands for: the model's arrays for its arguments and the
            # documented defaults; Env.step(): what an equal object encodes
            # as before anything was changed
            if exp_b is not None:
                want_b, wanti_b = arrays(exp_b)
                off_b = exp_b['offset']
            else:
                ref_b = build_b(Env)
                snap_b = current(ref_b)
                want_b, wanti_b = formats(ref_b)
                off_b = 0
            if not consistent(truth) or len(truth['levels']) < 2:
                raise ValueError('outside the histories')
            pre = []
            if encode_a_first:
                pre.append((a, *arrays(truth), truth['offset']))
                log.append('A encoded')
            if b0 is not None and encode_b0_first:
                pre.append((b0, want_b, wanti_b, off_b))
                log.append('B0 encoded')
            if exp_a is not None and not encode_a_first:
                # the parameters read back are those of the documentation
                pre.append((build_a(Env), *arrays(exp_a), exp_a['offset']))
            if any(judge(o, w, wi, off, rng) for o, w, wi, off in pre):
                acc.count('indep_skipped_deviation_before_change')
                continue
        except Exception:
            acc.count('indep_skipped_not_constructible')
            continue
        acc.count('indep_histories')
        acc.count('indep_recipe_' + name_a)
        if not same:
            acc.count('indep_cross_recipe')
            acc.count('indep_other_recipe_' + name_b)
        acc.case(h64((repr(desc_a), repr(desc_b), i)),
                 nontrivial=with_b0 or not encode_a_first)

        # --- in-place changes of A's attribute lists
        try:
            attrs = ['levels'] if rng.random() < 0.7 else []
            attrs += rng.sample(['levels', 'times', 'curves'],
                                rng.randint(0 if attrs else 1, 2))
            changed_attrs = []
            for attr in attrs:
                if not isinstance(truth[attr], list) or not truth[attr]:
                    continue
                if attr == 'curves' and len(truth[attr]) < 1:
                    continue
                op, fn = gen_inplace(rng, G, attr, truth[attr])
                fn(getattr(a, attr))
                fn(truth[attr])
                log.append(f'A.{attr}: {op} -> {truth[attr]!r}')
                acc.count(f'indep_inplace_{attr}_{op}')
                if attr not in changed_attrs:
                    changed_attrs.append(attr)
            if not changed_attrs:
                v = 0.625 if truth['levels'][-1] != 0.625 else 0.375
                a.levels[-1] = v
                truth['levels'][-1] = v
                log.append(f'A.levels: setitem -> {truth["levels"]!r}')
                acc.count('indep_inplace_levels_setitem')
                changed_attrs.append('levels')
            # bring the other attributes to the new segment count
            m = len(truth['levels']) - 1
            assigned = False
            if len(truth['times']) != m:
                acc.count('indep_levels_count_changed')
                new = [G.gen_dur(rng, True) or 0.5 for _ in range(m)]
                if rng.random() < 0.4:
                    a.times[:] = new
                    truth['times'][:] = new
                    log.append(f'A.times[:] = {new!r}')
                    acc.count('indep_times_adjusted_in_place')
                    if 'times' not in changed_attrs:
                        changed_attrs.append('times')
                else:
                    a.times = list(new)
                    truth['times'] = list(new)
                    assigned = True
                    log.append(f'A.times = {new!r}')
                    acc.count('indep_times_adjusted_by_assignment')
            if isinstance(truth['curves'], list) and \
                    len(truth['curves']) > max(m, 1):
                new = truth['curves'][:max(m, 1)]
                a.curves = list(new)
                truth['curves'] = list(new)
                assigned = True
                log.append(f'A.curves = {new!r}')
            if encode_a_first and not assigned:
                # A holds cached formats: an assignment drops them
                k = rng.choice(['levels', 'times', 'curves', 'release_node',
                                'loop_node', 'offset'])
                setattr(a, k, getattr(a, k))
                log.append(f'A.{k} = A.{k}')
                acc.count('indep_reassigned_own_value')
            if not encode_a_first:
                acc.count('indep_changed_before_first_encoding')
        except Exception as e:
            acc.violation(
                'C19/object-reuse/in-place-change-raises/'
                f'{type(e).__name__}', dict(witness(), tb=short_tb(e)))
            continue

        # --- A is the envelope of its changed lists
        key_attr = '+'.join(changed_attrs)
        try:
            fresh_ok = judge(
                Env(**copy.deepcopy({k: truth[k] for k in PARAMS}),
                    offset=truth['offset']),
                *arrays(truth), truth['offset'], rng) is None
        except Exception:
            fresh_ok = False
        if fresh_ok:
            acc.count('indep_changed_objects_checked')
            d = judge(a, *arrays(truth), truth['offset'], rng)
            if d:
                acc.violation(
                    'C19/object-reuse/in-place-change-not-encoded/' + key_attr,
                    dict(witness(), **d, expected_parameters=truth,
                         read_back=_safe_current(a)))
                continue
        else:
            acc.count('indep_changed_object_outside_model')

        # --- the other objects are what they were built as
        def follows(obj):
            """The attribute list of the object that is not what the object
            was built with ('format' when all are)."""
            try:
                now = current(obj)
                if exp_b is None:
                    ref = snap_b
                else:
                    ref = dict(exp_b, times=M.wrap_to(
                        M.as_list(exp_b['times']),
                        len(exp_b['levels']) - 1))
                for k in ('levels', 'times', 'curves'):
                    if now[k] != ref[k]:
                        return k
            except Exception:
                pass
            return 'format'

        others = []
        try:
            b1 = build_b(Env)
            log.append('B1 = build(other_object)')
            others.append(('later', b1))
        except Exception as e:
            acc.violation(
                f'C19/object-independence/{name_b}/construction-raises-'
                f'after-change-of-other-object/{type(e).__name__}',
                dict(witness(), tb=short_tb(e)))
            continue
        if b0 is not None:
            if touch_b0:
                k = rng.choice(['levels', 'times', 'curves', 'release_node',
                                'loop_node', 'offset'])
                try:
                    setattr(b0, k, getattr(b0, k))
                except Exception:
                    pass
                log.append(f'B0.{k} = B0.{k}')
                acc.count('indep_earlier_objects_reassigned_own_value')
            others.append(('earlier', b0))
            if not encode_b0_first:
                acc.count('indep_earlier_objects_first_encoded_after_change')
        rng.shuffle(others)
        failed = False
        for which, obj in others:
            acc.count(f'indep_{which}_objects_checked')
            d = judge(obj, want_b, wanti_b, off_b, rng)
            if d:
                acc.violation(
                    f'C19/object-independence/{name_b}/'
                    f'{follows(obj)}-follows-other-object',
                    dict(witness(), which=which + ' object', **d,
                         read_back=_safe_current(obj),
                         changed_object_now=_safe_current(a)))
                failed = True
                break
        if failed:
            continue
        if acc.want_sample() and len(repr(log)) < 700:
            acc.sample({'case': i, 'changed_object': desc_a,
                        'other_object': desc_b, 'history': log})
