"""C03 reference model and generators (no sc3 import).

The wrap-and-zip law, written from the property statement:

    expand(args, leaf):
        if no argument is a list           -> leaf(args)
        n = length of the longest list
        -> channel list [ expand([a[i mod len(a)] if a is a list else a
                                  for a in args], leaf)  for i in 0..n-1 ]

Tuples, numbers, strings, None and unit generators are scalars.  A
`ChannelList` is a list (sc3's class derives from list), so `isinstance(x,
list)` is the only test used.

Shapes are generated as *templates* (pure data) and instantiated inside the
graph function, because unit-generator leaves can only be created there.
Template grammar:
    ('num', v) | ('ugen', rate) | ('tup', [leaf, ...]) | ('str', s) |
    ('list', [template, ...], as_channel_list: bool)
"""


def is_list(x):
    return isinstance(x, list)


def expand(args, leaf, mk, stats=None):
    """Reference expansion.  leaf(list_free_args) -> value; mk(list) -> the
    channel-list container.  stats (dict) receives the number of leaf calls
    ('combos') and whether wrap-around happened ('wrapped')."""
    n = 0
    any_list = False
    for a in args:
        if is_list(a):
            any_list = True
            if len(a) == 0:
                raise ValueError('empty list is outside the domain')
            n = max(n, len(a))
    if not any_list:
        if stats is not None:
            stats['combos'] = stats.get('combos', 0) + 1
        return leaf(list(args))
    if stats is not None:
        lens = {len(a) for a in args if is_list(a)}
        if len(lens) > 1:
            stats['wrapped'] = True
        stats['levels'] = stats.get('levels', 0) + 1
    return mk([expand([a[i % len(a)] if is_list(a) else a for a in args],
                      leaf, mk, stats) for i in range(n)])


# ---------------------------------------------------------------------------
# template generation

F32_NUMS = [0.0, 0.25, 0.5, 1.0, 1.5, 2.0, 3.0, 4.0, 7.0, 10.0, 100.0, 440.0,
            -1.0, -0.5, 0.125, 55.0, 880.0, 1, 2, 3, 5, 8]


def gen_leaf(rng, numfn, p_ugen=0.25, p_tuple=0.0, rates=('audio',)):
    r = rng.random()
    if r < p_tuple:
        k = rng.randint(1, 3)
        return ('tup', [gen_leaf(rng, numfn, p_ugen, 0.0, rates)
                        for _ in range(k)])
    if r < p_tuple + p_ugen:
        return ('ugen', rng.choice(rates))
    return ('num', numfn(rng))


def gen_template(rng, numfn, p_ugen=0.25, p_tuple=0.05, rates=('audio',),
                 force=None, maxlen=5):
    """One argument template.  force: None | 'scalar' | 'list' | 'nested'."""
    kind = force or rng.choices(
        ['scalar', 'list', 'nested', 'chlist'], [40, 38, 15, 7])[0]
    if kind == 'scalar':
        return gen_leaf(rng, numfn, p_ugen, p_tuple, rates)
    if kind in ('list', 'chlist'):
        n = rng.choice([1, 2, 2, 3, 3, 4, maxlen])
        return ('list', [gen_leaf(rng, numfn, p_ugen, p_tuple, rates)
                         for _ in range(n)], kind == 'chlist')
    # nested, depth up to 3
    def nest(depth):
        n = rng.choice([1, 2, 2, 3])
        items = []
        for _ in range(n):
            if depth < 3 and rng.random() < (0.55 if depth == 1 else 0.3):
                items.append(nest(depth + 1))
            else:
                items.append(gen_leaf(rng, numfn, p_ugen, p_tuple, rates))
        return ('list', items, rng.random() < 0.25)
    t = nest(1)
    if template_depth(t) < 2:
        t[1][rng.randrange(len(t[1]))] = (
            'list', [gen_leaf(rng, numfn, p_ugen, p_tuple, rates)
                     for _ in range(rng.choice([1, 2, 3]))], False)
    return t


def template_depth(t):
    if t[0] != 'list':
        return 0
    return 1 + max([template_depth(x) for x in t[1]] + [0])


def template_has(t, tag):
    if t[0] == tag:
        return True
    if t[0] in ('list', 'tup'):
        return any(template_has(x, tag) for x in t[1])
    return False


def template_lens(t):
    """lengths of all lists in the template (top level first)."""
    if t[0] != 'list':
        return []
    out = [len(t[1])]
    for x in t[1]:
        out.extend(template_lens(x))
    return out


def instantiate(t, make_ugen, make_chlist):
    k = t[0]
    if k == 'num':
        return t[1]
    if k == 'str':
        return t[1]
    if k == 'ugen':
        return make_ugen(t[1])
    if k == 'tup':
        return tuple(instantiate(x, make_ugen, make_chlist) for x in t[1])
    if k == 'list':
        items = [instantiate(x, make_ugen, make_chlist) for x in t[1]]
        return make_chlist(items) if t[2] else items
    raise ValueError(t)


def nontrivial_shapes(templates):
    """A call is non-trivial when expansion has to wrap or recurse: two list
    arguments of different top-level lengths, or a nested list, together with
    at least one list of length >= 2."""
    tops = [len(t[1]) for t in templates if t[0] == 'list']
    if not tops or max(tops) < 2:
        return False
    nested = any(template_depth(t) >= 2 for t in templates)
    return nested or len(set(tops)) > 1


# ---------------------------------------------------------------------------
# Out family reference

SIL = ('silence',)


def is_literal_zero(x):
    return isinstance(x, (int, float)) and not isinstance(x, bool) and x == 0


def silence_zeros(x):
    if is_list(x):
        return [silence_zeros(i) for i in x]
    return SIL if is_literal_zero(x) else x


def out_reference(fixed, output, audio):
    """Expected output units of  Cls.ar/kr(*fixed, output): a list with one
    entry per created unit, each the flat input list (fixed args followed by
    the channels).  The channel array is the argument itself when it is a
    list, else the one-element array; nested lists inside it are further
    arguments of the expansion; literal zeros among the channels become the
    SIL marker for audio-rate outputs."""
    chans = list(output) if is_list(output) else [output]
    if audio:
        chans = [silence_zeros(c) for c in chans]
    calls = []
    expand(list(fixed) + chans, lambda a: calls.append(a), list)
    return calls
