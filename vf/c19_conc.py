"""C19 concurrency shard: one multichannel Env shared by several threads that
all ask for its server format for the first time at once.

Each round builds a fresh Env with 2..50 channels (list-valued levels / times /
curves), releases 3-4 persistent worker threads through a barrier; every worker
performs one first use (`_envgen_format()`, `_as_control_input()` or `_at(t)`).
sys.monitoring yield injection (vf/inject.py) on the code object of
Env._envgen_format and a 50 us switch interval widen every window inside the
method.  Oracle: every thread's result equals the reference model's format
(vf/model_env.py) of that Env, and the format asked again afterwards, single
threaded, still equals it (the cache is not corrupted).
"""

import copy
import sys
import threading
import time

from vf.common import iter_cases, case_rng, h64, short_tb, derive_seed


def gen_multi_env(rng, G):
    """Envelope arguments with W channels, W in 2..50."""
    a = G.gen_env_args(rng)
    cls = a['cls']
    w = rng.choice([2, 2, 3, 4, 5, 8, 13, 20, 33, 50, rng.randint(2, 50)])
    levels, times, curves = a['levels'], a['times'], a['curves']
    # strip nested entries made by the base generator, then add ours
    levels = [x[0] if isinstance(x, list) else x for x in levels]
    if isinstance(times, list):
        times = [x[0] if isinstance(x, list) else x for x in times]
    if isinstance(curves, list):
        curves = [x[0] if isinstance(x, list) else x for x in curves]
    k = rng.randrange(len(levels))
    levels[k] = [G.gen_level(rng, cls) for _ in range(w)]
    if rng.random() < 0.4:
        k2 = rng.randrange(len(levels))
        levels[k2] = [G.gen_level(rng, cls)
                      for _ in range(rng.choice([w, 2, max(2, w // 2)]))]
    if rng.random() < 0.4:
        if not isinstance(times, list):
            times = [times]
        k = rng.randrange(len(times))
        times[k] = [G.gen_dur(rng, a['dyadic'])
                    for _ in range(rng.choice([w, 2, 3]))]
    if rng.random() < 0.4:
        if not isinstance(curves, list):
            curves = [curves]
        k = rng.randrange(len(curves))
        curves[k] = [G.gen_curve_item(rng, cls)
                     for _ in range(rng.choice([w, 2, 3]))]
    return dict(levels=levels, times=times, curves=curves,
                release_node=a['release_node'], loop_node=a['loop_node']), w


def run_conc(spec, acc):
    from vf import model_env as M, c19_gen as G
    from vf.inject import Injector, func_code
    from sc3.synth.envelope import Env

    cfg = spec['shard']
    nthreads = cfg.get('nthreads', 4)
    seed = derive_seed(spec['seed'], 'C19', cfg['name'], spec.get('attempt', 0))

    # evidence that builders really overlapped: a counting wrapper around the
    # method (the wrapped code object is the library's own, unchanged)
    orig = Env._envgen_format
    inside = [0]
    round_max = [0]

    def counted(self):
        inside[0] += 1
        if inside[0] > round_max[0]:
            round_max[0] = inside[0]
        try:
            return orig(self)
        finally:
            inside[0] -= 1
    Env._envgen_format = counted

    inj = Injector([func_code(orig)], seed)
    inj.p_yield = cfg.get('p_yield', 0.25)
    inj.max_sleep = 0.0003
    inj.start()
    old_switch = sys.getswitchinterval()
    sys.setswitchinterval(5e-5)

    start = threading.Barrier(nthreads + 1)
    done = threading.Barrier(nthreads + 1)
    cur = {'env': None, 'ops': None, 'stop': False}
    results = [None] * nthreads

    def worker(k):
        while True:
            start.wait()
            if cur['stop']:
                return
            env, op = cur['env'], cur['ops'][k]
            try:
                if op == 'format':
                    r = ('format', [list(t) for t in env._envgen_format()])
                elif op == 'control':
                    r = ('format', [list(t) for t in env._as_control_input()])
                else:
                    r = ('at', env._at(op[1]))
            except Exception as e:       # judged by the main thread
                r = ('raised', type(e).__name__, short_tb(e))
            results[k] = r
            done.wait()

    threads = [threading.Thread(target=worker, args=(k,), daemon=True)
               for k in range(nthreads)]
    for t in threads:
        t.start()
    try:
        for i in iter_cases(spec):
            rng = case_rng(spec['seed'], 'C19', 'conc', i)
            args, width = gen_multi_env(rng, G)
            snap = copy.deepcopy(args)
            try:
                exp = M.encode(**snap)
                env = Env(**args)
                # single threaded reference for _at from an identical Env
                ref_env = Env(**copy.deepcopy(snap))
                ref_fmt = [list(t) for t in orig(ref_env)]
            except Exception:
                acc.count('conc_skipped_not_encodable')
                continue
            if M.same_arrays(ref_fmt, exp):
                # a sequential deviation is the other shards' subject
                acc.count('conc_skipped_sequential_deviation')
                continue
            nch = len(exp)
            total = max(sum(x for x in arr[5::4]) for arr in exp)
            ops = [rng.choice(['format', 'format', 'control',
                               ('at', rng.choice([0, 0.0, total * 0.5, total,
                                                  total + 1]))])
                   for _ in range(nthreads)]
            cur['env'], cur['ops'] = env, ops
            round_max[0] = 0
            start.wait()
            done.wait()
            acc.case(h64(repr(snap)), nontrivial=nch >= 2)
            acc.count('conc_rounds')
            acc.count('conc_channels', nch)
            if round_max[0] >= 2:
                acc.count('conc_rounds_with_overlapping_builders')
            witness = {'case': i, 'args': snap, 'channels': nch, 'ops': ops,
                       'threads_inside_at_once': round_max[0]}
            bad = None
            for k, r in enumerate(results):
                acc.count('conc_first_use_results_compared')
                if r[0] == 'raised':
                    bad = (k, f'{ops[k]} raised {r[1]}', r[2])
                elif r[0] == 'format':
                    d = M.same_arrays(r[1], exp)
                    if d:
                        bad = (k, f'{ops[k]}: {d} (got {len(r[1])} channels)',
                               r[1][:3])
                else:
                    want = ref_env._at(ops[k][1])
                    if not isinstance(r[1], list) or len(r[1]) != nch \
                            or r[1] != want:
                        bad = (k, f'_at: {len(r[1]) if isinstance(r[1], list) else 1}'
                                  f' values for {nch} channels', r[1])
                if bad:
                    break
            if bad:
                acc.violation('C19/format-differs/concurrent-first-use',
                              dict(witness, thread=bad[0], why=bad[1],
                                   got=bad[2]))
            # the cache afterwards, single threaded
            try:
                again = [list(t) for t in env._envgen_format()]
                d = M.same_arrays(again, exp)
            except Exception as e:
                again, d = None, f'raised {type(e).__name__}'
            acc.count('conc_cache_rechecks')
            if d:
                acc.violation('C19/format-cache-corrupted',
                              dict(witness, why=d, channels_cached=len(again)
                                   if again is not None else None))
            if acc.want_sample() and nch >= 3 and round_max[0] >= 2 \
                    and len(repr(snap)) < 600:
                acc.sample({'case': i, 'args': snap, 'ops': ops,
                            'threads_inside_at_once': round_max[0]})
    finally:
        cur['stop'] = True
        try:
            start.wait(5)
        except Exception:
            pass
        inj.stop()
        sys.setswitchinterval(old_switch)
        Env._envgen_format = orig
    acc.count('conc_injected_yields', inj.injected)
