"""C14 round 10: histories on TWO (or three) event-pattern objects, one derived
from the other.

"A Pbind/Pmono/Ppar/Pchain/Pdur/Pdelta composition ... plays event k at its
start time plus the sum of the preceding deltas" holds for every pattern
object, for what ITS OWN construction says - also when another pattern object
was made from it in the meantime.  The generators of the other workloads build
every object with its constructor and play it; here an object `a` is built, a
second object is derived from it by every route the library (and Python)
offers for event patterns, and BOTH are played, in any order, one after the
other or overlapping, the derivation before, between or while `a` plays:

  chain            a.chain(x)                      (a is a Pchain; x gives keys
                                                    a does not define: stretch,
                                                    ctranspose, legato, detune,
                                                    amp, controls ...)
  ctor-parts       type(a)(*a.patterns, x)         (Pchain, Ppar)
  copy / deepcopy  copy.copy(a), copy.deepcopy(a)  (same meaning as a)
  copy-chain / deepcopy-chain   copy.copy(a).chain(x) ...
  pbind-dict-star / pbind-dict-or   Pbind({**a.dict, **extra}), Pbind(a.dict |
                   extra)                          (a is a Pbind: "Pbindf")
  pbind-dict-edit  b = Pbind(a.dict); b.dict.update(extra)   (the derived
                   object's OWN mapping is edited)
  ctor-parts-edit  b = type(a)(*a.patterns); b.patterns.append(x)   (the
                   derived object's OWN list is edited)
  wrap-<kind>      Pdur(d, a), Pdelta(t, a), Pn(a, n), Ppar(a, e), Pseq([a, e]),
                   Pseq([e, a]), Pchain(x, a), Pchain(a).chain(x)
  stream-consumed  stm.stream(a) of which k events are taken (no object to
                   play: the stream is dropped)
  second derivations: from `a` again, or from the derived object (chain of a
                   chain).

Model (vf/model_events.py, unchanged): every object denotes the pattern spec
its construction says (`model` of the object); a play at time t is that
spec's timeline shifted by t.  All durations lie on the 1/32 grid, play k
starts at a grid time plus 3k/1024, so no two plays ever have events at the
same time; derivations happen 1/2048 before the play that follows them.

Specs (json-able):
  object := {'name', 'build': [...], 'model': pattern spec | None, 'at': time}
  build  := ['spec', pattern]                    (constructor, c14_run.to_pattern)
          | ['pchain-of', [pattern...]]          (Pchain(*operands), 1-2 of them)
          | ['chain', src, x] | ['ctor-parts', src, x] | ['copy', src]
          | ['deepcopy', src] | ['copy-chain', src, x] | ['deepcopy-chain', src, x]
          | ['pbind-dict-star' | 'pbind-dict-or' | 'pbind-dict-edit', src,
             mapping] | ['ctor-parts-edit', src, x]
          | ['wrap-pdur' | 'wrap-pdelta' | 'wrap-pn', src, number]
          | ['wrap-ppar' | 'wrap-pseq-after' | 'wrap-pseq-before', src, pattern]
          | ['wrap-pchain-left', src, pbind] | ['wrap-pchain-chain', src, pbind]
          | ['stream-consumed', src, k]
  play   := {'use': name, 'at': time}
"""

from vf import model_events as me

# keys an extra pattern may add, with values that are not the neutral one
EXTRA = {
    'stretch': [0.5, 2, 0.25, 1.5],
    'ctranspose': [12, -12, 7, 1],
    'legato': [1, 0.5, 0.25, 1.25],
    'detune': [3, -5, 12.5],
    'amp': [0.05, 0.3, 1],
    'pan': [-1, 1, 0.25],
    'foo': [7.5, 2, -1], 'bar': [0.25, 2], 'cutoff': [100, 7.5],
    'index': [2, 0.25], 'zork': [1, 2],
    'mtranspose': [1, -2, 3], 'octave': [3, 4, 6],
}
# (the keys that change what is heard / when: preferred)
LOUD = ['stretch', 'ctranspose', 'legato', 'detune', 'amp', 'stretch',
        'mtranspose', 'octave']


def _leaf_mappings(p, out=None):
    out = [] if out is None else out
    if p[0] == 'pbind':
        out.append(p[1])
    elif p[0] in ('pmono', 'pmono_artic'):
        out.append(p[2])
    elif p[0] in ('ppar', 'pseq'):
        for c in p[1]:
            _leaf_mappings(c, out)
    elif p[0] == 'pchain':
        _leaf_mappings(p[1], out)
        _leaf_mappings(p[2], out)
    else:
        _leaf_mappings(p[2], out)
    return out


def _mono(p):
    if p[0] in ('pmono', 'pmono_artic'):
        return True
    if p[0] == 'pbind':
        return False
    if p[0] in ('ppar', 'pseq'):
        return any(_mono(c) for c in p[1])
    return _mono(p[2])


def _defined(p):
    names = set()
    for m in _leaf_mappings(p):
        names |= set(me.mapping_names(m))
    return names


def _fractional_degree(p):
    for m in _leaf_mappings(p):
        for k in ('degree', 'mtranspose'):
            v = m.get(k)
            vs = me.values(v) if v is not None else []
            for x in ([v] if vs is None else vs):
                x = me.num(x)
                if isinstance(x, (int, float)) and x != int(x):
                    return True
    return False


def extra_pbind(rng, base, n, used=(), finite=True):
    """A Pbind of 1-3 keys the patterns of `base` (and `used`) do not define;
    finite: at least one column that ends (after n-1 .. n+2 rows)."""
    from vf import c14_gen as gen
    taken = _defined(base) | set(used)
    free = [k for k in EXTRA if k not in taken]
    if _fractional_degree(base) or 'freq' in taken:
        # (one input class per event: no ctranspose on a fractional degree)
        free = [k for k in free if k != 'ctranspose']
    if 'delta' in taken and 'sustain' in taken:
        free = [k for k in free if k not in ('stretch', 'legato')]
    loud = [k for k in LOUD if k in free]
    keys = []
    if loud:
        keys.append(rng.choice(loud))
    for k in rng.sample(free, min(len(free), rng.randint(0, 2))):
        if k not in keys:
            keys.append(k)
    if not keys:
        keys = ['c14extra']
    m = {}
    nx = max(1, n + rng.choice([0, 0, 0, 1, 2, -1]))
    for j, k in enumerate(keys):
        choices = EXTRA.get(k, [1, 2])
        if j == 0 and finite:
            m[k] = gen._column(rng, nx, choices, 0.0)
        else:
            m[k] = gen._column(rng, nx, choices, 0.6)
    return ['pbind', m]


def _rows(p):
    return len(me.timeline(p).items)


def _cut(rng, total):
    steps = max(1, int(total * 16))
    return rng.choice([rng.randint(1, steps) / 16.0,
                       rng.randint(1, steps + 8) / 16.0])


def _derive(rng, insts, tags, src, name, family, used):
    """One derivation from object `src` ({'name', 'model', 'kind'}): (build,
    model, kind of the new object, keys its extras define)."""
    from vf import c14_gen as gen
    m = src['model']
    kind = src['kind']
    tl = me.timeline(m)
    n = max(1, len(tl.items))
    hows = ['copy', 'deepcopy', 'wrap-pdur', 'wrap-pdelta', 'wrap-pn',
            'wrap-ppar', 'wrap-pseq-after', 'wrap-pseq-before',
            'stream-consumed']
    if kind == 'pchain':
        hows = ['chain'] * 6 + ['ctor-parts', 'ctor-parts', 'ctor-parts-edit',
                                'ctor-parts-edit', 'copy-chain',
                                'copy-chain', 'deepcopy-chain', 'copy',
                                'deepcopy', 'wrap-pchain-left', 'wrap-pdur',
                                'stream-consumed']
    elif kind == 'ppar':
        hows = ['ctor-parts'] * 3 + ['ctor-parts-edit'] * 2 + hows
    elif kind == 'pbind':
        hows = ['pbind-dict-star'] * 3 + ['pbind-dict-or'] * 2 + [
            'pbind-dict-edit'] * 3 + [
            'wrap-pchain-left', 'wrap-pchain-chain', 'wrap-pchain-chain'] \
            + hows
    if _mono(m):
        # (a Pmono chained with another stream is a class of its own; a mono
        # stream that is consumed outside a player releases a node nobody
        # created when it ends: harness misuse)
        hows = [h for h in hows if 'pchain' not in h
                and h != 'stream-consumed']
    how = rng.choice(hows)
    s = src['name']
    if how in ('copy', 'deepcopy'):
        return [how, s], m, kind, []
    if how == 'stream-consumed':
        return [how, s, rng.randint(1, n + 1)], None, None, []
    if how in ('chain', 'copy-chain', 'deepcopy-chain') or (
            how in ('ctor-parts', 'ctor-parts-edit') and kind == 'pchain'):
        x = extra_pbind(rng, m, n, used)
        return [how, s, x], _chained(m, x), 'pchain', list(x[1])
    if how in ('ctor-parts', 'ctor-parts-edit'):     # Ppar(*a.patterns, e)
        e = gen.composition(rng, insts, tags, False, 2)
        return [how, s, e], ['ppar', list(m[1]) + [e]], 'ppar', []
    if how in ('pbind-dict-star', 'pbind-dict-or', 'pbind-dict-edit'):
        x = extra_pbind(rng, m, n, used, finite=False)
        return [how, s, x[1]], ['pbind', {**m[1], **x[1]}], 'pbind', \
            list(x[1])
    if how == 'wrap-pdur':
        d = _cut(rng, tl.total)
        return [how, s, d], ['pdur', d, m], 'pdur', []
    if how == 'wrap-pdelta':
        t = rng.choice([0.0625, 0.25, 0.5, 1])
        return [how, s, t], ['pdelta', t, m], 'pdelta', []
    if how == 'wrap-pn':
        k = rng.randint(2, 3)
        return [how, s, k], ['pn', k, m], 'pn', []
    if how in ('wrap-ppar', 'wrap-pseq-after', 'wrap-pseq-before'):
        e = gen.composition(rng, insts, tags, False, 2)
        if how == 'wrap-ppar':
            return [how, s, e], ['ppar', [m, e]], 'ppar', []
        parts = [m, e] if how == 'wrap-pseq-after' else [e, m]
        return [how, s, e], ['pseq', parts], 'pseq', []
    if how == 'wrap-pchain-left':
        # Pchain(x, a): x overrides; a varying x only over a sequential a
        x = extra_pbind(rng, m, n, used, finite=False)
        if not tl.sequential:
            x = ['pbind', {k: (v if me.values(v) is None else me.values(v)[0])
                           for k, v in x[1].items()}]
        return [how, s, x], ['pchain', x, m], 'pchain-wrap', list(x[1])
    if how == 'wrap-pchain-chain':
        # Pchain(a).chain(x): a (a Pbind) overrides x
        x = extra_pbind(rng, m, n, used)
        return [how, s, x], ['pchain', m, x], 'pchain', list(x[1])
    raise ValueError(how)


def _chained(m, x):
    """Model of Pchain(*operands of m, x): the operands left of x override it.
    m: a Pbind (a chain of one operand), ['pchain', L, R] with R a Pbind, or
    such a chain whose R is a chain again."""
    if m[0] == 'pbind':
        return ['pchain', m, x]
    return ['pchain', m[1], _chained(m[2], x)]


def derive_case(rng, insts, tags):
    from vf import c14_gen as gen
    r = rng.random()
    mono = False
    if r < 0.4:
        # a Pchain of one or two operands (the right one a Pbind)
        right = gen.pbind_spec(rng, insts, tags, False)
        n = _rows(right)
        if rng.random() < 0.3:
            build, model = ['pchain-of', [right]], right
        else:
            left = gen._chain_left(rng, n, constant=rng.random() < 0.4)
            build, model = ['pchain-of', [left, right]], \
                ['pchain', left, right]
        kind = 'pchain'
    elif r < 0.55:
        cs = [gen.composition(rng, insts, tags, False, 2)
              for _ in range(rng.randint(2, 3))]
        build, model, kind = ['spec', ['ppar', cs]], ['ppar', cs], 'ppar'
        mono = any(gen._has(c, 'pmono') for c in cs)
    elif r < 0.8:
        pb = gen.pbind_spec(rng, insts, tags, False)
        build, model, kind = ['spec', pb], pb, 'pbind'
    else:
        comp = gen.composition(rng, insts, tags, False, 1)
        build, model, kind = ['spec', comp], comp, comp[0]
        if kind in ('pbind', 'ppar', 'pchain'):
            kind = 'other-' + kind      # (no parts-based derivations)
        mono = gen._has(comp, 'pmono')
    a = {'name': 'a', 'build': build, 'model': model, 'kind': kind,
         'mono': mono}
    objs = [a]
    used = []
    for name in ('b', 'c')[:rng.choice([1, 1, 1, 2, 2])]:
        playable = [o for o in objs if o['model'] is not None]
        src = a if name == 'b' or rng.random() < 0.5 else playable[-1]
        bd, md, kd, keys = _derive(rng, insts, tags, src, name, None, used)
        used += keys
        objs.append({'name': name, 'build': bd, 'model': md, 'kind': kd,
                     'mono': src.get('mono'), 'src': src['name']})
    # ---- the history: plays of the original and of the derived objects
    playable = [o['name'] for o in objs[1:] if o['model'] is not None]
    order = rng.choice(['derived-first', 'original-first',
                        'original-before-the-derivation', 'mixed'])
    seq = []
    if order == 'derived-first':
        seq = playable + ['a']
    elif order == 'original-first':
        seq = ['a'] + playable
    elif order == 'original-before-the-derivation':
        seq = ['a', 'D'] + playable + ['a']
    else:
        seq = ['a'] + playable + playable[:1] + ['a']
        rng.shuffle(seq)
    if not playable and 'D' not in seq:
        seq = rng.choice([['a'], ['a', 'D', 'a'], ['D', 'a']])
    if rng.random() < 0.3:
        seq.append(rng.choice(['a'] + playable))
    overlap = rng.random() < 0.4
    models = {o['name']: o['model'] for o in objs}
    plays, t, k = [], 0.0, 0
    derive_at = 0.0
    for s_ in seq:
        if s_ == 'D':
            # the derivations happen here: after the plays so far were
            # started (overlap: while they run), before the next one
            derive_at = None
            continue
        at = t + 3.0 * k / 1024.0
        if derive_at is None:
            derive_at = max(0.0, at - 1.0 / 2048.0)
        plays.append({'use': s_, 'at': at})
        total = me.timeline(models[s_]).total
        if overlap:
            t += rng.choice([0.0625, 0.25, 0.5, 1])
        else:
            t += (int(total * 32) + 1) / 32.0 + rng.choice([0, 0.25, 1])
        k += 1
    if derive_at is None:
        derive_at = t + 3.0 * k / 1024.0
    for o in objs[1:]:
        o['at'] = derive_at
    a['at'] = 0.0
    return {'form': 'derive', 'objects': objs, 'plays': plays,
            'order': order, 'overlap': overlap, 'offgrid': False,
            'latency': rng.choice([0, 0, 0.05, 0.25, 0.015625]),
            'clock': rng.choice(['default', 'system', 'tempo']),
            'proto': rng.choice([None, None, 'event'])}


# ------------------------------------------------------------------ running

def _build(o, objs):
    """The real object of spec `o` (objs: name -> real object)."""
    import copy
    from vf import c14_run as run
    from sc3.base import stream as stm
    from sc3.seq.event import event
    from sc3.seq.patterns.eventpatterns import Pbind, Pchain, Ppar
    from sc3.seq.patterns.filterpatterns import Pdur, Pdelta, Pn
    from sc3.seq.patterns.listpatterns import Pseq
    b = o['build']
    how = b[0]
    if how == 'spec':
        return run.to_pattern(b[1])
    if how == 'pchain-of':
        return Pchain(*[run.to_pattern(p) for p in b[1]])
    src = objs[b[1]]
    if how == 'chain':
        return src.chain(run.to_pattern(b[2]))
    if how == 'ctor-parts':
        return type(src)(*src.patterns, run.to_pattern(b[2]))
    if how == 'ctor-parts-edit':
        new = type(src)(*src.patterns)
        new.patterns.append(run.to_pattern(b[2]))
        return new
    if how == 'pbind-dict-edit':
        new = Pbind(src.dict)
        new.dict.update(run.to_pattern(['pbind', b[2]]).dict)
        return new
    if how == 'copy':
        return copy.copy(src)
    if how == 'deepcopy':
        return copy.deepcopy(src)
    if how == 'copy-chain':
        return copy.copy(src).chain(run.to_pattern(b[2]))
    if how == 'deepcopy-chain':
        return copy.deepcopy(src).chain(run.to_pattern(b[2]))
    if how == 'pbind-dict-star':
        return Pbind({**src.dict, **run.to_pattern(['pbind', b[2]]).dict})
    if how == 'pbind-dict-or':
        return Pbind(src.dict | run.to_pattern(['pbind', b[2]]).dict)
    if how == 'wrap-pdur':
        return Pdur(b[2], src)
    if how == 'wrap-pdelta':
        return Pdelta(b[2], src)
    if how == 'wrap-pn':
        return Pn(src, b[2])
    if how == 'wrap-ppar':
        return Ppar(src, run.to_pattern(b[2]))
    if how == 'wrap-pseq-after':
        return Pseq([src, run.to_pattern(b[2])])
    if how == 'wrap-pseq-before':
        return Pseq([run.to_pattern(b[2]), src])
    if how == 'wrap-pchain-left':
        return Pchain(run.to_pattern(b[2]), src)
    if how == 'wrap-pchain-chain':
        return Pchain(src).chain(run.to_pattern(b[2]))
    if how == 'stream-consumed':
        s = stm.stream(src)
        try:
            for _ in range(b[2]):
                s.next(event())
        except stm.StopStream:
            pass
        return None
    raise ValueError(how)


def variant(case, upto=None, only_original=False):
    """The case with the derivations up to object index `upto` only (the
    plays of later objects dropped), optionally with the plays of the
    original alone."""
    objs = case['objects'] if upto is None else case['objects'][:upto + 1]
    names = {o['name'] for o in objs}
    plays = [p for p in case['plays'] if p['use'] in names
             and (not only_original or p['use'] == 'a')]
    return dict(case, objects=objs, plays=plays)


def run_derive_case(case):
    from vf import c14_run as run
    from sc3.base.stream import Routine
    from sc3.base.clock import SystemClock
    from sc3.synth.server import Server
    cap = run.Capture()
    s = Server.default
    old = s.latency
    s.latency = case['latency']
    objs = {}
    actions = [(o['at'], 0, 'build', o) for o in case['objects']]
    actions += [(p['at'], 1, 'play', p) for p in case['plays']]
    actions.sort(key=lambda a: (a[0], a[1]))
    proto = run._proto_for(case)
    limit = 2 * max([a[0] for a in actions] + [
        p['at'] + me.timeline(_models(case)[p['use']]).total
        for p in case['plays']]) + 60

    def do(what, x, clock):
        if what == 'build':
            objs[x['name']] = _build(x, objs)
        else:
            objs[x['use']].play(clock, 0, proto=proto)

    def body():
        now = 0.0
        clock = run._clock_for(case['clock'])
        for t, _, what, x in actions:
            if t > now:
                yield t - now
                now = t
            do(what, x, clock)
    try:
        try:
            # what happens at time 0 before anything plays: outside the
            # routine (a derivation that raises is a verdict, not a log line)
            while actions and actions[0][0] == 0.0 and actions[0][2] == 'build':
                do('build', actions.pop(0)[3], None)
        except Exception as e:      # noqa
            cap.raised = e
            cap.extra['raised_in'] = 'derivation'
            return cap
        Routine(body).play(SystemClock)
        run.collect(cap, limit)
    finally:
        s.latency = old
    return cap


def _models(case):
    return {o['name']: o['model'] for o in case['objects']}


def expect_derive(case, info, groups):
    from vf import c14_run as run
    ex = run.Expect()
    ex.group_id = groups['id']
    ex.flags = set()
    L = case['latency']
    models = _models(case)
    end = max([o['at'] for o in case['objects']] + [0.0])
    ex.plays = []
    for pl in case['plays']:
        tl = me.timeline(models[pl['use']])
        ex.flags |= tl.flags
        first = len(ex.notes)
        for onset, e in tl.items:
            if e.rest:
                ex.rests += 1
                if 'tag' in e.keys:
                    ex.rest_tags.add(e.keys['tag'])
                continue
            if e.kind == 'mono_set':
                ex.sets.append({'tag': e.keys['tag'],
                                'time': pl['at'] + onset + L,
                                'mono': e.mono[0], 'ev': e.keys,
                                'res': me.resolve(e.keys),
                                'desc': info[e.mono[1]]})
            else:
                ex.notes.append(run.expect_note(e.keys, pl['at'] + onset, L,
                                                info, groups, e.kind, e.mono))
        monos = {n['mono'] for n in ex.notes[first:] if n['mono'] is not None}
        for t, m_, exact in tl.releases:
            if m_ in monos:
                ex.releases.append({'mono': m_, 'time': pl['at'] + t + L,
                                    'exact': exact})
        end = max(end, pl['at'] + tl.total, pl['at'])
        ex.plays.append((pl, tl))
    ex.total, ex.total_upper = end, None
    return ex


def failed(case, info, groups):
    from vf import c14_run as run
    cap = run_derive_case(case)
    if cap.raised is not None or cap.task_errors:
        return True
    ex = expect_derive(case, info, groups)
    return bool(run.compare(ex, cap, run._NoCount(), 'derive', False))


def _chain_operands(p):
    """Operands of a chain model, leftmost first (['pchain', L, ['pchain', R,
    X]] is Pchain(L, R, X) when R is a Pbind)."""
    if p[0] != 'pchain':
        return [p]
    return [p[1]] + (_chain_operands(p[2]) if p[2][0] == 'pchain'
                     and p[1][0] == 'pbind' else [p[2]])


def _ends_by_a_later_asked_operand(p):
    """A Pchain asks its operands from right to left for every event; it
    ENDS BY AN OPERAND OTHER THAN THE RIGHTMOST when the rightmost one is
    not (one of) the shortest: that event is then left unfinished."""
    if p[0] in ('pdelta', 'pdur', 'pevent'):
        return _ends_by_a_later_asked_operand(p[2])
    if p[0] == 'pseq':
        return bool(p[1]) and _ends_by_a_later_asked_operand(p[1][-1])
    if p[0] == 'pn':
        return _ends_by_a_later_asked_operand(p[2])
    if p[0] != 'pchain':
        return False
    ops = _chain_operands(p)
    lens = []
    for o in ops:
        try:
            lens.append(len(me.timeline(o).items) if o[0] != 'pbind'
                        else len(me._bind_events(o[1])))
        except ValueError:      # a mapping of constants: endless
            lens.append(float('inf'))
    return lens[-1] > min(lens) or _ends_by_a_later_asked_operand(ops[-1])


def unfinished_chain_event_in_sequence(p):
    """The model `p` holds a sequence (Pseq part that is not the last, Pn
    body repeated) of a Pchain that ends by an operand other than its
    rightmost one - the situation of proposed_fixes/C14-pchain-returns-
    unfinished-event.md."""
    kind = p[0]
    if kind in ('pbind', 'pmono', 'pmono_artic'):
        return False
    if kind == 'pseq':
        return any(_ends_by_a_later_asked_operand(c) for c in p[1][:-1]) \
            or any(unfinished_chain_event_in_sequence(c) for c in p[1])
    if kind == 'pn':
        return (p[1] > 1 and _ends_by_a_later_asked_operand(p[2])) \
            or unfinished_chain_event_in_sequence(p[2])
    if kind == 'ppar':
        return any(unfinished_chain_event_in_sequence(c) for c in p[1])
    if kind == 'pchain':
        return unfinished_chain_event_in_sequence(p[2])
    return unfinished_chain_event_in_sequence(p[2])


def culprit(case, info, groups):
    """(what, how, index of the object): which derivation a difference belongs
    to.  The
    derivations are added one at a time; the first one with which the case
    fails is the culprit, `what` says whether the plays of the ORIGINAL alone
    already differ then ('original-altered-by') or only those of the derived
    object ('derived-object-differs').  ('base-pattern', kind): the original
    differs without any derivation."""
    try:
        if failed(variant(case, 0), info, groups):
            return 'base-pattern', case['objects'][0]['kind'], 0
        for j in range(1, len(case['objects'])):
            how = case['objects'][j]['build'][0]
            if failed(variant(case, j, only_original=True), info, groups):
                return 'original-altered-by', how, j
            if failed(variant(case, j), info, groups):
                return 'derived-object-differs', how, j
    except Exception:       # noqa
        pass
    return 'history-differs', '+'.join(
        o['build'][0] for o in case['objects'][1:]), None
