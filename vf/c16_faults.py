"""C16 helper: operations of client objects that FAIL HALF WAY (no sc3 import).

Class of behaviour: a Buffer / Bus constructor (or a deferred alloc, or a
free) that has already touched the server's number allocator - or was given a
number by the caller - and then raises (the user's completion function raises,
the OSC encoder refuses the completion message or an argument, a required
argument is missing), followed by continued allocation.  What the property
demands of such a history:

  * nothing that is live may be released by the failed operation: a number
    passed in by the caller (``bufnum=`` / ``index=``) belongs to the caller
    (possibly to another live object) and is never the failed object's to
    return;
  * a number the failed constructor took from the allocator itself may be
    either kept (it then counts as live: the allocator never hands it out
    again) or returned - both are safe, the statement does not decide;
  * an object the caller still holds after a failed alloc()/free() is either
    intact (number still in the allocator) or fully freed (number returned
    and object without number) - never half of each, or a retry releases the
    number a second time, possibly under its next owner.

This module only generates the faults and reconciles the reference model
with numbers a failed automatic constructor may legitimately have kept.
"""


class InjectedFault(Exception):
    """Raised by the user's completion function."""


def _unencodable(rng):
    return rng.choice([
        lambda: ['/b_query', 2 ** 70],               # int out of OSC range
        lambda: ['/b_query', object()],              # not an OSC type
        lambda: ['/b_set', 0, 0, 1.0, {}],           # not an OSC type
        lambda: ['/b_query', ['/b_query', object()]],  # nested, inner not encodable
    ])()


FAULT_KINDS = ('user-function-raises', 'function-returns-unencodable',
               'message-unencodable')


def gen_fault(rng, at=0):
    """Returns (kind, completion_msg, member the fault hits).

    completion_msg is what the caller passes as ``completion_msg`` /
    ``completion function``; function faults hit only the group member number
    ``at`` (Buffer.new_consecutive evaluates the function with (buffer, i)),
    a literal message hits the first member that is sent."""
    kind = rng.choice(FAULT_KINDS)
    if kind == 'message-unencodable':
        return kind, _unencodable(rng), 0
    bad = _unencodable(rng)

    def completion(*args):
        i = args[1] if len(args) > 1 else 0
        if i != at:
            return None
        if kind == 'user-function-raises':
            raise InjectedFault('completion function of the user failed')
        return bad
    return kind, completion, at


# how the faulty single-buffer constructor is spelled
SINGLE_CTORS = ('init', 'init', 'init', 'init-frames-none', 'new_cue',
                'new_read', 'new_read_channel')
DEFERRED_ALLOCS = ('alloc', 'alloc', 'alloc_read', 'alloc_read_channel')


def pick_number(rng, model, n=1, want=None):
    """An explicit number for a constructor: (class, number) or None.

    classes: 'live' start of a live range, 'live-interior' inside a live range
    of more than one number, 'free' inside the partition and not live,
    'foreign' a number of the reserved zone / of another client."""
    classes = ['live'] * 5 + ['live-interior', 'free', 'free', 'foreign']
    for _ in range(4):
        cls = want or rng.choice(classes)
        if cls == 'live' and model.live:
            return cls, rng.choice(sorted(model.live))
        if cls == 'live-interior':
            groups = sorted(a for a, m in model.live.items() if m > 1)
            if groups:
                a = rng.choice(groups)
                return cls, a + rng.randint(1, model.live[a] - 1)
        if cls == 'free':
            free = [k + model.lo for k, u in enumerate(model.used) if not u]
            if free:
                return cls, rng.choice(free)
        if cls == 'foreign':
            cands = list(range(max(0, model.offset - model.size - 2), model.lo)) + \
                list(range(model.hi, model.hi + 3))
            if cands:
                return cls, rng.choice(cands)
        want = None
    return None


def adopt_kept(model, got, auto_n=None, explicit=None):
    """Numbers the allocator reports live beyond the model's live set after an
    operation that did not hand anything to the caller.  Acceptable are: ONE
    range of the requested length that the failed automatic constructor took
    itself and did not return (auto_n), or ranges inside the explicit range
    the caller named (a constructor may mark the caller's numbers as used),
    in both cases only where nothing is live and inside the partition.  They
    become live in the model (never to be handed out again).  Returns the
    number of ranges adopted; whatever else differs is left for
    BitmapModel.judge_blocks to name."""
    kept = 0
    for a, n in sorted(set(got) - model.live_set()):
        ok = False
        if auto_n is not None and kept == 0 and n == auto_n:
            ok = True
        elif explicit is not None and explicit[0] <= a and \
                a + n <= explicit[0] + explicit[1]:
            ok = True
        if ok and n >= 1 and model.judge_alloc(n, a):
            kept += 1
    return kept


def selftest():
    import random
    from vf.model_alloc import BitmapModel
    m = BitmapModel(16, 2, 32)
    assert m.judge_alloc(3, 34) and m.judge_alloc(1, 40)
    # a failed automatic constructor kept one number: adopted
    assert adopt_kept(m, {(34, 3), (40, 1), (37, 1)}, auto_n=1) == 1
    assert m.judge_blocks({(34, 3), (40, 1), (37, 1)})
    # ... but not two, not over live numbers, not with explicit numbers
    assert adopt_kept(m, {(34, 3), (40, 1), (37, 1), (41, 1), (42, 1)}, auto_n=1) == 1
    assert not m.judge_blocks({(34, 3), (40, 1), (37, 1), (41, 1), (42, 1)})
    m2 = BitmapModel(16, 2, 32)
    assert m2.judge_alloc(3, 34)
    assert adopt_kept(m2, {(34, 3), (38, 1)}, explicit=(40, 1)) == 0
    assert adopt_kept(m2, {(34, 3), (38, 1)}, explicit=(38, 1)) == 1
    # a lost live block is never repaired by adoption
    assert adopt_kept(m2, {(38, 1)}, auto_n=1) == 0
    v = m2.judge_blocks({(38, 1)})
    assert not v and v.mech == 'live-set-differs/lost-live-block'
    rng = random.Random(1)
    for at in (0, 2):
        for _ in range(20):
            kind, comp, hit = gen_fault(rng, at)
            if callable(comp):
                assert comp(None, at + 1) is None
                try:
                    r = comp(None, at)
                    assert kind == 'function-returns-unencodable' and r
                except InjectedFault:
                    assert kind == 'user-function-raises'
            else:
                assert hit == 0 and isinstance(comp, list)
    assert pick_number(rng, m, want='live')[1] in m.live
    c, x = pick_number(rng, m, want='live-interior')
    assert c == 'live-interior' and 34 < x < 37
    c, x = pick_number(rng, m, want='foreign')
    assert c == 'foreign' and not (m.lo <= x < m.hi)
    return True
