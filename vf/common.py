"""Shared helpers: seeds, case hashing, per-shard accumulator.

No sc3 import here: this module is used by the driver (which never imports
sc3) and by workers.
"""

import hashlib
import json
import os
import random
import time
import traceback

VERIF_DIR = os.path.dirname(os.path.dirname(os.path.abspath(__file__)))
REPO = os.environ.get('VERIF_REPO', '/repo')

MAX_TRACKED_HASHES = 400_000     # per shard; count beyond is conservative
MAX_WITNESSES_PER_KEY = 3
MAX_SAMPLES = 4


def derive_seed(base, *parts):
    h = hashlib.sha256(repr((int(base),) + tuple(parts)).encode()).digest()
    return int.from_bytes(h[:8], 'big')


def case_rng(base, prop, shard, index):
    return random.Random(derive_seed(base, prop, shard, index))


def h64(obj):
    """Stable 64-bit hash of a JSON-able / repr-able object."""
    if not isinstance(obj, (bytes, bytearray)):
        obj = repr(obj).encode()
    return int.from_bytes(hashlib.blake2b(obj, digest_size=8).digest(), 'big')


def jsonable(obj, depth=0):
    """Best-effort conversion of a witness to JSON."""
    if depth > 12:
        return repr(obj)
    if obj is None or isinstance(obj, (bool, int, str)):
        return obj
    if isinstance(obj, float):
        if obj != obj or obj in (float('inf'), float('-inf')):
            return repr(obj)
        return obj
    if isinstance(obj, (bytes, bytearray)):
        return {'hex': bytes(obj).hex()}
    if isinstance(obj, dict):
        return {str(k): jsonable(v, depth + 1) for k, v in obj.items()}
    if isinstance(obj, (list, tuple, set, frozenset)):
        return [jsonable(v, depth + 1) for v in obj]
    return repr(obj)


class Acc:
    """Per-shard result accumulator (single-threaded use, or under the
    library's main lock; the few multi-threaded users take acc.lock)."""

    def __init__(self, prop, shard_name, seed, tier):
        import threading
        self.prop = prop
        self.shard = shard_name
        self.seed = seed
        self.tier = tier
        self.lock = threading.Lock()
        self.evaluations = 0
        self.nontrivial = set()
        self.nontrivial_overflow = 0
        self.counters = {}
        self.samples = []
        self.violations = {}       # key -> {'count': n, 'witnesses': [...]}
        self.inconclusive = []
        self.extra = {}
        self.t0 = time.time()

    # -- cases ---------------------------------------------------------
    def case(self, key=None, nontrivial=True):
        self.evaluations += 1
        if nontrivial and key is not None:
            if len(self.nontrivial) < MAX_TRACKED_HASHES:
                self.nontrivial.add(key if isinstance(key, int) else h64(key))
            else:
                self.nontrivial_overflow += 1

    def count(self, name, n=1):
        self.counters[name] = self.counters.get(name, 0) + n

    def maxi(self, name, v):
        if v > self.counters.get(name, float('-inf')):
            self.counters[name] = v

    def sample(self, obj, force=False):
        if len(self.samples) < MAX_SAMPLES or force:
            self.samples.append(jsonable(obj))

    def want_sample(self):
        return len(self.samples) < MAX_SAMPLES

    # -- verdicts ------------------------------------------------------
    def violation(self, key, witness):
        """key: mechanism key ('C06/size-underpredicted/blob-pad'); witness:
        json-able dict with everything needed to replay the case."""
        ent = self.violations.setdefault(key, {'count': 0, 'witnesses': []})
        ent['count'] += 1
        if len(ent['witnesses']) < MAX_WITNESSES_PER_KEY:
            w = jsonable(witness)
            if isinstance(w, dict):
                w.setdefault('shard', self.shard)
                w.setdefault('seed', self.seed)
            ent['witnesses'].append(w)

    def n_violations(self):
        return sum(v['count'] for v in self.violations.values())

    def mark_inconclusive(self, reason):
        self.inconclusive.append(str(reason))

    def elapsed(self):
        return time.time() - self.t0

    def dump(self):
        return {
            'prop': self.prop, 'shard': self.shard, 'seed': self.seed,
            'evaluations': self.evaluations,
            'nontrivial': sorted(self.nontrivial),
            'nontrivial_overflow': self.nontrivial_overflow,
            'counters': self.counters,
            'samples': self.samples,
            'violations': self.violations,
            'inconclusive': self.inconclusive,
            'extra': jsonable(self.extra),
            'wall_s': self.elapsed(),
        }


class Budget:
    """Case budget: at most n cases and at most secs seconds."""

    def __init__(self, n, secs):
        self.n = n
        self.deadline = time.time() + secs
        self.i = 0

    def __iter__(self):
        return self

    def __next__(self):
        if self.i >= self.n or time.time() > self.deadline:
            raise StopIteration
        self.i += 1
        return self.i - 1


def short_tb(exc, limit=6):
    return ''.join(traceback.format_exception(
        type(exc), exc, exc.__traceback__, limit=-limit))[-1500:]


def tb_sites(exc, under='sc3'):
    """(file basename, function) pairs of the traceback frames inside the
    library, innermost last - used by classifiers to key on the raising site."""
    out = []
    tb = exc.__traceback__
    while tb is not None:
        fn = tb.tb_frame.f_code.co_filename
        if f'/{under}/' in fn:
            out.append((os.path.basename(fn), tb.tb_frame.f_code.co_name))
        tb = tb.tb_next
    return out


def iter_cases(spec, n=None, secs=None):
    """Case indices of a shard: honours --replay (only_case) and the shard's
    n / secs budget."""
    if spec.get('only_case') is not None:
        yield int(spec['only_case'])
        return
    sh = spec['shard']
    n = sh.get('n', n if n is not None else 1000)
    secs = sh.get('secs', secs if secs is not None else 60)
    start = sh.get('first_case', 0)
    if sh.get('mode', 'nrt') == 'nrt' and not os.environ.get('VF_WALL_BUDGET'):
        # single-threaded shards: the budget is processor time of this worker, so
        # that a loaded host (other checks, other users) does the same amount of
        # work, only later; wall clock bounded well inside the shard's hard timeout
        hard = float(sh.get('hard_timeout', secs + 120))
        wall_cap = time.time() + min(3.0 * secs, secs + 0.6 * max(0.0, hard - secs))
        cpu0 = time.process_time()
        for i in range(start, start + n):
            if time.process_time() - cpu0 > secs or time.time() > wall_cap:
                return
            yield i
        return
    deadline = time.time() + secs
    for i in range(start, start + n):
        if time.time() > deadline:
            return
        yield i


def split(total, parts):
    """Shard sizes and offsets: [(first, n), ...]."""
    base, rem = divmod(total, parts)
    out, first = [], 0
    for p in range(parts):
        n = base + (1 if p < rem else 0)
        out.append((first, n))
        first += n
    return out
