"""C18 pattern workload: generated (OSC 1.0 pattern, address) pairs decided by
the independent matcher vf.model_dispatch.osc_match and by the library's real
matching dispatcher (the object registered as OSC receive function), called
directly under the main lock for the bulk and through
`_handle_request` + SystemClock for every fifth pattern."""

from . import osc
from . import c18_gen as gen
from .common import iter_cases, case_rng, h64
from .model_dispatch import (osc_match, classify_pattern_disagreement,
                             pattern_features, pattern_key, selftest)

N_PATHS = 12
N_PATTERNS = 10


def run(spec, acc):
    from .c18_rig import Rig, tb_sites, exc_name
    from sc3.base.responders import OscFunc
    from sc3.base.netaddr import NetAddr
    selftest(); gen.selftest(); osc.selftest()
    rig = Rig()
    main = rig.main
    disp = OscFunc._default_matching_dispatcher
    sender = ('127.0.0.1', 4001)
    naddr = NetAddr(*sender)
    uid = 0
    for i in iter_cases(spec):
        rng = case_rng(spec['seed'], 'C18', 'pat', i)
        odd = rng.choice([0.0, 0.1, 0.3])
        paths = set()
        while len(paths) < N_PATHS:
            base = gen.rand_path(rng, odd)
            for p in gen.related_paths(rng, base):
                if len(paths) < N_PATHS:
                    paths.add(p)
        paths = sorted(paths)
        objs = [OscFunc.matching(rig.make_cb(k, 0, 4), p) for k, p in enumerate(paths)]
        group_log = []
        nontrivial = False
        try:
            for j in range(N_PATTERNS):
                target = rng.choice(paths) if rng.random() < 0.85 else gen.rand_path(rng, odd)
                pat = gen.pattern_for(rng, target)
                exp = {k: osc_match(pat, p) for k, p in enumerate(paths)}
                feats = pattern_features(pat)
                uid += 1
                via_clock = (j % 5 == 0)
                rig.inv.clear(); rig.errs.clear()
                err = None
                if via_clock:
                    res = rig.deliver(osc.enc_msg(pat, uid), sender)
                    if res.clock_step:
                        acc.count('deliveries_dropped_host_clock_step')
                        continue
                    inv = res.inv
                    errs = [e for e in res.errs if e['exc']]
                    if res.escaped or res.hangs or not res.canary_ok:
                        acc.violation('C18/receiver-broken-by-valid-message',
                                      {'case': i, 'pattern': pat, 'res': res.witness()})
                        continue
                    if errs:
                        e = errs[0]
                        err = (e['exc'], e['sites'][-1][1] if e['sites'] else e['logger'],
                               e['exc_str'])
                    acc.count('pattern_messages_via_clock')
                else:
                    try:
                        with main._main_lock:
                            disp([pat, uid], 0.0, naddr, rig.itf.port)
                    except Exception as e:
                        s = tb_sites(e)
                        err = (exc_name(e), s[-1][1] if s else 'harness', str(e)[:200])
                    inv = list(rig.inv)
                if err:
                    acc.violation(f'C18/dispatch-raises/{err[0]}/{err[1]}',
                                  {'case': i, 'pattern': pat, 'paths': paths, 'err': err[2]})
                    continue
                fired = {}
                for e in inv:
                    if e[0] == 'inv' and e[3] == [pat, uid]:
                        fired[e[1]] = fired.get(e[1], 0) + 1
                n_match = sum(exp.values())
                acc.count('pattern_pairs', len(paths))
                acc.count('pattern_pairs_expected_match', n_match)
                for f in feats:
                    acc.count('pattern_feature/' + f)
                if feats and 0 < n_match < len(paths):
                    nontrivial = True
                group_log.append(pat)
                for k, p in enumerate(paths):
                    c = fired.get(k, 0)
                    if c > 1:
                        acc.violation('C18/invoked-twice/match',
                                      {'case': i, 'pattern': pat, 'address': p, 'count': c})
                    elif bool(c) != exp[k]:
                        cls = classify_pattern_disagreement(pat, p, bool(c))
                        acc.violation(pattern_key(bool(c), cls),
                                      {'case': i, 'pattern': pat, 'address': p,
                                       'library_matched': bool(c), 'osc_1_0_matches': exp[k],
                                       'via_clock': via_clock})
        finally:
            for o in objs:
                o.free()
        acc.case(h64(repr((paths, group_log))), nontrivial=nontrivial)
        if acc.want_sample() and nontrivial:
            acc.sample({'case': i, 'kind': 'pat', 'addresses': paths, 'patterns': group_log})
