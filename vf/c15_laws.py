"""Numeric law monitors of C15 (range / inverse laws of the kernels).

Every law is checked only on arguments of its documented domain:
lo < hi for wrap/fold (lo <= hi for clip), quantum > 0, modulus > 0,
frequencies / ratios / amplitudes > 0.  Bounds are closed.  Tolerances:

* range laws (wrap, fold, clip, mod): 4 ulp of the largest magnitude among the
  arguments - the kernels compute `x - range*floor((x-lo)/range)` style
  expressions whose rounding error is a few ulp of the operands;
* multiple-of-quantum: the kernels return n*q for an integer n, so r/q differs
  from n by at most a few ulp of n: |r/q - n| <= 1e-12 * max(1, |n|); the side
  conditions use 4 ulp of max(|x|, |r|);
* inverse pairs: 1e-9 relative to max(1, |value|) (pow/log2/log10 are correctly
  rounded to a few ulp, conditioning of 12*log2(f/440)+69 and 20*log10 is
  below 1e3 on the sampled domains).
"""

import math


def ulp4(*vals):
    m = max([abs(float(v)) for v in vals] + [1e-300])
    return 4 * math.ulp(m)


def tname(v):
    return 'int' if isinstance(v, int) and not isinstance(v, bool) else \
        'float' if isinstance(v, float) else type(v).__name__


def sig(x, *bounds):
    """Type class of a sample: the mechanism, not the values."""
    if tname(x) == 'int' and any(tname(b) == 'float' for b in bounds):
        return 'int-receiver-float-arguments'
    if tname(x) == 'int':
        return 'all-int'
    return 'float-receiver'


# ---- argument generators (in-domain) ---------------------------------------

def rnd_num(rng, kind=None, span=None):
    kind = kind or rng.choice(['int', 'float'])
    c = rng.random()
    if kind == 'int':
        if c < 0.5:
            return rng.randint(-12, 12)
        if c < 0.9:
            return rng.randint(-1000, 1000)
        return rng.randint(-10 ** 6, 10 ** 6)
    if c < 0.35:
        return rng.choice([-3.0, -1.5, -0.5, 0.0, 0.25, 0.5, 1.0, 1.5, 2.5, 3.0,
                           7.75, -7.25])
    if c < 0.8:
        return rng.uniform(-20, 20)
    if c < 0.95:
        return rng.uniform(-1e4, 1e4)
    return rng.uniform(-1e-3, 1e-3)


def rnd_bounds(rng):
    """lo < hi, each int or float, boundaries and small ranges included."""
    klo, khi = rng.choice(['int', 'float']), rng.choice(['int', 'float'])
    for _ in range(100):
        lo = rnd_num(rng, klo)
        if abs(lo) > 1e4:
            continue
        w = rng.choice([1, 2, 3, 5, 10, 100]) if khi == 'int' and klo == 'int' \
            else rng.choice([0.5, 1.0, 2.0, 2.5, 0.125, 7.0, rng.uniform(0.01, 50)])
        hi = lo + w
        if khi == 'int':
            hi = int(math.ceil(hi))
        else:
            hi = float(hi)
        if lo < hi:
            return lo, hi
    return 0, 1


def rnd_x_for(rng, lo, hi):
    c = rng.random()
    if c < 0.15:
        return rng.choice([lo, hi])
    k = rng.choice(['int', 'float'])
    w = hi - lo
    if c < 0.5:
        v = rng.uniform(lo - 3 * w, hi + 3 * w)
    elif c < 0.8:
        v = rng.uniform(lo - 40 * w, hi + 40 * w)
    else:
        v = rng.uniform(lo, hi)
    if k == 'int':
        return int(round(v))
    if rng.random() < 0.3:
        return round(v * 4) / 4
    return v


def rnd_quant(rng):
    k = rng.choice(['int', 'float'])
    if k == 'int':
        return rng.choice([1, 2, 3, 5, 7, 10, 12, 100])
    return rng.choice([0.5, 0.25, 1.5, 2.5, 0.1, 0.125, 1.0, 3.0, 0.01,
                       rng.uniform(0.05, 20)])


# ---- the laws -----------------------------------------------------------------
# each returns (args, None | (short reason, details))

def law_wrap(bi, rng):
    lo, hi = rnd_bounds(rng)
    x = rnd_x_for(rng, lo, hi)
    r = bi.wrap(x, lo, hi)
    t = ulp4(x, lo, hi)
    args = {'x': x, 'lo': lo, 'hi': hi, 'result': r}
    if not (lo - t <= r <= hi + t):
        return args, ('outside-bounds', sig(x, lo, hi))
    if lo <= x < hi and abs(r - x) > t:
        return args, ('in-range-value-changed', sig(x, lo, hi))
    return args, None


def law_fold(bi, rng):
    lo, hi = rnd_bounds(rng)
    x = rnd_x_for(rng, lo, hi)
    r = bi.fold(x, lo, hi)
    t = ulp4(x, lo, hi)
    args = {'x': x, 'lo': lo, 'hi': hi, 'result': r}
    if not (lo - t <= r <= hi + t):
        return args, ('outside-bounds', sig(x, lo, hi))
    if lo <= x <= hi and abs(r - x) > t:
        return args, ('in-range-value-changed', sig(x, lo, hi))
    return args, None


def law_wrap2_fold2(bi, rng):
    b = abs(rnd_num(rng)) or 1
    if b > 1e4:
        b = 3
    x = rnd_x_for(rng, -b, b)
    which = rng.choice(['wrap2', 'fold2', 'clip2'])
    r = getattr(bi, which)(x, b)
    t = ulp4(x, b)
    args = {'op': which, 'x': x, 'b': b, 'result': r}
    if not (-b - t <= r <= b + t):
        # wrap2/fold2/clip2 are wrap/fold/clip with bounds -b, b
        return args, ('outside-bounds', sig(x, b), which[:-1])
    return args, None


def law_clip(bi, rng):
    lo, hi = rnd_bounds(rng)
    if rng.random() < 0.1:
        hi = lo
    x = rnd_x_for(rng, lo, hi if hi > lo else lo + 1)
    r = bi.clip(x, lo, hi)
    t = ulp4(x, lo, hi)
    args = {'x': x, 'lo': lo, 'hi': hi, 'result': r}
    r2 = bi.clip(r, lo, hi)
    if r2 != r:
        args['second'] = r2
        return args, ('not-idempotent', sig(x, lo, hi))
    if not (lo - t <= r <= hi + t):
        return args, ('outside-bounds', sig(x, lo, hi))
    return args, None


def _multiple(r, q):
    n = r / q
    k = round(n)
    return abs(n - k) <= 1e-12 * max(1.0, abs(k))


def law_round(bi, rng):
    q = rnd_quant(rng)
    x = rnd_num(rng)
    which = rng.choice(['round', 'roundup', 'trunc'])
    r = getattr(bi, which)(x, q)
    t = ulp4(x, r, q)
    args = {'op': which, 'x': x, 'quant': q, 'result': r}
    if not _multiple(r, q):
        return args, (f'{which}-not-a-multiple', sig(x, q))
    if which == 'round':
        if abs(r - x) > q / 2 + t:
            return args, ('round-not-nearest', sig(x, q))
    elif which == 'roundup':
        if r < x - t or r - x >= q + t:
            return args, ('roundup-wrong-side', sig(x, q))
    else:
        # truncation: documented as floor to the multiple; toward zero is the
        # other reading for negatives - both accepted
        ok_floor = r <= x + t and x - r < q + t
        ok_zero = abs(r) <= abs(x) + t and abs(x) - abs(r) < q + t
        if not (ok_floor or ok_zero):
            return args, ('trunc-wrong-side', sig(x, q))
    return args, None


def law_mod(bi, rng):
    k = rng.choice(['int', 'float'])
    if k == 'int':
        b = rng.choice([1, 2, 3, 5, 7, 12, 100, 1000])
    else:
        b = rng.choice([0.5, 1.0, 1.5, 2.5, 0.125, 12.0, rng.uniform(0.01, 100)])
    a = rnd_num(rng)
    r = bi.mod(a, b)
    t = ulp4(a, b)
    args = {'a': a, 'b': b, 'result': r}
    exact = isinstance(a, int) and isinstance(b, int)
    # floats: a - b*floor(a/b) may come out a few ulp below 0 when a/b rounds
    # up to an integer; ints are exact, so the bound is strict there
    if not (-t <= r <= b + t) or (exact and not (0 <= r < b)):
        return args, ('negative-or-too-large', sig(a, b))
    if isinstance(a, int) and isinstance(b, int) and (a - r) % b != 0:
        return args, ('not-congruent', sig(a, b))
    return args, None


def _close(a, b):
    return abs(a - b) <= 1e-9 * max(1.0, abs(a), abs(b))


INVERSES = [
    # name, forward, backward, domain of forward's argument, domain of backward's
    ('midicps-cpsmidi', 'midicps', 'cpsmidi', ('lin', -100.0, 200.0), ('log', 1e-3, 1e6)),
    ('midiratio-ratiomidi', 'midiratio', 'ratiomidi', ('lin', -120.0, 120.0), ('log', 1e-4, 1e4)),
    ('octcps-cpsoct', 'octcps', 'cpsoct', ('lin', -10.0, 20.0), ('log', 1e-3, 1e6)),
    ('dbamp-ampdb', 'dbamp', 'ampdb', ('lin', -120.0, 60.0), ('log', 1e-6, 1e3)),
]


def _draw(rng, dom):
    kind, a, b = dom
    if kind == 'lin':
        v = rng.uniform(a, b)
        c = rng.random()
        if c < 0.3:
            v = float(round(v))
        elif c < 0.4:
            v = int(round(v))
        return v
    v = math.exp(rng.uniform(math.log(a), math.log(b)))
    c = rng.random()
    if c < 0.2 and v >= 1:
        v = int(round(v))
    elif c < 0.3:
        v = rng.choice([440.0, 1.0, 2.0, 0.5, 261.6255653005986, 0.001])
        v = min(max(v, a), b)
    return v


def law_inverse(bi, rng):
    name, f, g, df, dg = rng.choice(INVERSES)
    if rng.random() < 0.5:
        x = _draw(rng, df)
        y = getattr(bi, f)(x)
        back = getattr(bi, g)(y)
        args = {'pair': name, 'direction': f'{g}({f}(x))', 'x': x, 'mid': y,
                'back': back}
        if not _close(back, x):
            return args, (name,)
    else:
        x = _draw(rng, dg)
        y = getattr(bi, g)(x)
        back = getattr(bi, f)(y)
        args = {'pair': name, 'direction': f'{f}({g}(x))', 'x': x, 'mid': y,
                'back': back}
        if not _close(back, x):
            return args, (name,)
    return args, None


LAWS = {
    'wrap': law_wrap, 'fold': law_fold, 'wrap2fold2clip2': law_wrap2_fold2,
    'clip': law_clip, 'round': law_round, 'mod': law_mod, 'inverse': law_inverse,
}


# ---- exact boundary laws ---------------------------------------------------------
# Independent reference (fractions, no library call) for the quantising family
# on exactly representable (dyadic) arguments: ties, exact multiples, values at
# lo / hi, negative receivers, int and float spellings of the same numbers.
# Documented semantics (SuperCollider SimpleNumber help, formulas quoted in the
# kernels): round = floor(x/q + 1/2)*q (ties go up - the int path of the same
# function does exactly that), roundup = ceil(x/q)*q, trunc = floor(x/q)*q
# (toward zero also accepted for negatives, as in law_round), float wrap
# into [lo, hi), int wrap into lo..hi, fold reflects at both bounds, mod into
# [0, b) for b > 0.  Results are compared exactly: every intermediate of the
# kernels is exact on these arguments.

from fractions import Fraction as _F
import math as _math

QUANTS = [0.5, 0.25, 0.125, 1.0, 2.0, 4.0, 1, 2, 4, 3, 1.5]


def _spell(rng, v):
    """int or float spelling of an integral number, float otherwise"""
    if float(v) == int(v) and rng.random() < 0.5:
        return int(v)
    return float(v)


def _both_spellings(*vals):
    return all(float(v) == int(v) for v in vals)


def _tie_x(rng, q):
    k = rng.randint(-7, 7)
    c = rng.random()
    if c < 0.5:
        return (k + 0.5) * q, 'tie'
    if c < 0.7:
        return k * q, 'exact-multiple'
    if c < 0.85:
        return (k + 0.25) * q, 'quarter'
    return (k + 0.75) * q, 'quarter'


def _exact_round(op, x, q):
    X, Q = _F(x), _F(q)
    if op == 'round':
        return [_math.floor(X / Q + _F(1, 2)) * Q]
    if op == 'roundup':
        return [_math.ceil(X / Q) * Q]
    refs = [_math.floor(X / Q) * Q]
    if X < 0:
        refs.append(_math.ceil(X / Q) * Q)       # toward zero reading
    return refs


def _lifted(rng, bi_mod_name, x, args):
    """The same application through one lifted spelling (or plain)."""
    from sc3.base import builtins as bi
    from sc3.base.operand import Operand
    from sc3.base.functions import Function
    from sc3.synth.ugen import ChannelList
    c = rng.random()
    if c < 0.55:
        return 'plain', getattr(bi, bi_mod_name)(x, *args)
    if c < 0.7:
        return 'Operand', getattr(Operand(x), bi_mod_name)(*args).value
    if c < 0.85:
        return 'ChannelList', getattr(ChannelList([x, x]), bi_mod_name)(*args)[1]
    return 'Function', getattr(Function(lambda: x), bi_mod_name)(*args)()


def law_exact(bi, rng):
    fam = rng.choice(['round', 'round', 'round', 'roundup', 'trunc', 'wrap',
                      'fold', 'clip', 'mod', 'ceilfloor'])
    if fam in ('round', 'roundup', 'trunc'):
        q = rng.choice(QUANTS)
        xv, cls = _tie_x(rng, q)
        x = _spell(rng, xv)
        if rng.random() < 0.3 and float(q) == int(q):
            q = int(q) if isinstance(q, float) else float(q)
        how, r = _lifted(rng, fam, x, (q,))
        args = {'op': fam, 'x': x, 'quant': q, 'result': r, 'via': how,
                'class': cls}
        refs = _exact_round(fam, x, q)
        if not any(_F(r) == ref for ref in refs):
            args['exact_reference'] = float(refs[0])
            return args, (f'{fam}-differs-from-exact-reference', cls)
        if _both_spellings(x, q):
            ri = getattr(bi, fam)(int(x), int(q))
            rf = getattr(bi, fam)(float(x), float(q))
            if ri != rf:
                args.update({'int_spelling': ri, 'float_spelling': rf})
                return args, (f'{fam}-int-float-spellings-disagree', cls)
        return args, None
    if fam in ('wrap', 'fold', 'clip'):
        lo = rng.choice([-2, -1, 0, 1, -0.5, 0.25, 0.0, -2.0, 1.0])
        w = rng.choice([1, 2, 3, 0.5, 2.5, 4.0, 1.0])
        hi = lo + w
        k = rng.randint(-3, 3)
        c = rng.random()
        if c < 0.3:
            xv, cls = lo + k * w, 'at-lo-plus-k-ranges'
        elif c < 0.6:
            xv, cls = hi + k * w, 'at-hi-plus-k-ranges'
        elif c < 0.8:
            xv, cls = lo + (k + 0.5) * w, 'mid-range'
        else:
            xv, cls = lo + (k + 0.25) * w, 'inside'
        allint = _both_spellings(lo, hi, xv) and rng.random() < 0.4
        if allint:
            x, lo, hi = int(xv), int(lo), int(hi)
        else:
            x, lo, hi = float(xv), float(lo), float(hi)
        how, r = _lifted(rng, fam, x, (lo, hi))
        args = {'op': fam, 'x': x, 'lo': lo, 'hi': hi, 'result': r, 'via': how,
                'class': cls + ('/all-int' if allint else '/float')}
        X, L, H = _F(x), _F(lo), _F(hi)
        if fam == 'clip':
            ref = min(max(X, L), H)
        elif fam == 'wrap':
            ref = L + (X - L) % (H - L + 1) if allint else L + (X - L) % (H - L)
        else:
            R = H - L
            cc = (X - L) % (2 * R)
            ref = L + (2 * R - cc if cc > R else cc)
        if _F(r) != ref:
            args['exact_reference'] = float(ref)
            return args, (f'{fam}-differs-from-exact-reference', args['class'])
        if fam != 'wrap' and _both_spellings(x, lo, hi):
            f = getattr(bi, fam)
            ri, rf = f(int(x), int(lo), int(hi)), f(float(x), float(lo), float(hi))
            if ri != rf:
                args.update({'int_spelling': ri, 'float_spelling': rf})
                return args, (f'{fam}-int-float-spellings-disagree', cls)
        return args, None
    if fam == 'mod':
        b = rng.choice([1, 2, 3, 4, 0.5, 0.25, 2.0, 3.0, 1.5])
        k = rng.randint(-6, 6)
        xv = rng.choice([k * b, (k + 0.5) * b, (k + 0.25) * b, 0, -b, b])
        a = _spell(rng, xv)
        r = bi.mod(a, b)
        args = {'op': 'mod', 'a': a, 'b': b, 'result': r}
        ref = _F(a) % _F(b)
        cls = 'negative-receiver' if a < 0 else 'non-negative-receiver'
        if _F(r) != ref:
            args['exact_reference'] = float(ref)
            return args, ('mod-differs-from-exact-reference', cls)
        if _both_spellings(a, b) and bi.mod(int(a), int(b)) != bi.mod(float(a), float(b)):
            return args, ('mod-int-float-spellings-disagree', cls)
        return args, None
    # ceil / floor (unary) on halves and integers, both spellings
    k = rng.randint(-6, 6)
    x = _spell(rng, rng.choice([k, k + 0.5, k + 0.25, -0.5, 0.5]))
    which = rng.choice(['ceil', 'floor'])
    r = getattr(bi, which)(x)
    args = {'op': which, 'x': x, 'result': r}
    ref = _math.ceil(_F(x)) if which == 'ceil' else _math.floor(_F(x))
    if r != ref:
        return args, (f'{which}-differs-from-exact-reference', 'halves')
    return args, None


LAWS['exact'] = law_exact


# ---- operands a hair beside a multiple of the quantum (round 10) -------------------
# Class: operands whose quotient x / quant lies within 1 ulp ... 2**-28 (relative)
# of an integer - or of an integer + 1/2 for round - WITHOUT being it.  Random
# float arguments never get there, and the tolerance laws above (which must
# allow a few ulp because decimal quanta are inexact) accept a result on the
# wrong side as long as it is within the tolerance of the operand; a kernel
# that "repairs" quotients like 0.3 / 0.1 by snapping to the nearest integer
# returns a multiple ABOVE the operand for trunc / BELOW it for roundup.
# Here everything is exact: quant = m * 2**e (dyadic, m <= 7),
# x = (k +- 2**-j) * quant (or (k + 1/2 +- 2**-j) * quant) with k and j small
# enough that x, the true quotient and (for round) quotient + 1/2 are exactly
# representable doubles, so IEEE division returns the true quotient and every
# intermediate of the documented formulas floor(x/q)*q, ceil(x/q)*q,
# floor(x/q + .5)*q is exact.  Reference: the same formulas in
# fractions.Fraction.  Judged: the result is THE multiple of the quantum that
# is <= x and nearest (trunc; toward zero also accepted for negative x, as in
# law_round), >= x and nearest (roundup), nearest to x (round).

NEAR_QUANTS_POW2 = [1.0, 0.5, 0.25, 0.125, 0.0625, 2.0, 4.0, 8.0, 1, 2, 4, 2 ** -10]
NEAR_QUANTS_DYADIC = [1.5, 3.0, 3, 0.75, 2.5, 5, 12, 1.25, 7.0, 0.375]


def _near_case(rng):
    """(op, x, q, class) or None when the draw is not exactly representable."""
    op = rng.choice(['trunc', 'roundup', 'round'])
    pow2 = rng.random() < 0.6
    q = rng.choice(NEAR_QUANTS_POW2 if pow2 else NEAR_QUANTS_DYADIC)
    b = rng.choice([0, 1, 2, 3, 3, 4, 5, 6, 8, 10, 14, 20])     # bits of k
    k = rng.randint(0, 2 ** b - 1) if b else 0
    if rng.random() < 0.5:
        k = -k
    Q = _F(q)
    at_tie = op == 'round' and rng.random() < 0.5
    base = (_F(k) + _F(1, 2)) if at_tie else _F(k)
    side = rng.choice([-1, 1])
    where = 'tie' if at_tie else 'multiple'
    if pow2 and not at_tie and k != 0 and rng.random() < 0.25:
        # one ulp beside the multiple (power-of-two quantum: x / q is a scaling)
        m = float(base * Q)
        x = _math.nextafter(m, _math.inf * side)
        cls = f'one-ulp-{"below" if side < 0 else "above"}-{where}'
    else:
        kb = max(abs(k), 1).bit_length()
        hi = (48 if not pow2 or at_tie else 52) - kb
        j = rng.randint(max(2, 28 - kb), hi)
        X = (base + side * _F(1, 2 ** j)) * Q
        x = float(X)
        if _F(x) != X:
            return None
        cls = f'hair-{"below" if side < 0 else "above"}-{where}'
    return op, x, q, cls


def law_near(bi, rng):
    for _ in range(20):
        c = _near_case(rng)
        if c is not None:
            break
    op, x, q, cls = c
    how, r = _lifted(rng, op, x, (q,))
    args = {'op': op, 'x': x, 'quant': q, 'result': r, 'via': how, 'class': cls,
            'x_hex': float(x).hex()}
    X, Q, R = _F(x), _F(q), _F(r)
    refs = _exact_round(op, x, q)
    if any(R == ref for ref in refs):
        return args, None
    args['exact_reference'] = float(refs[0])
    if (R / Q).denominator != 1:
        return args, (f'{op}-not-a-multiple', cls)
    if op == 'trunc' and R > X:      # (not the accepted toward-zero multiple)
        return args, ('trunc-result-above-operand', cls)
    if op == 'roundup' and R < X:
        return args, ('roundup-result-below-operand', cls)
    return args, (f'{op}-not-the-nearest-multiple', cls)


LAWS['near'] = law_near
