"""C02 - emission routes other than as_bytes() and the file / library readers.

"Every emitted definition" includes the datagrams and the files.  One case =
one generated program (vf/gen_graph.py profile c02; file-safe, identifier,
`generate_tmp_name()` or unstorable long names; optional JSON / ControlSpec
metadata) whose as_bytes() specimen is judged by the independent predicates of
vf/props/C02.py (strict parse, structure, order, reader round trip), followed
by a random history over

  emission   SynthDef.send / load / store / add / _write_def_file (overwrite
             or not, over a planted stale file) / send_from_file /
             load_from_file, `@synthdef` (_create_synthdef, and the action it
             registers for the next boot), reconstructed definitions
             (_load_reconstructed through send / load / store),
             MetaSynthDef.generate_tmp_name, SynthDef._write_def_list with
             several definitions;
  reading    SynthDesc.read(file | pattern, keep_defs), SynthDescLib.read /
             at / match / remove_at, SynthDesc.def_name_from_bytes, version-1
             files (_read_synthdef), MdPlugin.write / read / read_file / delete.

Traffic is captured the way C17 does it (NRT: the score of main.process()
decoded with vf/osc.py, targets from a wrapper around the interface
instance's send_bundle; RT: the interface instance's `_send` replaced by a
recorder, nothing leaves the process).  Oracle, none of it computed by sc3:

  * every /d_recv blob and every definition file is byte-identical to the
    judged specimen (file form = exactly the definition in the file
    container, nothing before or after); a /d_load names a file that holds
    exactly those bytes at the moment the command is issued;
  * exactly one definition command per addressed server, carrying the
    completion message that was asked for; a real-time /d_recv datagram fits
    an IPv4 UDP datagram (65507 bytes) - definitions around that size are
    generated on purpose (name length tuned to the byte);
  * what the file readers return is compared with the description predicted
    from the independent parse of the file's bytes (vf/scgf.py), the metadata
    with what was stored (JSON read back by the harness itself);
  * SynthDescLib.match / at / remove_at against a dict model (unambiguous
    queries only).
"""

import glob
import io
import json
import os
import re
import shutil
import struct

from vf.common import iter_cases, case_rng, h64, short_tb, tb_sites

SUFFIX = '.scsyndef'
MD_SUFFIX = '.scjsonmd'
UDP_MAX = 65507          # IPv4: 65535 - 20 (IP header) - 8 (UDP header)
NAME_MAX = 255           # bytes of one path component (Linux)
ASCII_FILE = ''.join(chr(c) for c in range(32, 127) if chr(c) != '/')
IDENT = 'abcdefghijklmnopqrstuvwxyz_0123456789ABCXYZ'
GLOB_META = set('*?[')


def safe(fn, *a):
    try:
        return fn(*a)
    except Exception as x:      # noqa
        return f'<{type(x).__name__} while formatting>'


def site_of(e):
    s = tb_sites(e)
    return ':'.join(s[-1]) if s else 'outside-sc3'


READER_FUNCS = ('_read_stream', '_read_synthdef2', '_read_ugen_spec2',
                '_read_synthdef', '_read_ugen_spec', '_check_synthdesc2')


def raise_key(op, e):
    """an exception raised inside the description reader keeps the reader's
    key whatever route called it (one defect = one key)"""
    s = tb_sites(e)
    if s and s[-1][0].endswith('synthdesc.py') and s[-1][1] in READER_FUNCS:
        return f'C02/reader-raises/{type(e).__name__}/{site_of(e)}'
    return f'C02/route/{op}/raises/{type(e).__name__}/{site_of(e)}'


# ---------------------------------------------------------------------------
# generation
# ---------------------------------------------------------------------------
def file_name(rng):
    n = rng.choice([1, 2, 5, 8, 12, 20, 31, 32, 33, 64, 128, 200, 245, 246,
                    rng.randint(1, 246)])
    alpha = rng.choice([ASCII_FILE, IDENT, 'aZ09_-. ', 'ab[]*?.x', IDENT])
    return ''.join(rng.choice(alpha) for _ in range(n))


def ident_name(rng):
    n = rng.choice([1, 3, 8, 20, 27, 28, 29, 60, 200, 242, rng.randint(1, 242)])
    return 'vf_' + ''.join(rng.choice(IDENT) for _ in range(n))


def json_value(rng, depth=0):
    k = rng.randrange(7 if depth < 2 else 5)
    if k == 0:
        return rng.randrange(-1000, 1000)
    if k == 1:
        return rng.randrange(-4000, 4000) / 8
    if k == 2:
        return ''.join(rng.choice('abc xyz-é"\\') for _ in range(rng.randint(0, 8)))
    if k == 3:
        return rng.choice([True, False, None])
    if k == 4:
        return [rng.randrange(10) for _ in range(rng.randint(0, 4))]
    if k == 5:
        return [json_value(rng, depth + 1) for _ in range(rng.randint(0, 3))]
    return {f'k{j}': json_value(rng, depth + 1) for j in range(rng.randint(0, 3))}


def gen_metadata(rng, prog):
    """(json part, specs part as {name: (min, max, warp, step, default, units)})"""
    r = rng.random()
    if r < 0.35:
        return None, None
    md = {rng.choice(['author', 'note', 'x', 'version', 'tags', 'k']) + str(j):
          json_value(rng) for j in range(rng.randint(1, 4))}
    specs = None
    if r > 0.75:
        specs = {}
        names = [p['name'] for p in prog['params']] + ['other']
        for nm in rng.sample(names, rng.randint(1, min(3, len(names)))):
            lo = rng.choice([0, 0.5, 20, -1, 1])
            hi = lo + rng.choice([1, 10, 2000.5])
            specs[nm] = (lo, hi, rng.choice(['lin', 'exp' if lo > 0 else 'lin',
                                             'sin', 'cos', 'amp', 'db', -3, 2.5]),
                         rng.choice([0.0, 0.125, 1]), lo + rng.choice([0, 0.5]),
                         rng.choice(['', 'Hz', 'dB']))
    return md, specs


def huge_program(rng, gg, name):
    """a definition of about 64 KiB (the /d_recv datagram bound)"""
    prog = gg.gen_program_c02(rng, 'plain', name=name)
    n = rng.randint(1120, 1240)
    prog['nodes'].append({'k': 'raw', 'src':
                          f'Out.ar(0, Mix.new([SinOsc.ar(100 + k) '
                          f'for k in range({n})]))'})
    prog['kind'] = 'huge'
    return prog


def v1_bytes(defs):
    """the same definitions in the version-1 container (16-bit counts and
    indices), written from the file format document"""
    def ps(s):
        b = s.encode('ascii')
        return bytes([len(b)]) + b
    out = [b'SCgf', struct.pack('>ih', 1, len(defs))]
    for d in defs:
        out.append(ps(d.name))
        out.append(struct.pack('>h', len(d.constants)))
        out += [struct.pack('>f', c) for c in d.constants]
        out.append(struct.pack('>h', len(d.params)))
        out += [struct.pack('>f', c) for c in d.params]
        out.append(struct.pack('>h', len(d.param_names)))
        for nm, ix in d.param_names:
            out.append(ps(nm) + struct.pack('>h', ix))
        out.append(struct.pack('>h', len(d.units)))
        for u in d.units:
            out.append(ps(u.cls) + struct.pack('>bhhh', u.rate, len(u.inputs),
                                               len(u.out_rates), u.special))
            for w in u.inputs:
                out.append(struct.pack('>hh', -1, w[1]) if w[0] == 'c'
                           else struct.pack('>hh', w[1], w[2]))
            out.append(bytes(u.out_rates))
        out.append(struct.pack('>h', len(d.variants)))
        for nm, vals in d.variants:
            out.append(ps(nm))
            out += [struct.pack('>f', c) for c in vals]
    return b''.join(out)


def container(bodies):
    """SCgf-2 file holding the given definition bodies"""
    return b'SCgf' + struct.pack('>ih', 2, len(bodies)) + b''.join(bodies)


# ---------------------------------------------------------------------------
# traffic
# ---------------------------------------------------------------------------
class ScoreShape(Exception):
    pass


def listing(d):
    """the definition files of a directory (what '*.scsyndef' stands for)"""
    return sorted(os.path.join(d, f) for f in os.listdir(d) if f.endswith(SUFFIX))


def _snap(path):
    try:
        with open(path, 'rb') as f:
            return f.read()
    except OSError:
        return None


class Tap:
    """calls: [{'target', 'msgs': [Msg], 'size', 'snaps': {path: bytes|None}}]"""

    def __init__(self, mode, main, osc):
        self.mode, self.main, self.osc = mode, main, osc
        self.calls = []
        itf = main._osc_interface
        if mode == 'nrt':
            orig = itf.send_bundle

            def send_bundle(target, time, *elements):
                r = orig(target, time, *elements)
                snaps = {}
                for e in elements:
                    if isinstance(e, (list, tuple)) and len(e) > 1 \
                            and e[0] == '/d_load' and isinstance(e[1], str):
                        snaps[e[1]] = _snap(e[1])
                self.calls.append({'target': target, 'time': time,
                                   'n': len(elements), 'snaps': snaps})
                return r
            itf.send_bundle = send_bundle
        else:
            def _send(msg, target):
                data = bytes(msg.dgram)
                rec = {'target': target, 'data': data, 'size': len(data),
                       'snaps': {}}
                try:
                    rec['msgs'] = self._flat(osc.decode(data))
                    for m in rec['msgs']:
                        if m.addr == '/d_load' and m.args \
                                and isinstance(m.args[0], str):
                            rec['snaps'][m.args[0]] = _snap(m.args[0])
                except osc.OscError as e:
                    rec['bad'] = str(e)
                self.calls.append(rec)
            itf._send = _send

    def _flat(self, p):
        if isinstance(p, self.osc.Msg):
            return [p]
        out = []
        for e in p.elements:
            out += self._flat(e)
        return out

    def reset(self):
        if self.mode == 'nrt':
            self.main.reset()
        self.calls = []

    def mark(self):
        return len(self.calls)

    def finish(self):
        """decode (NRT: the score); afterwards calls[k]['msgs'] exist"""
        if self.mode == 'rt':
            for c in self.calls:
                if 'bad' in c:
                    raise self.osc.OscError(c['bad'])
            return
        score = self.main.process()
        raw = bytes(score.raw)
        out, i = [], 0
        while i < len(raw):
            n, = struct.unpack_from('>i', raw, i)
            i += 4
            out.append(self.osc.decode(raw[i:i + n]))
            i += n
        if len(out) != len(self.calls) + 2:
            raise ScoreShape(f'{len(self.calls)} sends, {len(out) - 2} entries')
        if [m.plain() for m in out[0].elements] != [['/g_new', 1, 0, 0]] or \
                [m.plain() for m in out[-1].elements] != [['/c_set', 0, 0]]:
            raise ScoreShape('unexpected score framing')
        for c, p in zip(self.calls, out[1:-1]):
            if c['time'] not in (0, 0.0, None):
                raise ScoreShape('bundle with a time')
            c['msgs'] = self._flat(p)
            c['size'] = None


# ---------------------------------------------------------------------------
# the runner
# ---------------------------------------------------------------------------
class Problem(Exception):
    pass


class Routes:
    def __init__(self, spec, acc, mode):
        from vf import gen_graph as gg, scgf, osc
        from vf.props import C02 as P
        from sc3.base.main import main
        from sc3.base import platform as plf, systemactions as sac
        from sc3.base.netaddr import NetAddr
        from sc3.synth.server import Server, ServerOptions
        from sc3.synth.synthdef import SynthDef, synthdef
        from sc3.synth.synthdesc import SynthDesc, SynthDescLib, MdPlugin
        from sc3.synth.spec import ControlSpec
        self.spec, self.acc, self.mode = spec, acc, mode
        self.gg, self.scgf, self.osc, self.P = gg, scgf, osc, P
        self.main, self.sac = main, sac
        self.SynthDef, self.synthdef_deco = SynthDef, synthdef
        self.SynthDesc, self.SynthDescLib = SynthDesc, SynthDescLib
        self.MdPlugin, self.ControlSpec = MdPlugin, ControlSpec
        self.Server = Server
        self.tap = Tap(mode, main, osc)
        self.s0 = Server.default
        self.s1 = Server('vfc02b', NetAddr('127.0.0.1', 57333), ServerOptions())
        self.remote = Server('vfc02r', NetAddr('10.1.2.3', 57110), ServerOptions())
        self.lib = SynthDescLib('vfc02', [self.s0, self.s1])
        self.deflib = SynthDescLib.get_lib('default')
        self.default_dir = str(plf.Platform.synthdef_dir)
        self.tmp_dir = str(plf.Platform.tmp_dir)
        os.makedirs(self.default_dir, exist_ok=True)
        self.home = os.path.join(os.path.expanduser('~'), 'c02routes')
        os.makedirs(self.home, exist_ok=True)
        self.tmp_names = set()
        self.shape_errors = 0

    # ---- helpers ------------------------------------------------------------
    def tgt(self, server):
        return (server.addr.hostname, server.addr.port)

    def booted(self):
        return [s for s in self.Server.all if s._status_watcher.has_booted]

    def viol(self, key, **w):
        w.update({'case': self.case_i, 'kind': self.kind,
                  'history': list(self.history),
                  'script': safe(lambda: self.gg.script(self.prog)[:4000])})
        self.acc.violation(key, w)
        self.bad = True

    def judge_bytes(self, raw, prog):
        """[(key, detail)] of the independent predicates on one definition"""
        P, acc = self.P, self.acc
        try:
            d = self.scgf.parse(raw)
        except self.scgf.ScgfError as e:
            return None, [(f'C02/not-scgf/{P.err_code(str(e))}', str(e))]
        problems = P.structure(d, prog, self.gg, acc) + P.order(d, prog, self.gg, acc)
        if prog.get('variants') and prog.get('variants_note') == 'ok':
            exp = P.expected_variants(d, prog)
            if d.variants != exp:
                problems.append(('C02/variants-differ', f'{d.variants} != {exp}'))
        exp = P.expected_desc(d)
        try:
            lst = self.SynthDesc._read_stream(io.BytesIO(raw))
            if len(lst) != 1:
                problems.append(('C02/reader/definition-count', str(len(lst))))
            else:
                acc.count('reader_roundtrips')
                for what, detail in P.compare_desc(lst[0], exp, acc):
                    problems.append((f'C02/reader/{what}', f'read_stream: {detail}'))
        except Exception as e:
            problems.append((f'C02/reader-raises/{type(e).__name__}/{site_of(e)}',
                             safe(lambda: f'read_stream: {e!r}'[:300])))
        return d, problems

    def name_from_bytes(self, raw, want, where):
        self.acc.count('reader_def_name_from_bytes')
        try:
            got = self.SynthDesc.def_name_from_bytes(bytearray(raw))
        except Exception as e:
            return self.viol(f'C02/reader-raises/{type(e).__name__}/{site_of(e)}',
                             detail=f'def_name_from_bytes({where}): {e!r}'[:300])
        if got != want:
            self.viol('C02/reader/def-name-from-bytes',
                      detail=f'{where}: {got!r} != {want!r}')

    def make_md(self, md, specs):
        if md is None:
            return None
        out = json.loads(json.dumps(md))
        if specs:
            out['specs'] = {k: self.ControlSpec(*v) for k, v in specs.items()}
        return out

    @staticmethod
    def spec_tuple(s):
        return (s.minval, s.maxval, s.warp.specifier, s.step, s.default, s.units)

    def md_equal(self, got, md, specs, extra=None):
        """library metadata object against what was stored"""
        if md is None:
            want = dict(extra or {})
            return (got is None and not want) or got == want
        if not isinstance(got, dict):
            return False
        got = dict(got)
        gs = got.pop('specs', None)
        want = dict(json.loads(json.dumps(md)))
        want.update(extra or {})
        if got != want:
            return False
        if not specs:
            return gs is None
        try:
            return isinstance(gs, dict) and set(gs) == set(specs) and all(
                self.spec_tuple(gs[k]) == self.spec_tuple(self.ControlSpec(*v))
                for k, v in specs.items())
        except Exception:
            return False

    # ---- expectations on the traffic of one operation -----------------------------
    def completion_ok(self, m, k, want):
        """argument k of message m is the completion message `want`"""
        rest = m.args[k:]
        if want is None:
            return rest in ([], [0], [None])
        if len(rest) != 1 or not isinstance(rest[0], (bytes, bytearray)):
            return False
        try:
            inner = self.osc.decode(bytes(rest[0]))
        except self.osc.OscError:
            return False
        return isinstance(inner, self.osc.Msg) and inner.plain() == want

    def check_traffic(self, op, rec):
        """rec: {'a','b','expect': [...], 'optional': [...]}"""
        acc = self.acc
        calls = self.tap.calls[rec['a']:rec['b']]
        msgs = [(c['target'], m, c) for c in calls for m in c['msgs']]
        pending = list(rec['expect'])
        optional = list(rec.get('optional', ()))
        for target, m, c in msgs:
            hit = None
            path = m.args[0] if m.addr == '/d_load' and m.args else None
            for lst in (pending, optional):
                same = [e for e in lst if e['target'] == target]
                best = [e for e in same if e.get('path') == path] or same
                if best:
                    hit = (lst, best[0])
                    break
            if hit is None:
                self.viol(f'C02/route/{op}/unexpected-message',
                          detail=f'{m.addr} to {target}; expected '
                                 f'{[(e["kind"], e["target"]) for e in rec["expect"]]}')
                continue
            hit[0].remove(hit[1])
            e = hit[1]
            self.check_message(op, e, m, c)
        for e in pending:
            self.viol(f'C02/route/{op}/nothing-emitted',
                      detail=f'no definition command for {e["target"]} '
                             f'(expected {e["kind"]})')

    def check_message(self, op, e, m, c):
        acc = self.acc
        kind = e['kind']
        if m.addr == '/d_recv' and kind in ('def', 'recv'):
            acc.count('route_datagrams_judged')
            acc.count(f'route_{op}_d_recv')
            if not m.args or not isinstance(m.args[0], (bytes, bytearray)):
                return self.viol(f'C02/route/{op}/d_recv-without-blob', detail=repr(m)[:300])
            blob = bytes(m.args[0])
            if blob != e['bytes']:
                k0 = next((k for k, (x, y) in enumerate(zip(blob, e['bytes']))
                           if x != y), min(len(blob), len(e['bytes'])))
                why = self.explain(blob)
                return self.viol(f'C02/route/{op}/datagram-bytes-differ',
                                 detail=f'{len(blob)} bytes in /d_recv, the '
                                        f'definition has {len(e["bytes"])}; first '
                                        f'difference at {k0}; {why}')
            self.name_from_bytes(blob, e['name'], f'{op} datagram')
            if not self.completion_ok(m, 1, e.get('completion')):
                self.viol(f'C02/route/{op}/completion-message-differs',
                          detail=f'{m.args[1:]!r}'[:300] + f' != {e.get("completion")!r}')
            if c.get('size') is not None:
                acc.maxi('max_d_recv_datagram', c['size'])
                if c['size'] > UDP_MAX:
                    self.viol(f'C02/route/{op}/datagram-exceeds-udp',
                              detail=f'{c["size"]} byte datagram')
                if c['size'] > 65000:
                    acc.count('route_datagrams_within_500_of_the_bound')
            return
        if m.addr == '/d_load' and kind in ('def', 'load'):
            acc.count(f'route_{op}_d_load')
            if not m.args or not isinstance(m.args[0], str):
                return self.viol(f'C02/route/{op}/d_load-without-path', detail=repr(m)[:300])
            path = m.args[0]
            if kind == 'load' and path != e['path']:
                return self.viol(f'C02/route/{op}/d_load-path-differs',
                                 detail=f'{path!r} != {e["path"]!r}')
            if kind == 'def':
                acc.count('route_too_big_fallbacks')
                if not e.get('local', True):
                    return self.viol(f'C02/route/{op}/d_load-to-remote-server',
                                     detail=path)
            if e.get('bytes') is not None:
                acc.count('route_files_judged')
                have = c['snaps'].get(path)
                if have is None:
                    return self.viol(f'C02/route/{op}/d_load-file-missing', detail=path)
                if have != e['bytes']:
                    return self.viol(f'C02/route/{op}/d_load-file-bytes-differ',
                                     detail=f'{path}: {len(have)} bytes, the '
                                            f'definition has {len(e["bytes"])}; '
                                            + self.explain(have))
            if not self.completion_ok(m, 1, e.get('completion')):
                self.viol(f'C02/route/{op}/completion-message-differs',
                          detail=f'{m.args[1:]!r}'[:300] + f' != {e.get("completion")!r}')
            return
        self.viol(f'C02/route/{op}/wrong-command',
                  detail=f'{m.addr} where {kind} was expected')

    def explain(self, raw):
        try:
            self.scgf.parse(raw)
            return 'the bytes are a complete definition'
        except self.scgf.ScgfError as e:
            return f'not a definition: {e}'

    # ---- one case -----------------------------------------------------------------
    def run(self):
        for i in iter_cases(self.spec):
            rng = case_rng(self.spec['seed'], 'C02', self.spec['shard']['kind'], i)
            self.case_i = i
            self.bad = False
            self.history = []
            self.cdir = os.path.join(self.home, f'c{i}')
            try:
                self.one(rng, i)
            finally:
                self.cleanup()
        if self.shape_errors > 5:
            self.acc.mark_inconclusive(f'{self.shape_errors} scores of unexpected shape')
        if self.acc.counters.get('route_harness_exceptions'):
            self.acc.mark_inconclusive('exceptions in the routes harness: ' + str(
                self.acc.extra.get('route_harness_exceptions', [''])[0])[-600:])

    def cleanup(self):
        shutil.rmtree(self.cdir, ignore_errors=True)
        for d in (self.default_dir, self.tmp_dir):
            for f in os.listdir(d):          # (hidden files too)
                if f.endswith((SUFFIX, MD_SUFFIX)):
                    try:
                        os.unlink(os.path.join(d, f))
                    except OSError:
                        pass
        self.lib.synth_descs.clear()
        self.deflib.synth_descs.clear()

    def one(self, rng, i):
        acc, gg = self.acc, self.gg
        r = rng.random()
        flavor = ('tmpname' if r < 0.06 else 'deco' if r < 0.20 else
                  'huge' if r < 0.25 else 'longname' if r < 0.28 else 'file')
        if self.spec['shard'].get('flavor'):
            flavor = self.spec['shard']['flavor']
        pk = rng.choices(['plain', 'mc', 'wf', 'variants', 'wrap', 'bigarray'],
                         [3, 2, 2, 3, 1, 1])[0]
        if flavor == 'tmpname':
            name = self.tmp_name()
            if name is None:
                return
        elif flavor == 'deco':
            name = ident_name(rng)
        elif flavor == 'longname':
            name = ''.join(rng.choice(IDENT) for _ in range(rng.randint(247, 255)))
        else:
            name = file_name(rng)
        prog = huge_program(rng, gg, name) if flavor == 'huge' \
            else gg.gen_program_c02(rng, pk, name=name)
        md, specs = gen_metadata(rng, prog)
        self.prog, self.kind = prog, f'routes:{flavor}:{prog["kind"]}'
        self.md, self.specs = md, specs
        sig = h64(json.dumps([prog['name'], prog['params'], prog['nodes'],
                              prog.get('variants'), md, flavor],
                             sort_keys=True, default=str))
        acc.count('programs_generated')
        acc.count(f'route_cases_{flavor}')
        os.makedirs(self.cdir, exist_ok=True)
        self.tap.reset()
        # ---- build ------------------------------------------------------------------
        self.records = []
        boot_actions = None
        try:
            if flavor == 'deco':
                sd, boot_actions = self.build_decorated(prog)
            else:
                kw = gg.synthdef_kwargs(prog)
                mdo = self.make_md(md, specs)
                if mdo is not None:
                    kw['metadata'] = mdo
                ns = gg.namespace()
                sd = ns['SynthDef'](prog['name'], gg.make_func(prog, ns), **kw)
        except Exception as e:
            # a valid program that does not compile: judged by the other shards
            acc.count('route_constructor_raised')
            acc.case(sig, nontrivial=False)
            return
        try:
            ref = bytes(sd.as_bytes())
        except Exception:
            acc.count('route_writer_raised')
            acc.case(sig, nontrivial=False)
            return
        if flavor == 'huge':
            sd, ref = self.tune_huge(rng, prog, sd, ref)
            if sd is None:
                acc.case(sig, nontrivial=False)
                return
        d, problems = self.judge_bytes(ref, self.prog)
        if problems:
            # same keys as the shards that judge as_bytes() itself
            if not (self.P.folding_explains(self.prog, gg, self.scgf)):
                seen = set()
                for key, detail in problems:
                    if key not in seen:
                        seen.add(key)
                        self.viol(key, detail=detail[:800])
            acc.case(sig, nontrivial=False)
            return
        acc.count('definitions_parsed')
        acc.count('definitions_parsed_routes')
        self.sd, self.ref, self.d = sd, ref, d
        self.name = self.prog['name']
        self.exp_desc = self.P.expected_desc(d)
        self.name_from_bytes(ref, d.name, 'as_bytes')
        if flavor == 'deco':
            self.after_decoration(sd, boot_actions)
        # ---- history ------------------------------------------------------------------
        self.md_model = {}     # dir -> True (metadata of this definition stored) / False
        self.file_model = {}   # dir -> bytes expected in <name>.scsyndef
        self.recon = None
        ops = self.choose_ops(rng, flavor)
        for op in ops:
            self.history.append(op)
            try:
                getattr(self, 'op_' + op)(rng)
            except Problem:
                pass
            except Exception as e:      # harness or library exception outside an
                # operation's own try: report as internal, never a verdict
                acc.count('route_harness_exceptions')
                acc.extra.setdefault('route_harness_exceptions', []).append(
                    safe(short_tb, e, 6))
                if len(acc.extra['route_harness_exceptions']) > 20:
                    raise
        # ---- traffic ------------------------------------------------------------------
        try:
            self.tap.finish()
        except ScoreShape as e:
            self.shape_errors += 1
            acc.count('score_shape_unexpected')
            acc.case(sig, nontrivial=False)
            return
        except self.osc.OscError as e:
            self.viol('C02/route/packet-is-not-valid-osc', detail=str(e))
            acc.case(sig, nontrivial=False)
            return
        covered = 0
        for rec in self.records:
            covered += rec['b'] - rec['a']
            self.check_traffic(rec['op'], rec)
        if covered != len(self.tap.calls):
            self.viol('C02/route/message-outside-any-operation',
                      detail=f'{len(self.tap.calls) - covered} sends')
        again = bytes(sd.as_bytes())
        if again != ref:
            self.viol('C02/as-bytes-not-repeatable',
                      detail=f'{len(ref)} bytes before the history, {len(again)} after')
        acc.case(sig, nontrivial=len(d.units) >= 4 and len(self.records) >= 2)
        if acc.want_sample() and len(prog['nodes']) < 16 and len(ops) >= 4:
            acc.sample({'case': i, 'kind': self.kind, 'name': self.name,
                        'history': self.history, 'definition_bytes': len(ref),
                        'messages': [[m.addr] + [a if isinstance(a, (int, float, str))
                                                 else f'<{len(a)} bytes>'
                                                 if isinstance(a, (bytes, bytearray))
                                                 else repr(a) for a in m.args]
                                     for c in self.tap.calls for m in c['msgs']][:12]})

    # ---- flavours -------------------------------------------------------------------
    def tmp_name(self):
        acc = self.acc
        try:
            name = self.SynthDef.generate_tmp_name()
        except Exception as e:
            self.kind, self.prog = 'routes:tmpname', {'name': '?', 'params': [], 'nodes': []}
            self.viol(f'C02/route/generate_tmp_name/raises/{type(e).__name__}',
                      detail=repr(e)[:300])
            return None
        acc.count('tmp_names_checked')
        ok = isinstance(name, str) and 1 <= len(name) <= 255 and \
            all(32 <= ord(c) < 127 for c in name)
        if not ok or name in self.tmp_names:
            self.kind, self.prog = 'routes:tmpname', {'name': name, 'params': [], 'nodes': []}
            self.viol('C02/route/generate_tmp_name/' +
                      ('name-repeated' if ok else 'not-a-definition-name'),
                      detail=repr(name)[:300])
            return None
        self.tmp_names.add(name)
        return name

    def build_decorated(self, prog):
        """`@synthdef` / `@synthdef(**kwargs)` on the program's function"""
        gg = self.gg
        name = prog['name']
        kw = gg.synthdef_kwargs(prog)
        mdo = self.make_md(self.md, self.specs)
        if mdo is not None:
            kw['metadata'] = mdo
        ns = gg.namespace()
        ns['synthdef'] = self.synthdef_deco
        ns['_kw'] = kw
        src = gg.render(prog, fname=name)
        head = f'def {name}('
        assert src.count('\n' + head) + src.startswith(head) == 1
        deco = '@synthdef(**_kw)\n' if kw else '@synthdef\n'
        k = 0 if src.startswith(head) else src.index('\n' + head) + 1
        src = src[:k] + deco + src[k:]
        before = dict(self.sac.ServerBoot._servers.get('all', {}))
        a = self.tap.mark()
        exec(compile(src, f'<program {name}>', 'exec'), ns)
        b = self.tap.mark()
        after = self.sac.ServerBoot._servers.get('all', {})
        new = [f for f in after if f not in before]
        self.deco_span = (a, b)
        return ns[name], new

    def after_decoration(self, sd, boot_actions):
        acc = self.acc
        acc.count('route_decorator')
        if type(sd) is not self.SynthDef:
            self.viol('C02/route/decorator/not-a-synthdef', detail=repr(type(sd)))
        a, b = self.deco_span
        exp = [{'kind': 'def', 'target': self.tgt(s), 'bytes': self.ref,
                'name': self.name, 'local': s.addr.is_local}
               for s in self.booted()]
        self.records.append({'op': 'decorator', 'a': a, 'b': b, 'expect': exp})
        self.check_lib(self.deflib, 'decorator')
        if len(boot_actions) != 1:
            self.viol('C02/route/decorator/boot-action-not-registered',
                      detail=f'{len(boot_actions)} new ServerBoot actions')
        # the next boot: the registered action adds the definition again
        for f in boot_actions:
            self.deflib.synth_descs.clear()
            a = self.tap.mark()
            try:
                f(self.s0)
            except Exception as e:
                self.viol(f'C02/route/decorator-boot-action/raises/'
                          f'{type(e).__name__}/{site_of(e)}', detail=repr(e)[:300])
            b = self.tap.mark()
            self.records.append({'op': 'decorator-boot-action', 'a': a, 'b': b,
                                 'expect': [dict(x) for x in exp]})
            self.check_lib(self.deflib, 'decorator-boot-action')
            acc.count('route_decorator_boot_actions')
            self.sac.ServerBoot.remove('all', f)

    def tune_huge(self, rng, prog, sd, ref):
        """choose the number of oscillators and then the name length so that
        the /d_recv message lands within a few bytes of the datagram bound
        (message = 8 address + 4 tags + 4 size + blob padded to 4 + 4 for the
        absent completion message)"""
        gg = self.gg
        target = rng.choice([65504, 65507, 65508, 65500, 65512, 65496, 65520,
                             rng.randint(65440, 65560), rng.randint(64000, 67000)])
        want = target - 20
        for _ in range(5):
            n = len(prog['name']) + (want - len(ref))
            if 1 <= n <= 246:
                prog = dict(prog, name=''.join(rng.choice(IDENT) for _ in range(n)))
            else:
                raw = dict(prog['nodes'][-1])
                k = int(re.search(r'range\((\d+)\)', raw['src']).group(1))
                k += round((want - len(ref) + len(prog['name']) - 120) / 56)
                raw['src'] = re.sub(r'range\(\d+\)', f'range({max(k, 1)})', raw['src'])
                prog = dict(prog, nodes=prog['nodes'][:-1] + [raw],
                            name=''.join(rng.choice(IDENT) for _ in range(120)))
            try:
                kw = gg.synthdef_kwargs(prog)
                mdo = self.make_md(self.md, self.specs)
                if mdo is not None:
                    kw['metadata'] = mdo
                ns = gg.namespace()
                sd = ns['SynthDef'](prog['name'], gg.make_func(prog, ns), **kw)
                ref = bytes(sd.as_bytes())
            except Exception:
                return None, None
            if len(ref) == want:
                break
        self.prog = prog
        self.acc.count('route_huge_tuned' if len(ref) == want
                       else 'route_huge_not_tunable')
        return sd, ref

    # ---- operations -----------------------------------------------------------------
    def choose_ops(self, rng, flavor):
        n = rng.randint(3, 8)
        if flavor == 'longname':
            pool = ['send', 'load', 'store', 'wdf', 'add', 'lff']
        elif flavor == 'huge':
            pool = ['send', 'send', 'store', 'add', 'load', 'wdf', 'recon', 'read']
        else:
            pool = ['send', 'load', 'store', 'wdf', 'sff', 'lff', 'read', 'read',
                    'libread', 'recon', 'md', 'add', 'v1', 'multi', 'match']
        return [rng.choice(pool) for _ in range(n)]

    def pick_dir(self, rng):
        """(argument to pass, directory as a string)"""
        k = rng.randrange(4)
        if k == 0:
            return None, self.default_dir
        sub = os.path.join(self.cdir, rng.choice(['a', 'b', 'with space']))
        os.makedirs(sub, exist_ok=True)
        if k == 1:
            import pathlib
            return pathlib.Path(sub), sub
        return sub, sub

    def pick_completion(self, rng):
        """(argument, {target: expected message})"""
        k = rng.randrange(4)
        if k <= 1:
            return None, (lambda s: None)
        if k == 2:
            # (plain characters only: what the OSC layer does with '[' or ']'
            # as a string argument is not this property's subject)
            msg = ['/s_new', re.sub('[^A-Za-z0-9_]', '_', self.name[:40]),
                   1000 + rng.randrange(50), 0, 1]
            return list(msg), (lambda s: msg)
        base = rng.randrange(100)

        def fn(server):
            return ['/n_free', base + server.addr.port % 1000]
        return fn, (lambda s: ['/n_free', base + s.addr.port % 1000])

    def pick_server(self, rng, remote_ok=True):
        return rng.choice([self.s0, self.s0, self.s1] +
                          ([self.remote] if remote_ok else []))

    def path_of(self, d):
        return os.path.join(d, self.name + SUFFIX)

    def md_path_of(self, d):
        return os.path.join(d, self.name + MD_SUFFIX)

    def storable(self):
        return len(self.name) + len(SUFFIX) <= NAME_MAX

    def call(self, op, fn, expect_exc=None):
        """runs one library operation; returns (a, b, exception)"""
        a = self.tap.mark()
        exc = None
        try:
            fn()
        except Exception as e:
            exc = e
        b = self.tap.mark()
        self.acc.count('route_' + op)
        if exc is not None and expect_exc is None:
            self.records.append({'op': op, 'a': a, 'b': b, 'expect': [],
                                 'optional': self.any_optional()})
            self.viol(raise_key(op, exc),
                      detail=safe(lambda: f'{op}: {exc!r}'[:300]), tb=safe(short_tb, exc, 6))
            raise Problem()
        if exc is None and expect_exc is not None:
            self.acc.count(f'route_{op}_expected_rejection_missing')
        if exc is not None:
            self.acc.count(f'route_{op}_rejected')
            if not isinstance(exc, expect_exc):
                self.viol(raise_key(op, exc), detail=safe(lambda: f'{op}: {exc!r}'[:300]))
        return a, b, exc

    def any_optional(self):
        return [{'kind': 'def', 'target': self.tgt(s), 'bytes': self.ref,
                 'name': self.name, 'local': s.addr.is_local, 'completion': None,
                 'lenient': True}
                for s in (self.s0, self.s1, self.remote) for _ in range(2)]

    def def_expect(self, servers, comp):
        return [{'kind': 'def', 'target': self.tgt(s), 'bytes': self.ref,
                 'name': self.name, 'local': s.addr.is_local,
                 'completion': comp(s)} for s in servers]

    def split_big_remote(self, exp):
        """a definition that does not fit a datagram cannot reach a remote
        server: nothing (a warning) is acceptable there"""
        need, opt = [], []
        for e in exp:
            (opt if (not e['local'] and len(self.ref) > 60000) else need).append(e)
        return need, opt

    def check_file(self, op, d, want=None):
        self.acc.count('route_files_judged')
        have = _snap(self.path_of(d))
        want = self.ref if want is None else want
        if have is None:
            self.viol(f'C02/route/{op}/file-missing', detail=self.path_of(d))
        elif have != want:
            k0 = next((k for k, (x, y) in enumerate(zip(have, want)) if x != y),
                      min(len(have), len(want)))
            self.viol(f'C02/route/{op}/file-bytes-differ',
                      detail=f'{len(have)} bytes in the file, expected {len(want)}; '
                             f'first difference at {k0}; ' + self.explain(have))
        elif want is self.ref:
            self.name_from_bytes(have, self.name, f'{op} file')

    def check_md_file(self, op, d):
        """after a write of the definition into d: metadata next to it"""
        self.acc.count('md_files_judged')
        p = self.md_path_of(d)
        if self.md is None:
            if os.path.exists(p):
                self.viol(f'C02/metadata/{op}/stale-file-left',
                          detail='the definition has no metadata, a metadata '
                                 'file of an earlier definition of that name remains')
            return
        try:
            with open(p) as f:
                got = json.load(f)
        except FileNotFoundError:
            return self.viol(f'C02/metadata/{op}/file-missing', detail=p)
        except ValueError as e:
            return self.viol(f'C02/metadata/{op}/not-json', detail=str(e)[:200])
        specs = got.pop('specs', None) if isinstance(got, dict) else None
        if got != json.loads(json.dumps(self.md)) or (specs is None) != (not self.specs) \
                or (specs is not None and set(specs) != set(self.specs)):
            self.viol(f'C02/metadata/{op}/content-differs',
                      detail=f'{got!r} specs {specs!r} != {self.md!r} {self.specs!r}'[:600])

    def check_lib(self, lib, op):
        self.acc.count('lib_entries_judged')
        desc = lib.synth_descs.get(self.name)
        if desc is None:
            return self.viol(f'C02/route/{op}/description-not-in-library',
                             detail=f'{lib.name}: {sorted(lib.synth_descs)[:5]}')
        for what, detail in self.P.compare_desc(desc, self.exp_desc, self.acc):
            self.viol(f'C02/reader/{what}', detail=f'{op} -> {lib.name}: {detail}')

    def plant_stale(self, rng, d):
        """another definition's file (and metadata) under this name"""
        stale = container([self.ref[10:], self.ref[10:]]) \
            if rng.random() < 0.5 and not self.d.variants \
            else b'SCgf' + bytes(rng.randrange(256) for _ in range(rng.randint(0, 400)))
        with open(self.path_of(d), 'wb') as f:
            f.write(stale)
        with open(self.md_path_of(d), 'w') as f:
            json.dump({'stale': True}, f)
        self.acc.count('stale_files_planted')
        return stale

    # .. emission .......................................................................
    def op_send(self, rng):
        k = rng.randrange(5)
        if k == 0:
            arg, servers = None, self.booted()
        elif k == 1:
            lst = rng.sample([self.s0, self.s1, self.remote], 2)
            arg, servers = lst, lst
        else:
            s = self.pick_server(rng)
            arg, servers = s, [s]
        comp_arg, comp = self.pick_completion(rng)
        a, b, _ = self.call('send', lambda: self.sd.send(arg, comp_arg))
        need, opt = self.split_big_remote(self.def_expect(servers, comp))
        self.records.append({'op': 'send', 'a': a, 'b': b, 'expect': need,
                             'optional': opt})

    def op_add(self, rng):
        if rng.random() < 0.5:
            arg, lib, servers = None, self.deflib, self.booted()
        else:
            arg, lib, servers = 'vfc02', self.lib, list(self.lib.servers)
        comp_arg, comp = self.pick_completion(rng)
        a, b, _ = self.call('add', lambda: self.sd.add(arg, comp_arg))
        need, opt = self.split_big_remote(self.def_expect(servers, comp))
        self.records.append({'op': 'add', 'a': a, 'b': b, 'expect': need,
                             'optional': opt})
        self.check_lib(lib, 'add')
        if rng.random() < 0.4 and set(lib.synth_descs) == {self.name}:
            # every description of the library goes to the given server(s)
            # (an explicit server: which servers `None` stands for is not
            # this property's subject)
            s = self.pick_server(rng)
            sarg, to = s, [s]
            self.history.append('lib.send')
            a, b, _ = self.call('lib-send', lambda: lib.send(sarg))
            need, opt = self.split_big_remote(self.def_expect(to, lambda s: None))
            self.records.append({'op': 'lib-send', 'a': a, 'b': b, 'expect': need,
                                 'optional': opt})

    def op_load(self, rng):
        darg, d = self.pick_dir(rng)
        s = self.pick_server(rng)
        sarg = None if (s is self.s0 and rng.random() < 0.3) else s
        comp_arg, comp = self.pick_completion(rng)
        if rng.random() < 0.3 and self.storable():
            self.plant_stale(rng, d)
        ok = self.storable()
        a, b, exc = self.call('load', lambda: self.sd.load(sarg, comp_arg, darg),
                              None if ok else OSError)
        if not ok:
            self.records.append({'op': 'load', 'a': a, 'b': b, 'expect': []})
            return
        self.check_file('load', d)
        self.check_md_file('load', d)
        self.file_model[d] = self.ref
        self.records.append({'op': 'load', 'a': a, 'b': b, 'expect': [
            {'kind': 'load', 'target': self.tgt(s), 'path': self.path_of(d),
             'bytes': self.ref, 'name': self.name, 'completion': comp(s)}]})

    def op_store(self, rng):
        darg, d = self.pick_dir(rng)
        libname, lib = rng.choice([('default', self.deflib), ('vfc02', self.lib)])
        comp_arg, comp = self.pick_completion(rng)
        plug = None if rng.random() < 0.6 else self.MdPlugin()
        if rng.random() < 0.3 and self.storable():
            self.plant_stale(rng, d)
        lib.synth_descs.pop(self.name, None)
        ok = self.storable()
        kw = {}
        if rng.random() < 0.5:
            fn = lambda: self.sd.store(libname, darg, comp_arg, plug)      # noqa
        else:
            fn = lambda: self.sd.store(libname=libname, dir=darg,          # noqa
                                       completion_msg=comp_arg, md_plugin=plug)
        a, b, exc = self.call('store', fn, None if ok else OSError)
        if not ok:
            self.records.append({'op': 'store', 'a': a, 'b': b, 'expect': []})
            return
        self.check_file('store', d)
        self.check_md_file('store', d)
        self.check_lib(lib, 'store')
        self.file_model[d] = self.ref
        need, opt = self.split_big_remote(self.def_expect(list(lib.servers), comp))
        self.records.append({'op': 'store', 'a': a, 'b': b, 'expect': need,
                             'optional': opt})

    def op_wdf(self, rng):
        darg, d = self.pick_dir(rng)
        overwrite = rng.random() < 0.5
        stale = None
        if rng.random() < 0.5 and self.storable():
            stale = self.plant_stale(rng, d)
        elif os.path.exists(self.path_of(d)):
            stale = _snap(self.path_of(d))
        ok = self.storable()
        if rng.random() < 0.5:
            fn = lambda: self.sd._write_def_file(darg, overwrite)          # noqa
        elif overwrite:
            fn = lambda: self.sd._write_def_file(darg)                     # noqa
        else:
            fn = lambda: self.sd._write_def_file(darg, overwrite=False)    # noqa
        a, b, exc = self.call('write_def_file', fn, None if ok else OSError)
        self.records.append({'op': 'write_def_file', 'a': a, 'b': b, 'expect': []})
        if not ok:
            return
        if stale is not None and not overwrite:
            # an existing file is kept as it is
            self.acc.count('route_write_def_file_kept_existing')
            self.check_file('write_def_file-no-overwrite', d, want=stale)
            self.file_model[d] = stale
        else:
            self.check_file('write_def_file', d)
            self.check_md_file('write_def_file', d)
            self.check_lib(self.deflib, 'write_def_file')
            self.file_model[d] = self.ref

    def ensure_file(self, rng, d):
        """the definition's file in d, written by one of the library's routes"""
        if self.file_model.get(d) == self.ref and _snap(self.path_of(d)) == self.ref:
            return True
        try:
            self.sd._write_def_file(d)
        except Exception:
            return False
        if _snap(self.path_of(d)) != self.ref:
            return False
        self.file_model[d] = self.ref
        return True

    def op_sff(self, rng):
        darg, d = self.pick_dir(rng)
        s = self.pick_server(rng)
        present = rng.random() < 0.8 and self.ensure_file(rng, d)
        if not present and os.path.exists(self.path_of(d)):
            os.unlink(self.path_of(d))
            self.file_model.pop(d, None)
        content = _snap(self.path_of(d))
        a = self.tap.mark()
        exc = None
        try:
            if rng.random() < 0.5:
                self.SynthDef.send_from_file(s, self.name, darg)
            else:
                self.SynthDef.send_from_file(s, self.name, dir=darg)
        except Exception as e:
            exc = e
        b = self.tap.mark()
        self.acc.count('route_send_from_file')
        if content is None:
            # nothing to send: a warning or an exception, but no command
            self.acc.count('route_send_from_file_missing_file')
            self.records.append({'op': 'send_from_file', 'a': a, 'b': b, 'expect': []})
            return
        if exc is not None:
            self.records.append({'op': 'send_from_file', 'a': a, 'b': b, 'expect': [],
                                 'optional': self.any_optional()})
            self.viol(f'C02/route/send_from_file/raises/{type(exc).__name__}/{site_of(exc)}',
                      detail=safe(lambda: repr(exc)[:300]))
            return
        self.records.append({'op': 'send_from_file', 'a': a, 'b': b, 'expect': [
            {'kind': 'recv', 'target': self.tgt(s), 'bytes': content,
             'name': self.name, 'completion': None}]})

    def op_lff(self, rng):
        darg, d = self.pick_dir(rng)
        s = self.pick_server(rng)
        comp_arg, comp = self.pick_completion(rng)
        have = self.storable() and rng.random() < 0.7 and self.ensure_file(rng, d)
        a, b, _ = self.call('load_from_file', lambda: self.SynthDef.load_from_file(
            s, self.name, comp_arg, darg))
        self.records.append({'op': 'load_from_file', 'a': a, 'b': b, 'expect': [
            {'kind': 'load', 'target': self.tgt(s), 'path': self.path_of(d),
             'bytes': self.ref if have else None, 'name': self.name,
             'completion': comp(s)}]})

    # .. reconstructed definitions ........................................................
    def op_recon(self, rng):
        """a definition read back from its file is sent by asking the server
        to load that file"""
        acc = self.acc
        if not self.storable():
            return
        darg, d = self.pick_dir(rng)
        if not self.ensure_file(rng, d):
            acc.count('route_recon_no_file')
            return
        path = self.path_of(d)
        rsd = None
        acc.count('route_reconstructed_attempts')
        self.note_md(d)
        descs = self.read_file(rng, d, keep=True, op='read-keep-defs')
        if descs:
            for ds in descs:
                if ds.name == self.name and ds.sdef is not None:
                    rsd = ds.sdef
        if rsd is not None:
            acc.count('reconstructed_defs_from_reader')
            md = rsd.metadata
            if not (isinstance(md, dict) and md.get('reconstructed') is True
                    and md.get('load_path') == path):
                self.viol('C02/reader/reconstructed-flag',
                          detail=f'metadata of the definition kept by the reader: '
                                 f'{md!r}'[:400] + f'; file {path}')
                rsd = None
        if rsd is None:
            # the documented marking, applied by the harness
            acc.count('reconstructed_defs_marked_by_harness')
            ns = self.gg.namespace()
            try:
                rsd = ns['SynthDef'](self.name, self.gg.make_func(self.prog, ns),
                                     **self.gg.synthdef_kwargs(self.prog),
                                     metadata={'reconstructed': True,
                                               'load_path': path})
            except Exception:
                return
        how = rng.choice(['send', 'send', 'load', 'store', 'wdf', 'send-list'])
        comp_arg, comp = self.pick_completion(rng)
        s = self.pick_server(rng)
        op = 'reconstructed-' + how
        if how == 'wdf':
            a, b, exc = self.call(op, lambda: rsd._write_def_file(darg), Exception)
            if exc is None:
                self.viol(f'C02/route/{op}/not-rejected',
                          detail='a reconstructed definition was written to a file')
            self.records.append({'op': op, 'a': a, 'b': b, 'expect': []})
            self.check_file(op, d)
            return
        if how == 'store':
            if GLOB_META & set(self.name):
                return          # store() reads the file back by pattern
            servers = list(self.lib.servers)
            self.lib.synth_descs.pop(self.name, None)
            fn = lambda: rsd.store('vfc02', darg, comp_arg)          # noqa
        elif how == 'load':
            servers = [s]
            fn = lambda: rsd.load(s, comp_arg, darg)                 # noqa
        elif how == 'send-list':
            servers = [self.s0, self.s1]
            fn = lambda: rsd.send(list(servers), comp_arg)           # noqa
        else:
            servers = [s]
            fn = lambda: rsd.send(s, comp_arg)                       # noqa
        remote = any(not x.addr.is_local for x in servers)
        a, b, exc = self.call(op, fn, Exception if remote else None)
        acc.count('route_load_reconstructed')
        if remote:
            if exc is None:
                acc.count('route_reconstructed_remote_not_rejected')
            self.records.append({'op': op, 'a': a, 'b': b, 'expect': []})
        else:
            self.records.append({'op': op, 'a': a, 'b': b, 'expect': [
                {'kind': 'load', 'target': self.tgt(x), 'path': path,
                 'bytes': self.ref, 'name': self.name, 'completion': comp(x)}
                for x in servers]})
            if how == 'store':
                self.check_lib(self.lib, op)
        self.check_file(op, d)

    # .. readers ......................................................................
    def expected_of_file(self, raw):
        defs = self.scgf.parse(raw, single=False)
        return [self.P.expected_desc(x) for x in defs]

    def read_file(self, rng, d, keep, op, pattern=False, others=()):
        """SynthDesc.read on the definition's file (or the directory pattern);
        returns the descriptions or None"""
        acc = self.acc
        acc.count('reader_read_file')
        if pattern:
            arg = os.path.join(glob.escape(d), '*' + SUFFIX)
            files = listing(d)
        else:
            arg = os.path.join(glob.escape(d), glob.escape(self.name) + SUFFIX)
            files = [self.path_of(d)]
        if rng.random() < 0.5:
            import pathlib
            arg = pathlib.Path(arg)
        want = {}
        for f in files:
            raw = _snap(f)
            try:
                for e in self.expected_of_file(raw):
                    want.setdefault(e['name'], []).append((e, f))
            except self.scgf.ScgfError:
                acc.count('reader_unparseable_file_in_dir')
                return None
        try:
            descs = self.SynthDesc.read(arg, keep) if rng.random() < 0.5 \
                else self.SynthDesc.read(arg, keep_defs=keep)
        except Exception as e:
            self.viol(f'C02/reader-raises/{type(e).__name__}/{site_of(e)}',
                      detail=safe(lambda: f'SynthDesc.read(file, keep_defs={keep}): '
                                          f'{e!r}'[:300]), tb=safe(short_tb, e, 6))
            return None
        acc.count('reader_read_file_returned')
        if sorted(x.name for x in descs) != sorted(
                n for n, lst in want.items() for _ in lst):
            self.viol('C02/reader/file-definition-count',
                      detail=f'{sorted(x.name for x in descs)[:6]} != '
                             f'{sorted(want)[:6]}')
            return None
        pend = {n: list(lst) for n, lst in want.items()}
        for ds in descs:
            e, f = pend[ds.name].pop(0)
            acc.count('reader_roundtrips')
            acc.count('reader_file_roundtrips')
            for what, detail in self.P.compare_desc(ds, e, acc):
                self.viol(f'C02/reader/{what}', detail=f'{op}: {detail}')
            if (ds.sdef is not None) != bool(keep):
                self.viol('C02/reader/keep-defs-flag',
                          detail=f'keep_defs={keep}, sdef is {type(ds.sdef).__name__}')
            # metadata next to the file (by the file's stem)
            if f == self.path_of(d) and len(want) == 1:
                acc.count('md_read_through_reader')
                stored = self.md_model.get(d, 'unknown')
                extra = {'reconstructed': True, 'load_path': f} if keep else None
                mdp = f[:-len(SUFFIX)] + MD_SUFFIX
                if not os.path.exists(mdp):
                    ok = self.md_equal(ds.metadata, None, None, extra)
                else:
                    ok = stored != 'mine' or self.md_equal(
                        ds.metadata, self.md, self.specs, extra)
                    if stored == 'mine':
                        acc.count('md_roundtrips_judged')
                if not ok:
                    self.viol('C02/metadata/read/differs',
                              detail=f'{ds.metadata!r} != {self.md!r} + {extra!r}'[:600])
        return descs

    def op_read(self, rng):
        if not self.storable():
            return
        darg, d = self.pick_dir(rng)
        if not self.ensure_file(rng, d):
            return
        self.note_md(d)
        keep = rng.random() < 0.4
        pattern = rng.random() < 0.4 and not self.name.startswith('.')
        if pattern and rng.random() < 0.6:
            self.add_neighbour(rng, d)
        self.read_file(rng, d, keep, 'read', pattern)

    def note_md(self, d):
        """whose metadata file lies next to the definition in d"""
        p = self.md_path_of(d)
        if not os.path.exists(p):
            self.md_model[d] = 'none'
            return
        try:
            with open(p) as f:
                got = json.load(f)
        except ValueError:
            self.md_model[d] = 'unknown'
            return
        self.md_model[d] = 'mine' if self.md is not None and isinstance(got, dict) \
            and {k: v for k, v in got.items() if k != 'specs'} == \
            json.loads(json.dumps(self.md)) else 'unknown'

    def add_neighbour(self, rng, d):
        """a second definition file in the same directory, written through
        _write_def_list or assembled by the harness"""
        other = self.gg.gen_program_c02(rng, rng.choice(['plain', 'mc', 'variants']),
                                        name='nb_' + ident_name(rng)[:20])
        try:
            osd = self.gg.build(other)
            raw = bytes(osd.as_bytes())
            self.scgf.parse(raw)
        except Exception:
            return None
        with open(os.path.join(d, other['name'] + SUFFIX), 'wb') as f:
            f.write(raw)
        self.acc.count('neighbour_files_written')
        return other['name']

    def op_multi(self, rng):
        """a file that holds several definitions"""
        acc = self.acc
        sub = os.path.join(self.cdir, 'multi')
        os.makedirs(sub, exist_ok=True)
        sds, raws = [], []
        for _ in range(rng.randint(1, 3)):
            other = self.gg.gen_program_c02(rng, rng.choice(['plain', 'mc', 'wf']),
                                            name='m_' + ident_name(rng)[:24])
            try:
                osd = self.gg.build(other)
                raw = bytes(osd.as_bytes())
                self.scgf.parse(raw)
            except Exception:
                continue
            sds.append(osd)
            raws.append(raw)
        if rng.random() < 0.4:
            # a definition with variant blocks in front of another one.  Its
            # first default is negative on purpose: a reader that does not
            # step over the blocks takes that float for a (negative) count and
            # fails at once instead of allocating gigabytes
            try:
                ns = self.gg.namespace()
                exec('def graph(a=-1.5, b=2.0):\n    Out.kr(0, SinOsc.kr(b) * a)\n', ns)
                psd = ns['SynthDef']('probe_' + ident_name(rng)[:8], ns['graph'],
                                     variants={'v': {'b': 3.0}, 'w': {'a': -2.0}})
                raw = bytes(psd.as_bytes())
                if self.scgf.parse(raw).variants and sds:
                    k = rng.randrange(len(sds))
                    sds.insert(k, psd)
                    raws.insert(k, raw)
            except Exception:
                pass
        # this case's definition: last when it has variant blocks itself
        k = len(sds) if self.d.variants else rng.randrange(len(sds) + 1)
        sds.insert(k, self.sd)
        raws.insert(k, self.ref)
        if len(sds) < 2:
            return
        want = container([r[10:] for r in raws])
        path = os.path.join(sub, 'several' + SUFFIX)
        if rng.random() < 0.5:
            # the library's own list writer
            acc.count('route_write_def_list')
            try:
                with open(path, 'wb') as f:
                    self.SynthDef._write_def_list(sds, f)
            except Exception as e:
                return self.viol(f'C02/route/write_def_list/raises/{type(e).__name__}'
                                 f'/{site_of(e)}', detail=repr(e)[:300])
            have = _snap(path)
            if have != want:
                return self.viol('C02/route/write_def_list/file-bytes-differ',
                                 detail=f'{len(have)} bytes, expected {len(want)}; '
                                        + self.explain_multi(have))
        else:
            with open(path, 'wb') as f:
                f.write(want)
        acc.count('multi_definition_files')
        exp = self.expected_of_file(want)
        parsed = self.scgf.parse(want, single=False)
        # class of input: a definition with variant blocks followed by another
        # definition (the reader has to step over the blocks)
        after_variants = any(x.variants for x in parsed[:-1])
        if after_variants:
            acc.count('multi_definition_files_with_variants_inside')
        AFTER = 'C02/reader/file-with-several-definitions/definition-after-variants'
        try:
            descs = self.SynthDesc.read(path, keep_defs=False)
        except Exception as e:
            return self.viol(AFTER if after_variants else
                             f'C02/reader-raises/{type(e).__name__}/{site_of(e)}',
                             detail=safe(lambda: f'file with {len(raws)} definitions: '
                                                 f'{e!r}'[:300]))
        if [x.name for x in descs] != [e['name'] for e in exp]:
            return self.viol(AFTER if after_variants else
                             'C02/reader/file-definition-count',
                             detail=f'{[x.name for x in descs]} != '
                                    f'{[e["name"] for e in exp]}'[:600])
        for ds, e in zip(descs, exp):
            acc.count('reader_roundtrips')
            acc.count('reader_file_roundtrips')
            for what, detail in self.P.compare_desc(ds, e, acc):
                self.viol(AFTER if after_variants else f'C02/reader/{what}',
                          detail=f'multi: {detail}')

    def explain_multi(self, raw):
        try:
            self.scgf.parse(raw, single=False)
            return 'the bytes are a complete file'
        except self.scgf.ScgfError as e:
            return f'not a definition file: {e}'

    def op_v1(self, rng):
        """version-1 container of the same definition: rejected, or read
        correctly - never read as something else"""
        acc = self.acc
        if any(len(x) > 32767 for x in (self.d.constants, self.d.params, self.d.units)):
            return
        raw = v1_bytes([self.d])
        acc.count('reader_v1_files')
        sub = os.path.join(self.cdir, 'v1')
        os.makedirs(sub, exist_ok=True)
        path = os.path.join(sub, 'old' + SUFFIX)
        with open(path, 'wb') as f:
            f.write(raw)
        try:
            if rng.random() < 0.5:
                descs = self.SynthDesc.read(path)
            else:
                descs = self.SynthDesc._read_stream(io.BytesIO(raw))
        except Exception:
            acc.count('reader_v1_files_rejected')
            return
        acc.count('reader_v1_files_read')
        bad = len(descs) != 1
        if not bad:
            bad = bool(self.P.compare_desc(descs[0], self.exp_desc, acc))
        if bad:
            self.viol('C02/reader/version-1-file-misread',
                      detail=f'{len(descs)} descriptions; ' + safe(
                          lambda: str(descs[0])[:400]))

    def op_libread(self, rng):
        if not self.storable():
            return
        acc = self.acc
        darg, d = self.pick_dir(rng)
        if not self.ensure_file(rng, d):
            return
        keep = rng.choice([True, True, False, None])
        pattern = rng.random() < 0.4 and not self.name.startswith('.')
        nb = self.add_neighbour(rng, d) if pattern and rng.random() < 0.6 else None
        if pattern:
            arg = os.path.join(glob.escape(d), '*' + SUFFIX)
        else:
            arg = os.path.join(glob.escape(d), glob.escape(self.name) + SUFFIX)
        lib = self.SynthDescLib('vfc02read', [self.s0])
        acc.count('reader_lib_read')
        try:
            if keep is None:
                lib.read(arg)
            else:
                lib.read(arg, keep)
        except Exception as e:
            return self.viol(f'C02/reader-raises/{type(e).__name__}/{site_of(e)}',
                             detail=safe(lambda: f'SynthDescLib.read(file, keep_defs='
                                                 f'{keep}): {e!r}'[:300]),
                             tb=safe(short_tb, e, 6))
        acc.count('reader_lib_read_returned')
        want = set()
        for f in (listing(d) if pattern else [self.path_of(d)]):
            try:
                want |= {e['name'] for e in self.expected_of_file(_snap(f))}
            except self.scgf.ScgfError:
                return
        if set(lib.synth_descs) != want:
            return self.viol('C02/reader/library-content-after-read',
                             detail=f'{sorted(lib.synth_descs)[:6]} != {sorted(want)[:6]}')
        self.check_lib(lib, 'lib-read')
        if keep is not False and rng.random() < 0.5:
            # definitions read from files are sent by asking for their files
            srv_ = rng.choice([self.s0, self.s1])
            files = listing(d) if pattern else [self.path_of(d)]
            exp = []
            for f in files:
                raw = _snap(f)
                for e in self.expected_of_file(raw):
                    exp.append({'kind': 'load', 'target': self.tgt(srv_), 'path': f,
                                'bytes': raw, 'name': e['name'], 'completion': None})
            self.history.append('lib.send(reconstructed)')
            a, b, _ = self.call('lib-send-reconstructed', lambda: lib.send(srv_))
            acc.count('route_load_reconstructed')
            self.records.append({'op': 'lib-send-reconstructed', 'a': a, 'b': b,
                                 'expect': exp})
        self.match_and_remove(rng, lib)

    def op_match(self, rng):
        """at / match / remove_at on a library filled by add()"""
        lib = self.SynthDescLib('vfc02match', [self.s1])
        a, b, _ = self.call('add', lambda: self.sd.add('vfc02match'))
        self.records.append({'op': 'add', 'a': a, 'b': b,
                             'expect': self.def_expect([self.s1], lambda s: None)})
        if rng.random() < 0.5:
            nm = 'mt_' + ident_name(rng)[:10]
            other = self.gg.gen_program_c02(rng, 'variants', name=nm)
            try:
                osd = self.gg.build(other)
                raw = bytes(osd.as_bytes())
                self.scgf.parse(raw)
            except Exception:
                osd = None
            if osd is not None:
                a, b, _ = self.call('add', lambda: osd.add('vfc02match'))
                self.records.append({'op': 'add', 'a': a, 'b': b, 'expect': [
                    {'kind': 'def', 'target': self.tgt(self.s1), 'bytes': raw,
                     'name': nm, 'local': True, 'completion': None}]})
        self.match_and_remove(rng, lib)

    def match_and_remove(self, rng, lib):
        """dict model; only queries whose answer does not depend on how a
        dotted name is split"""
        acc = self.acc
        names = set(lib.synth_descs)
        has_var = {}
        for n, ds in lib.synth_descs.items():
            has_var[n] = bool(self.d.variants) if n == self.name else None
        dotted_clash = any('.' in n and n.split('.', 1)[0] in names for n in names)

        def ask(q, want):
            acc.count('lib_match')
            try:
                got = lib.match(q)
            except KeyError:
                got = KeyError
            except Exception as e:
                return self.viol(f'C02/library/match/raises/{type(e).__name__}',
                                 detail=f'{q!r}: {e!r}'[:300])
            if want is KeyError:
                if got is not KeyError:
                    self.viol('C02/library/match/unknown-name-found',
                              detail=f'{q!r} -> {getattr(got, "name", got)!r}')
            elif got is KeyError or got.name != want:
                self.viol('C02/library/match/wrong-description',
                          detail=f'{q!r} -> {getattr(got, "name", got)!r}, '
                                 f'expected {want!r}')
        if self.name in names and not dotted_clash:
            if '.' not in self.name or self.name.split('.', 1)[0] not in names:
                ask(self.name, self.name)
            if self.d.variants and '.' not in self.name:
                vn = self.d.variants[0][0]          # "name.variant" as written
                ask(vn, self.name)
            elif not self.d.variants and '.' not in self.name:
                ask(self.name + '.nosuch', KeyError)
        q = 'zz_' + ''.join(rng.choice(IDENT) for _ in range(6))
        if q not in names:
            ask(q, KeyError)
        # at
        if self.name in names:
            try:
                if lib.at(self.name).name != self.name:
                    self.viol('C02/library/at/wrong-description', detail=self.name)
            except Exception as e:
                self.viol(f'C02/library/at/raises/{type(e).__name__}', detail=repr(e)[:200])
        # remove_at
        acc.count('lib_remove_at')
        victim = rng.choice(sorted(names)) if names else None
        if victim is not None:
            try:
                lib.remove_at(victim)
            except Exception as e:
                return self.viol(f'C02/library/remove_at/raises/{type(e).__name__}',
                                 detail=f'{victim!r}: {e!r}'[:300])
            if set(lib.synth_descs) != names - {victim}:
                self.viol('C02/library/remove_at/content-differs',
                          detail=f'{sorted(lib.synth_descs)[:6]} after removing '
                                 f'{victim!r} from {sorted(names)[:6]}')
            try:
                lib.at(victim)
                self.viol('C02/library/remove_at/still-there', detail=victim)
            except KeyError:
                pass
            except Exception as e:
                self.viol(f'C02/library/at/raises/{type(e).__name__}', detail=repr(e)[:200])
        try:
            lib.remove_at(q)
            self.viol('C02/library/remove_at/unknown-name-accepted', detail=q)
        except KeyError:
            pass
        except Exception as e:
            self.viol(f'C02/library/remove_at/raises/{type(e).__name__}',
                      detail=repr(e)[:200])
        self.SynthDescLib.all.pop(lib.name, None)

    # .. metadata plug-in .................................................................
    def op_md(self, rng):
        if not self.storable():
            return
        acc = self.acc
        darg, d = self.pick_dir(rng)
        if rng.random() < 0.7:
            if not self.ensure_file(rng, d):
                return
        before = _snap(self.path_of(d))
        plug = self.MdPlugin()
        p = self.md_path_of(d)
        for step in [rng.choice(['write', 'read', 'read_file', 'delete'])
                     for _ in range(rng.randint(2, 5))]:
            acc.count('md_' + step)
            self.history.append('md.' + step)
            try:
                if step == 'write':
                    if rng.random() < 0.3:
                        with open(p, 'w') as f:
                            json.dump({'stale': 1}, f)
                    plug.write(self.sd, darg if darg is not None else d)
                    self.check_md_file('plugin-write', d)
                elif step == 'delete':
                    plug.delete(self.sd, darg if darg is not None else d)
                    if os.path.exists(p):
                        self.viol('C02/metadata/plugin-delete/file-left', detail=p)
                else:
                    self.note_md(d)
                    got = plug.read(self.sd, darg if darg is not None else d) \
                        if step == 'read' else plug.read_file(p)
                    st = self.md_model[d]
                    if st == 'none' and got is not None:
                        self.viol(f'C02/metadata/plugin-{step}/invented', detail=repr(got)[:300])
                    elif st == 'mine':
                        acc.count('md_roundtrips_judged')
                        if not self.md_equal(got, self.md, self.specs):
                            self.viol(f'C02/metadata/plugin-{step}/differs',
                                      detail=f'{got!r} != {self.md!r} {self.specs!r}'[:600])
            except Exception as e:
                self.viol(f'C02/metadata/plugin-{step}/raises/{type(e).__name__}/'
                          f'{site_of(e)}', detail=safe(lambda: repr(e)[:300]))
        if _snap(self.path_of(d)) != before:
            self.viol('C02/metadata/definition-file-changed',
                      detail='the definition file changed during metadata operations')


def run(spec, acc, mode):
    Routes(spec, acc, mode).run()
