"""C02 (round 9) - graph functions that recover from a SynthDef.wrap whose
helper fails in its BODY, i.e. after the helper's controls were built.

Class of behaviour.  `SynthDef.wrap(helper)` first turns the helper's
parameters into controls (control names, default values, one Control /
TrigControl / AudioControl / LagControl unit per rate group, each unit carrying
the offset of its first slot as its special index) and only then runs the
helper.  The 'wrap' programs of vf/gen_graph.py fail *before* that point (bad
rate annotation): nothing was registered, so "program with the failed wrap ==
program without it".  Here the helper has 1-4 parameters (kr / ir / tr / ar by
annotation or by the `rates` argument, lags, tuple defaults, an optional
prepended argument) and the fault happens while its body runs:

  user        raise RuntimeError / ValueError / KeyError / own exception class,
              1 / 0, assert, [][1], {}['k']
  library     an operator the library refuses (UGen * 'abc', 'abc' + UGen,
              UGen ** None, UGen < object()), Mix.new / .range with a string,
              a nested SynthDef.wrap the library rejects (not a function, bad
              rate annotation, tuple default of rank 2, *args)
  python      misuse of the control objects (subscript, float(), len(),
              unknown attribute, unknown keyword, '@')

in one of the forms

  own                     the helper's own statement fails
  inner-ok-then-own       the helper wraps a valid inner helper, then fails
  inner-fails             the helper wraps an inner helper (with parameters)
                          whose body fails; the helper does not handle it
  inner-ok-inner-fails    both
  outer-ok-inner-caught   the helper itself handles the failure of its inner
                          helper and returns a signal (a failed wrap inside a
                          successful one)

The graph function catches the exception (`except Exception` or the class
raised), uses a fallback signal and carries on: more units, further failing
wraps (body or annotation), fall-back wraps of valid helpers (own ones with ar
/ lag / array / prepended parameters and the generator's `wrapok` nodes) with
other parameter names, sinks.  (A fall-back helper with the *same* parameter
names would give two controls of one name whenever the failed helper's
controls are kept, which is what the library does; that is the caller's
doing, not a property of the bytes, so it stays outside the domain.)

What is judged (vf/props/C02.py, unchanged predicates): the bytes parse
strictly, the control units partition the control table (every slot owned by
exactly one control unit, inside the table), every declared control has its
default, unit class and rate, the library's reader accepts the bytes and
returns what the independent parse predicts.  What the statement leaves open
is accepted either way: the controls of a helper that failed (and of helpers
wrapped inside it) may be kept as a whole (names, defaults, unit: what the
library does today) or dropped as a whole (a complete roll-back), per wrap
level; `resolve` picks the combination the emitted name table shows.  When
everything is kept the bytes must equal those of the twin program in which
the failing statements are simply absent (the fault itself leaves no
residue); the twin is the same source text minus the failing statement and
the try/except.

Everything here is data -> source text; sc3 is not imported.
"""

import copy

CONSTS = [0, 1, 0.5, 0.25, 0.125, 0.75, 1.5, 2, 3, 440, -1, -0.5, 2.5, 100]
FREQS = [55, 110, 220, 330, 660]

# (label, who raises, statement, exception classes a precise handler names)
# {x}: a unit generator built in the helper, {p}: a scalar control of it
FAILS = [
    ('raise-runtime', 'user', "raise RuntimeError('helper failed')", 'RuntimeError'),
    ('raise-value', 'user', "raise ValueError('bad helper argument')", 'ValueError'),
    ('raise-key', 'user', "raise KeyError('missing')", 'KeyError'),
    ('raise-own-class', 'user', "raise _HelperError('helper failed')", '_HelperError'),
    ('zero-division', 'user', "_q = 1 / 0", 'ZeroDivisionError'),
    ('assert', 'user', "assert False, 'helper'", 'AssertionError'),
    ('index', 'user', "_q = [][1]", 'IndexError'),
    ('dict-key', 'user', "_q = {{}}['k']", 'KeyError'),
    ('ugen-times-str', 'library', "_q = {x} * 'abc'", 'TypeError'),
    ('str-plus-ugen', 'library', "_q = 'abc' + {x}", 'TypeError'),
    ('ugen-pow-none', 'library', "_q = {x} ** None", 'TypeError'),
    ('ugen-lt-object', 'library', "_q = {x} < object()", 'TypeError'),
    ('control-times-str', 'library', "_q = {p} * 'abc'", 'TypeError'),
    ('mix-str', 'library', "_q = Mix.new(['a', {x}])", 'TypeError'),
    ('range-str', 'library', "_q = {x}.range('a', 2)", 'TypeError'),
    ('wrap-not-a-function', 'library', "_q = SynthDef.wrap(42)", 'TypeError'),
    ('wrap-bad-annotation', 'library',
     "def _bad(a: 'xr' = 1, b=2):\n    return a\n_q = SynthDef.wrap(_bad)",
     'ValueError'),
    ('wrap-late-bad-annotation', 'library',
     "def _bad(a=1, b: 'ir' = 2, c: 'audio' = 3):\n    return a\n"
     "_q = SynthDef.wrap(_bad)", 'ValueError'),
    ('wrap-tuple-rank', 'library',
     "def _bad(a=1, b=((1, 2), 3)):\n    return a\n_q = SynthDef.wrap(_bad)",
     'ValueError'),
    ('wrap-star-args', 'library',
     "def _bad(a=1, *b):\n    return a\n_q = SynthDef.wrap(_bad)", 'ValueError'),
    ('wrap-empty-tuple', 'library',
     "def _bad(a=1, b=()):\n    return a\n_q = SynthDef.wrap(_bad)", 'ValueError'),
    ('control-subscript', 'python', "_q = {p}[3]", 'TypeError'),
    ('control-float', 'python', "_q = float({p})", 'TypeError'),
    ('control-len', 'python', "_q = len({p})", 'TypeError'),
    ('control-attribute', 'python', "_q = {p}.nosuchattribute", 'AttributeError'),
    ('unknown-keyword', 'python', "_q = SinOsc.ar({p}, nosuchkeyword=2)", 'TypeError'),
    ('matmul', 'python', "_q = {x} @ 3", 'TypeError'),
]
FORMS = ['own', 'own', 'own', 'inner-ok-then-own', 'inner-fails',
         'inner-ok-inner-fails', 'outer-ok-inner-caught']


def _num(x):
    return repr(x) if x >= 0 else f'({x!r})'


def _default_src(d):
    if isinstance(d, list):
        return '(' + ', '.join(_num(x) for x in d) + ',)'
    return _num(d)


class _Names:
    """fresh parameter names: never those of the function (p<k>, gate), of the
    generator's helpers (w<k>) or of another helper of this program"""

    def __init__(self, tag):
        self.tag = tag
        self.k = 0

    def __call__(self):
        self.k += 1
        return f'b{self.tag}_{self.k}'


def _helper(rng, fresh, rich=True, prepend_ok=True):
    """one helper as data: its parameters and how SynthDef.wrap is called"""
    n = rng.randint(1, 4)
    params = []
    for k in range(n):
        annot = rng.choice([None, None, None, 'kr', 'ir', 'tr', 'ar'] if rich
                           else [None, None, 'kr', 'ir', 'tr'])
        d = rng.choice(CONSTS)
        if rich and k > 0 and rng.random() < 0.2:
            d = [rng.choice(CONSTS) for _ in range(rng.randint(2, 3))]
        params.append({'name': fresh(), 'default': d, 'annot': annot,
                       'rate_arg': None})
    # the `rates` argument: lags for control-rate parameters, rate words that
    # override the annotation
    use_rates = rich and rng.random() < 0.45
    if use_rates:
        for p in params:
            r = rng.random()
            if r < 0.3 and p['annot'] in (None, 'kr'):
                p['rate_arg'] = rng.choice([0.5, 0.25, 2])
            elif r < 0.5:
                p['rate_arg'] = rng.choice(['kr', 'ir', 'tr', 'ar'])
    h = {'params': params, 'freq': rng.choice(FREQS), 'prepend': None}
    if prepend_ok and rich and rng.random() < 0.2:
        h['prepend'] = {'name': fresh(), 'value': rng.choice([0.5, 2, 0.25])}
    return h


def _declared(h, group):
    out = []
    for p in h['params']:
        ra = p['rate_arg']
        rate = ra if isinstance(ra, str) else (p['annot'] or 'kr')
        lag = ra if isinstance(ra, (int, float)) and rate == 'kr' else 0
        out.append({'name': p['name'], 'default': p['default'], 'rate': rate,
                    'lag': lag, 'group': group})
    return out


def _def_line(fname, h):
    ps = []
    if h['prepend']:
        ps.append(h['prepend']['name'])
    for p in h['params']:
        if p['annot'] is not None:
            ps.append(f"{p['name']}: {p['annot']!r} = {_default_src(p['default'])}")
        else:
            ps.append(f"{p['name']}={_default_src(p['default'])}")
    return f"def {fname}({', '.join(ps)}):"


def _call(fname, h):
    args = [fname]
    if any(p['rate_arg'] is not None for p in h['params']):
        args.append('rates=[' + ', '.join(repr(p['rate_arg'])
                                         for p in h['params']) + ']')
    if h['prepend']:
        args.append(f"prepend=[{_num(h['prepend']['value'])}]")
    return f"SynthDef.wrap({', '.join(args)})"


def _scalar(h):
    """a parameter of the helper that is one control (not an array)"""
    for p in h['params']:
        if not isinstance(p['default'], list):
            return p['name']
    return None


def _pre_lines(rng, h):
    """statements of a helper before the fault: units that read its controls"""
    s = _scalar(h)
    lines = [f"_x = SinOsc.ar({h['freq']}) * {s if s else 1}"]
    for p in rng.sample(h['params'], rng.randint(0, len(h['params']))):
        lines.append(rng.choice([
            "_y = LFSaw.ar({p})", "_y = SinOsc.ar(110) * {p}",
            "_y = _x + {p}", "_n = WhiteNoise.ar() * {p}",
            "_y = Lag.kr(LFNoise0.kr(3), 0.5) * {p}"]).format(p=p['name']))
    if h['prepend']:
        lines.append(f"_x = _x * {h['prepend']['name']}")
    if rng.random() < 0.25:
        lines.append("_n = Dust.kr(2)")          # a unit nobody reads
    return lines


def _fail_lines(fail, h):
    s = _scalar(h) or '_x'
    return fail[2].format(x='_x', p=s).split('\n')


def _indent(lines, n=1):
    return ['    ' * n + ln for ln in lines]


def _body_failure(rng, i, fallback_src, fresh, group0):
    """data of one node: a wrap whose helper fails in its body.
    -> (src, twin_src, levels, info)"""
    form = rng.choice(FORMS)
    fail = rng.choice(FAILS)
    outer = _helper(rng, fresh)
    inner_ok = _helper(rng, fresh, prepend_ok=False) \
        if form in ('inner-ok-then-own', 'inner-ok-inner-fails') else None
    inner_bad = _helper(rng, fresh) \
        if form in ('inner-fails', 'inner-ok-inner-fails',
                    'outer-ok-inner-caught') else None
    if form == 'outer-ok-inner-caught' and _scalar(outer) is None:
        outer['params'][0]['default'] = 0.5
    handler = rng.choice(['Exception', 'Exception', fail[3],
                          f'({fail[3]}, OSError)'])
    pre_outer = _pre_lines(rng, outer)
    pre_inner = _pre_lines(rng, inner_bad) if inner_bad else None
    levels = [{'params': _declared(outer, group0),
               'optional': form != 'outer-ok-inner-caught'}]
    if inner_ok:
        levels.append({'params': _declared(inner_ok, group0 + 1),
                       'optional': True})
    if inner_bad:
        levels.append({'params': _declared(inner_bad, group0 + 2),
                       'optional': True})

    def source(twin):
        L = []
        if fail[0] == 'raise-own-class':
            L += ["class _HelperError(Exception):", "    pass"]
        L.append(_def_line(f'_hb{i}', outer))
        B = list(pre_outer)
        if inner_ok:
            B.append(_def_line('_inner_ok', inner_ok))
            B.append(f"    return SinOsc.ar({inner_ok['freq']}) * "
                     f"{_scalar(inner_ok) or 0.5}")
            B.append(f"_x = _x + {_call('_inner_ok', inner_ok)}")
        if inner_bad:
            B.append(_def_line('_inner_bad', inner_bad))
            B += _indent(pre_inner)
            if not twin:
                B += _indent(_fail_lines(fail, inner_bad))
            if form == 'outer-ok-inner-caught':
                if twin:
                    B += [_call('_inner_bad', inner_bad), "_z = 0.25"]
                else:
                    B += ["try:", f"    _z = {_call('_inner_bad', inner_bad)}",
                          f"except {handler}:", "    _z = 0.25"]
                B.append(f"return SinOsc.ar({outer['freq']}) * "
                         f"{_scalar(outer)} * _z")
            else:
                B.append(f"_z = {_call('_inner_bad', inner_bad)}")
        elif not twin:
            B += _fail_lines(fail, outer)
        L += _indent(B)
        if form == 'outer-ok-inner-caught':
            L.append(f"v{i} = {_call(f'_hb{i}', outer)}")
        elif twin:
            L += [_call(f'_hb{i}', outer), f"v{i} = {fallback_src}"]
        else:
            L += ["try:", f"    v{i} = {_call(f'_hb{i}', outer)}",
                  f"except {handler}:", f"    v{i} = {fallback_src}"]
        return '\n'.join(L)

    info = {'form': form, 'fail': fail[0], 'raised_by': fail[1],
            'handler': 'broad' if handler == 'Exception' else 'precise'}
    return source(False), source(True), levels, info


def _success_wrap(rng, i, fresh, group):
    h = _helper(rng, fresh)
    src = '\n'.join([
        _def_line(f'_hs{i}', h),
        f"    return SinOsc.ar({h['freq']}) * {_scalar(h) or 0.5}"
        + (f" * {h['prepend']['name']}" if h['prepend'] else ''),
        f"v{i} = _lst({_call(f'_hs{i}', h)})[0]"])
    return src, [{'params': _declared(h, group), 'optional': False}]


def _opnd_src(o):
    if o[0] == 'c':
        return _num(o[1])
    return f'v{o[1]}'


def gen_program(rng, gg):
    """a 'wrap' program of the shared generator in which failing wraps fail in
    the helper's body; raw nodes carry 'wb': {'src' is what runs, 'twin_src'
    the same text without the fault, 'levels' the controls of every wrap
    level in creation order}"""
    prog = gg.gen_program_c02(rng, 'wrap')
    nodes = prog['nodes']
    fresh = _Names('f')
    group = [1000]

    def new_group():
        group[0] += 10
        return group[0]

    first = None
    fails = [i for i, nd in enumerate(nodes) if nd['k'] == 'wrapfail']
    convert = [i for i in fails if rng.random() < 0.65]
    tail = not convert or rng.random() < 0.5
    for i in convert:
        src, twin_src, levels, info = _body_failure(
            rng, i, _opnd_src(nodes[i]['fallback']), fresh, new_group())
        nodes[i] = {'k': 'raw', 'src': src,
                    'wb': dict(info, twin_src=twin_src, levels=levels,
                               kind='body-failure')}
        first = i if first is None else first
    if tail:
        # appended after the generator's sinks: a body failure, then maybe
        # fall-back wraps of valid helpers, all read by a further Out
        terms = []
        for _ in range(rng.choice([1, 1, 2])):
            i = len(nodes)
            src, twin_src, levels, info = _body_failure(
                rng, i, f"SinOsc.ar({rng.choice(FREQS)})", fresh, new_group())
            nodes.append({'k': 'raw', 'src': src,
                          'wb': dict(info, twin_src=twin_src, levels=levels,
                                     kind='body-failure')})
            first = i if first is None else first
            terms.append(i)
            for _ in range(rng.choice([0, 1, 1, 2])):
                i = len(nodes)
                src, levels = _success_wrap(rng, i, fresh, new_group())
                nodes.append({'k': 'raw', 'src': src,
                              'wb': {'kind': 'fallback-wrap', 'twin_src': src,
                                     'levels': levels}})
                terms.append(i)
        expr = ' + '.join(f'v{t}' for t in terms)
        nodes.append({'k': 'raw', 'src': f"Out.ar(0, ({expr}) * 0.5)"})
    prog['kind'] = 'wrapbody'
    prog['features'] = sorted(set(prog.get('features', ()))
                              | {'recovered-failing-wrap',
                                 'recovered-body-failure'})
    prog['wrap_levels'] = wrap_levels(prog)
    prog['wrap_params'] = [p for lv in prog['wrap_levels'] for p in lv['params']]
    prog['wb_first_failure'] = first
    return prog


def wrap_levels(prog):
    """controls created by the wraps of the program, per wrap level, in
    creation order"""
    out = []
    g = 0
    for nd in prog['nodes']:
        if nd['k'] == 'wrapok':
            g += 1
            out.append({'optional': False, 'params': [
                {'name': p['name'], 'default': p['default'],
                 'rate': p['annot'] or 'kr', 'lag': 0, 'group': g}
                for p in nd['helper']['params']]})
        elif nd['k'] == 'raw' and nd.get('wb'):
            out.extend(nd['wb']['levels'])
    return out


def stats(prog):
    """counters of what the program exercises"""
    c = {}
    seen_failure = False
    for nd in prog['nodes']:
        wb = nd.get('wb') if nd['k'] == 'raw' else None
        if wb and wb['kind'] == 'body-failure':
            seen_failure = True
            c['recovered_body_failures'] = c.get('recovered_body_failures', 0) + 1
            for k in (f"body_failure_form_{wb['form']}",
                      f"body_failure_raised_by_{wb['raised_by']}",
                      f"body_failure_{wb['fail']}",
                      f"body_failure_handler_{wb['handler']}"):
                c[k] = c.get(k, 0) + 1
            for lv in wb['levels']:
                for p in lv['params']:
                    k = 'body_failure_controls_' + (
                        'lag' if p['lag'] else p['rate']) + (
                        '_array' if isinstance(p['default'], list) else '')
                    c[k] = c.get(k, 0) + 1
        elif seen_failure and (nd['k'] == 'wrapok' or (
                wb and wb['kind'] == 'fallback-wrap')):
            c['body_failure_followed_by_fallback_wrap'] = \
                c.get('body_failure_followed_by_fallback_wrap', 0) + 1
        elif seen_failure and nd['k'] == 'wrapfail':
            c['body_failure_followed_by_rejected_wrap'] = \
                c.get('body_failure_followed_by_rejected_wrap', 0) + 1
    if seen_failure and not any(
            k.startswith('body_failure_followed_by_fallback') for k in c):
        c['body_failure_is_last_control_creator'] = 1
    return c


def resolve(prog, names):
    """(program whose 'wrap_params' are the controls the emitted name table
    shows, 'kept' | 'rolled-back' | 'mixed' | 'unexplained').  Every optional
    level (a wrap that failed, or that ran inside one that failed) may be
    present or absent as a whole; names are unique, so walking the levels in
    creation order decides each of them."""
    names = list(names)
    own = [p['name'] for p in prog['params']]
    if names[:len(own)] != own:
        return prog, 'unexplained'
    at = len(own)
    keep, dropped, optional = [], 0, 0
    for lv in prog['wrap_levels']:
        ln = [p['name'] for p in lv['params']]
        optional += bool(lv['optional'])
        if names[at:at + len(ln)] == ln:
            keep.append(lv)
            at += len(ln)
        elif lv['optional']:
            dropped += 1
        else:
            return prog, 'unexplained'
    if at != len(names):
        return prog, 'unexplained'
    q = dict(prog)
    q['wrap_params'] = [p for lv in keep for p in lv['params']]
    return q, ('kept' if not dropped else
               'rolled-back' if dropped == optional else 'mixed')


def twin(prog, gg):
    """the same program without the faults: failing statements absent,
    annotation-rejected wraps replaced by their fallback"""
    q = gg.without_failed_wraps(copy.deepcopy(prog))
    for nd in q['nodes']:
        if nd['k'] == 'raw' and nd.get('wb'):
            nd['src'] = nd['wb']['twin_src']
    return q
