"""Seeded generator of SynthDef graph functions *as data* (does NOT import sc3
at module level; only `namespace()` / `build()` import it lazily, inside a worker).

A program is a JSON-able dict

    {'v': 1, 'name': str, 'profile': 'c01'|'c02',
     'params': [{'name','rate': 'kr'|'ar'|'ir'|'tr','lag': float,'default': num|[num..]}],
     'rates_mode': 'rates'|'annot',
     'nodes': [node...],          # SSA: node i defines variable v<i>
     'variants': {...}|None}

operands are `['n', i]` (value of node i) or `['c', number]`; node kinds:

    param  {'k','i'}                          the i-th function parameter
    ugen   {'k','cls','m','args',['nout'],['tag']}   Cls.m(*args)   (table UGENS)
    un     {'k','op','a','form'}              unary operator (vf.opcodes selector)
    bin    {'k','op','a','b','form'}          binary operator
    madd   {'k','a','mul','add'}              a.madd(mul, add)
    sumn   {'k','args'}                       Sum3.new / Sum4.new
    lsum   {'k','items'}                      ChannelList([..]).sum()
    mix    {'k','items'}                      Mix.new([..])
    idx    {'k','a','i'}                      a[i]  (output i of a multi-output unit)
    list   {'k','items'}                      [..]  (c02: multichannel expansion)
    sink   {'k','cls','m','bus','chans'|'args'}      Out.ar(bus, [chans]) ...
    raw    {'k','src'}                        verbatim statement (c02 only)
    wrapfail {'k','helper','fallback'}        try: SynthDef.wrap(helper with a bad
                                              rate annotation) except ValueError:
                                              the fallback operand   (c02 only)
    wrapok {'k','helper'}                     SynthDef.wrap(valid helper) (c02 only)
    alias  {'k','a'}                          v<i> = operand

API (everything except namespace/make_func/build is sc3-free):

    gen_program(rng, name=...)            C01 domain (value semantics defined)
    gen_program_c02(rng, kind, name=...)  C02 domain (structure only)
    render(program) -> str                Python source of `def graph(...)`
    synthdef_kwargs(program) -> dict      rates= / variants= for SynthDef
    script(program) -> str                stand-alone witness script
    make_func(program) / build(program)   rebuild the function / the SynthDef in
                                          *this* process (json.loads(json.dumps(
                                          program)) builds the same thing: C20)
    SourceEval(program, rho)              shadow DAG under interpretation rho
    analyse(program)                      per-node rates / semantic constancy

Domain rules the generator enforces (soundness of the C01 oracle):
  * constants are float32-exact dyadic rationals (the constant table loses
    nothing); number-with-number arithmetic never happens: every operator has
    at least one operand that is certainly a unit generator, where "certainly"
    means *not semantically constant* (its value differs under independent
    interpretations, so no ring identity can turn it into a Python number);
    method-style operators and comparisons get such an operand as receiver;
  * rate sensitive positions (audio Out channels, first input of filters,
    SendTrig, Pan2) only get rate-stable signals: the rate by the max rule
    equals the highest rate among the leaves the value really depends on, so
    absorbed operands (`x*0 + k`) can not change the rate the library sees;
  * unit inputs never exceed the unit's rate (except A2K).
"""

import hashlib
from fractions import Fraction

from . import opcodes as oc

RATE_NUM = {'ir': 0, 'kr': 1, 'ar': 2, 'new': 0, 'tr': 1, 'dr': 3}
RATE_WORD = {0: 'scalar', 1: 'control', 2: 'audio', 3: 'demand'}

# ---------------------------------------------------------------------------
# unit generator classes used by the generator.
#   m     constructors available
#   args  kinds of the positional constructor arguments == unit inputs in order
#         'sig' any operand whose rate <= unit rate, 'in' a signal of exactly the
#         unit's rate (filters, checked by the library), 'tag' unique constant,
#         'c' small constant, 'ir' scalar-rate operand
#   nout  number of outputs
#   eff   'effect'   side-effecting (bus/buffer writes, messages, node control,
#                    done actions, shared random generator): exactly once
#         'stateful' side-effect free but with private state (oscillators,
#                    filters): exactly once if referenced, may be dropped if not
#         'pure'     stateless function of its inputs
#         'conv'     value-transparent (rate conversion / constant signal)
# 'effect' follows the server documentation of each unit, not sc3's class tree.
# ---------------------------------------------------------------------------
UGENS = {
    'SinOsc':    dict(m=('ar', 'kr'), args=('sig', 'tag'), eff='stateful'),
    'LFSaw':     dict(m=('ar', 'kr'), args=('sig', 'tag'), eff='stateful'),
    'Impulse':   dict(m=('ar', 'kr'), args=('sig', 'tag'), eff='stateful'),
    'LFPulse':   dict(m=('ar', 'kr'), args=('sig', 'tag', 'sig'), eff='stateful'),
    'LPF':       dict(m=('ar', 'kr'), args=('in', 'tag'), eff='stateful'),
    'HPF':       dict(m=('ar', 'kr'), args=('in', 'tag'), eff='stateful'),
    'OnePole':   dict(m=('ar', 'kr'), args=('in', 'tag'), eff='stateful'),
    'Lag':       dict(m=('ar', 'kr'), args=('in', 'tag'), eff='stateful'),
    'Latch':     dict(m=('ar', 'kr'), args=('sig', 'sig'), eff='stateful'),
    'LinExp':    dict(m=('ar', 'kr'), args=('in', 'tag', 'c', 'c', 'c'), eff='pure'),
    'Clip':      dict(m=('ar', 'kr', 'ir'), args=('sig', 'tag', 'sig'), eff='pure'),
    'Wrap':      dict(m=('ar', 'kr', 'ir'), args=('sig', 'tag', 'sig'), eff='pure'),
    'Fold':      dict(m=('ar', 'kr', 'ir'), args=('sig', 'tag', 'sig'), eff='pure'),
    'SampleRate':  dict(m=('ir',), args=(), eff='pure'),
    'ControlRate': dict(m=('ir',), args=(), eff='pure'),
    'SampleDur':   dict(m=('ir',), args=(), eff='pure'),
    'WhiteNoise': dict(m=('ar', 'kr'), args=(), eff='effect'),
    'PinkNoise':  dict(m=('ar', 'kr'), args=(), eff='effect'),
    'LFNoise0':  dict(m=('ar', 'kr'), args=('tag',), eff='effect'),
    'LFNoise1':  dict(m=('ar', 'kr'), args=('sig',), eff='effect'),
    'Dust':      dict(m=('ar', 'kr'), args=('sig',), eff='effect'),
    'Rand':      dict(m=('new',), args=('ir', 'tag'), eff='effect'),
    'TRand':     dict(m=('ar', 'kr'), args=('sig', 'tag', 'sig'), eff='effect'),
    'Line':      dict(m=('ar', 'kr'), args=('ir', 'ir', 'tag', 'c'), eff='effect'),
    # multi output
    'In':        dict(m=('ar', 'kr'), args=('bus',), eff='pure', multi=True),
    'Pan2':      dict(m=('ar',), args=('in', 'sig', 'tag'), eff='pure', nout=2,
                      multi=True),
    # value transparent
    'K2A':       dict(m=('ar',), args=('sig',), eff='conv'),
    'A2K':       dict(m=('kr',), args=('any',), eff='conv'),
    'DC':        dict(m=('ar', 'kr'), args=('c',), eff='conv'),
    # sinks (no output)
    'Out':        dict(m=('ar', 'kr'), sink='bus', eff='effect', nout=0),
    'ReplaceOut': dict(m=('ar', 'kr'), sink='bus', eff='effect', nout=0),
    'OffsetOut':  dict(m=('ar',), sink='bus', eff='effect', nout=0),
    'SendTrig':   dict(m=('ar', 'kr'), sink='args', args=('in', 'tag', 'sig'),
                       eff='effect', nout=0),
    # FreeSelf.kr(x) returns x itself; used as a statement only
    'FreeSelf':   dict(m=('kr',), sink='args', args=('sig',), eff='effect',
                       nout=1),
    # width first (c02): ordering side effects
    'LocalBuf':   dict(m=('new',), args=('tag', 'c'), eff='effect', wf=True),
    # created by the library with the first LocalBuf of a definition; its
    # input is the number of local buffers
    'MaxLocalBufs': dict(m=('new',), args=(), eff='effect', wf=True,
                         implicit=True),
    'SetBuf':     dict(m=('new',), eff='effect', wf=True),
    'ClearBuf':   dict(m=('new',), eff='effect', wf=True),
    'FFT':        dict(m=('kr',), eff='effect', wf=True),
    'IFFT':       dict(m=('ar',), eff='effect', wf=True),
    'PV_MagAbove': dict(m=('new',), eff='effect', wf=True),
    'PV_MagBelow': dict(m=('new',), eff='effect', wf=True),
    'PV_MagSmear': dict(m=('new',), eff='effect', wf=True),
    'PV_MagSquared': dict(m=('new',), eff='effect', wf=True),
    'PV_BrickWall': dict(m=('new',), eff='effect', wf=True),
    'RandSeed':   dict(m=('ir', 'kr'), eff='effect', wf=True),
    'RandID':     dict(m=('ir', 'kr'), eff='effect', wf=True),
}

CONTROL_CLASSES = ('Control', 'TrigControl', 'AudioControl', 'LagControl')
ARITH_CLASSES = ('UnaryOpUGen', 'BinaryOpUGen', 'MulAdd', 'Sum3', 'Sum4')
WIDTH_FIRST_CLASSES = tuple(k for k, v in UGENS.items()
                            if v.get('wf') and not v.get('implicit'))

# (inputs, outputs) of one unit spec by class, from the server documentation of
# each unit; None = variable (checked by a formula in C02)
UNIT_SHAPE = {
    'SinOsc': (2, 1), 'LFSaw': (2, 1), 'Impulse': (2, 1), 'LFPulse': (3, 1),
    'LPF': (2, 1), 'HPF': (2, 1), 'OnePole': (2, 1), 'Lag': (2, 1),
    'Latch': (2, 1), 'LinExp': (5, 1), 'Clip': (3, 1), 'Wrap': (3, 1),
    'Fold': (3, 1), 'SampleRate': (0, 1), 'ControlRate': (0, 1),
    'SampleDur': (0, 1), 'WhiteNoise': (0, 1), 'PinkNoise': (0, 1),
    'LFNoise0': (1, 1), 'LFNoise1': (1, 1), 'Dust': (1, 1), 'Rand': (2, 1),
    'TRand': (3, 1), 'Line': (4, 1), 'FreeSelf': (1, 1), 'In': (1, None),
    'Pan2': (3, 2), 'K2A': (1, 1), 'A2K': (1, 1), 'DC': (None, None),
    'Out': (None, 0), 'ReplaceOut': (None, 0), 'OffsetOut': (None, 0),
    'SendTrig': (3, 0), 'UnaryOpUGen': (1, 1), 'BinaryOpUGen': (2, 1),
    'MulAdd': (3, 1), 'Sum3': (3, 1), 'Sum4': (4, 1),
    'Control': (0, None), 'TrigControl': (0, None), 'AudioControl': (0, None),
    'LagControl': (None, None),
    'LocalBuf': (3, 1), 'MaxLocalBufs': (1, 1), 'SetBuf': (None, 1),
    'ClearBuf': (1, 1), 'FFT': (6, 1), 'IFFT': (3, 1), 'PV_MagAbove': (2, 1),
    'PV_MagBelow': (2, 1), 'PV_MagSmear': (2, 1), 'PV_MagSquared': (1, 1),
    'PV_BrickWall': (2, 1), 'RandSeed': (2, 1), 'RandID': (1, 1),
}


# ---------------------------------------------------------------------------
# Extension table (profile c01, gen_program(..., extra=True) only; the entries
# carry ext=True and are never drawn by mk_src(), so the case streams of the
# older productions do not change).
#
# (A) units with a side effect beyond their output, from the SuperCollider
#     class and server documentation.  A node's 'args' are the *unit inputs in
#     the order the server reads them* (documented per unit), RENDER turns them
#     back into the constructor call of the language side:
#       done actions   DetectSilence Line XLine Linen EnvGen PlayBuf Duty TDuty
#                      DemandEnvGen RecordBuf (input 'da' = index of the
#                      doneAction input; a unit whose ONLY side effect is its
#                      done action and whose doneAction is the constant 0 has
#                      none: it is classified 'stateful' for that node)
#       node control   FreeSelf PauseSelf Free Pause FreeSelfWhenDone
#                      PauseSelfWhenDone
#       messages       SendTrig SendReply SendPeakRMS Poll Dpoll CheckBadValues
#       buffer writes  RecordBuf BufWr DelTapWr ScopeOut DiskOut Dbufwr
#       bus writes     XOut (Out ReplaceOut OffsetOut above)
#     Done reads the done flag of another unit and has no effect of its own.
# (B) demand-rate units (rate number 3, constructor .dr) and the units that
#     pull them (Demand, Duty, TDuty, DemandEnvGen); the ones that draw from
#     the synth's random generator are 'effect' like the noise units above.
# arg kinds in addition to the ones above: 'da' done action, 'trig' a signal of
# exactly the unit's rate, 'ins' 1-3 such signals, 'vals' 0-3 operands, 'str'
# a counted string (length, characters), 'env' an envelope array, 'src' a unit
# with a done flag, 'bufc' a buffer number, 'flag' 0 or 1, 'any' any operand,
# 'dem' a demand-rate expression, 'dlist' 1-4 constants / demand expressions.
# ---------------------------------------------------------------------------
EXT_UGENS = {
    # -- (A) value returning ---------------------------------------------------
    'DetectSilence': dict(m=('ar', 'kr'), args=('in', 'c', 'tag', 'da'),
                          eff='effect', da=3),
    'XLine':    dict(m=('ar', 'kr'), args=('ir', 'ir', 'tag', 'da'),
                     eff='effect', da=3, done=True),
    'Linen':    dict(m=('kr',), args=('sig', 'c', 'c', 'tag', 'da'),
                     eff='effect', da=4, done=True),
    'EnvGen':   dict(m=('ar', 'kr'), args=('sig', 'sig', 'sig', 'sig', 'da',
                                           'env'), eff='effect', da=4,
                     done=True),
    'PlayBuf':  dict(m=('ar', 'kr'), args=('bufc', 'sig', 'sig', 'tag', 'flag',
                                           'da'), eff='effect', da=5,
                     multi=True, done=True),
    'Done':     dict(m=('kr',), args=('src',), eff='stateful'),
    'FreeSelfWhenDone':  dict(m=('kr',), args=('src',), eff='effect'),
    'PauseSelfWhenDone': dict(m=('kr',), args=('src',), eff='effect'),
    'Free':     dict(m=('kr',), args=('sig', 'tag'), eff='effect'),
    'Pause':    dict(m=('kr',), args=('sig', 'tag'), eff='effect'),
    'CheckBadValues': dict(m=('ar', 'kr'), args=('in', 'tag', 'c'),
                           eff='effect'),
    'RecordBuf': dict(m=('ar', 'kr'), args=('bufc', 'sig', 'sig', 'sig', 'sig',
                                            'flag', 'sig', 'da', 'ins'),
                      eff='effect'),
    'BufWr':    dict(m=('ar', 'kr'), args=('bufc', 'trig', 'flag', 'ins'),
                     eff='effect'),
    'DelTapWr': dict(m=('ar', 'kr'), args=('tag', 'in'), eff='effect'),
    'DiskOut':  dict(m=('ar',), args=('tag', 'ins'), eff='effect'),
    # -- (A) statements (the constructor hands back its input or nothing) ------
    'PauseSelf': dict(m=('kr',), sink='args', args=('sig',), eff='effect',
                      nout=1),
    'Poll':     dict(m=('ar', 'kr'), sink='args', args=('trig', 'sig', 'tag',
                                                        'str'),
                     eff='effect', nout=1),
    'SendReply': dict(m=('ar', 'kr'), sink='args', args=('trig', 'tag', 'str',
                                                         'vals'),
                      eff='effect', nout=0),
    'SendPeakRMS': dict(m=('ar', 'kr'), sink='args',
                        args=('c', 'c', 'tag', ('k', 1), 'in', 'str'),
                        eff='effect', nout=0),
    'ScopeOut': dict(m=('ar', 'kr'), sink='args', args=('tag', 'ins'),
                     eff='effect', nout=1),
    'XOut':     dict(m=('ar', 'kr'), sink='args', args=('bus', 'sig', 'ins'),
                     eff='effect', nout=0),
    # -- (B) demand rate ---------------------------------------------------------
    'Dseries':  dict(m=('dr',), args=('len', 'dnum', 'dnum'), eff='stateful'),
    'Dgeom':    dict(m=('dr',), args=('len', 'dnum', 'dnum'), eff='stateful'),
    'Dwhite':   dict(m=('dr',), args=('len', 'dnum', 'dnum'), eff='effect'),
    'Diwhite':  dict(m=('dr',), args=('len', 'dnum', 'dnum'), eff='effect'),
    'Dbrown':   dict(m=('dr',), args=('len', 'dnum', 'dnum', 'dnum'),
                     eff='effect'),
    'Dibrown':  dict(m=('dr',), args=('len', 'dnum', 'dnum', 'dnum'),
                     eff='effect'),
    'Dseq':     dict(m=('dr',), args=('len', 'dlist'), eff='stateful'),
    'Dser':     dict(m=('dr',), args=('len', 'dlist'), eff='stateful'),
    'Dshuf':    dict(m=('dr',), args=('len', 'dlist'), eff='effect'),
    'Drand':    dict(m=('dr',), args=('len', 'dlist'), eff='effect'),
    'Dxrand':   dict(m=('dr',), args=('len', 'dlist'), eff='effect'),
    'Dstutter': dict(m=('dr',), args=('dnum', 'dem'), eff='stateful'),
    'Dswitch1': dict(m=('dr',), args=('dnum', 'dlist'), eff='stateful'),
    'Dswitch':  dict(m=('dr',), args=('dnum', 'dlist'), eff='stateful'),
    'Dreset':   dict(m=('dr',), args=('dem', 'dnum'), eff='stateful'),
    'Dconst':   dict(m=('dr',), args=('dnum', 'dem', 'c'), eff='stateful'),
    'Dbufrd':   dict(m=('dr',), args=('bufc', 'dem', 'flag'), eff='stateful'),
    'Dbufwr':   dict(m=('dr',), args=('bufc', 'dem', 'dem', 'flag'),
                     eff='effect'),
    'Dpoll':    dict(m=('dr',), args=('dem', 'tag', 'flag', 'str'),
                     eff='effect'),
    'Demand':   dict(m=('ar', 'kr'), args=('trig', 'sig', 'dems'),
                     eff='stateful', multi=True),
    'Duty':     dict(m=('ar', 'kr'), args=('dem', ('k', 0), 'da', 'dem'),
                     eff='effect', da=2, done=True),
    'TDuty':    dict(m=('ar', 'kr'), args=('dem', ('k', 0), 'da', 'dem', 'flag'),
                     eff='effect', da=2, done=True),
    'DemandEnvGen': dict(m=('kr',), args=('dem', 'dem', 'c', 'c', 'sig', 'sig',
                                          'c', 'c', 'c', 'da'),
                         eff='effect', da=9, done=True),
}
for _k, _v in EXT_UGENS.items():
    _v['ext'] = True
UGENS.update(EXT_UGENS)
UGENS['Line']['done'] = True

# the classes whose only documented side effect is the done action
DONE_ACTION_ONLY = tuple(k for k, v in EXT_UGENS.items()
                         if 'da' in v and k not in ('RecordBuf',))
DEMAND_LEAVES = ('Dseries', 'Dgeom', 'Dwhite', 'Diwhite', 'Dbrown', 'Dibrown',
                 'Dseq', 'Dser', 'Dshuf', 'Drand', 'Dxrand')
DEMAND_WRAPPERS = ('Dstutter', 'Dswitch1', 'Dswitch', 'Dreset', 'Dconst',
                   'Dbufrd', 'Dbufwr', 'Dpoll', 'Dseq', 'Drand')
DEMAND_PULLERS = ('Demand', 'Demand', 'Demand', 'Duty', 'TDuty', 'DemandEnvGen')
EFFECT_UNIT_CLASSES = tuple(
    k for k, v in EXT_UGENS.items()
    if 'dr' not in v['m'] and k not in DEMAND_PULLERS and k != 'Done')

UNIT_SHAPE.update({
    'DetectSilence': (4, 1), 'XLine': (4, 1), 'Linen': (5, 1),
    'EnvGen': (None, 1), 'PlayBuf': (6, None), 'Done': (1, 1),
    'FreeSelfWhenDone': (1, 1), 'PauseSelfWhenDone': (1, 1), 'Free': (2, 1),
    'Pause': (2, 1), 'CheckBadValues': (3, 1), 'RecordBuf': (None, 1),
    'BufWr': (None, 1), 'DelTapWr': (2, 1), 'DiskOut': (None, 1),
    'PauseSelf': (1, 1), 'Poll': (None, 1), 'SendReply': (None, 0),
    'SendPeakRMS': (None, 0), 'ScopeOut': (None, 1), 'XOut': (None, 0),
    'Dseries': (3, 1), 'Dgeom': (3, 1), 'Dwhite': (3, 1), 'Diwhite': (3, 1),
    'Dbrown': (4, 1), 'Dibrown': (4, 1), 'Dseq': (None, 1), 'Dser': (None, 1),
    'Dshuf': (None, 1), 'Drand': (None, 1), 'Dxrand': (None, 1),
    'Dstutter': (2, 1), 'Dswitch1': (None, 1), 'Dswitch': (None, 1),
    'Dreset': (2, 1), 'Dconst': (3, 1), 'Dbufrd': (3, 1), 'Dbufwr': (4, 1),
    'Dpoll': (None, 1), 'Demand': (None, None), 'Duty': (4, 1),
    'TDuty': (5, 1), 'DemandEnvGen': (10, 1),
})


def _chars(ops):
    return ''.join(chr(int(o[1])) for o in ops)


def _render_ext(nd, A):
    """constructor call (language side argument order) of an extension unit
    whose node lists the unit inputs in server order; A = operand sources"""
    cls, m, a = nd['cls'], nd['m'], nd['args']
    c = f'{cls}.{m}'
    lst = lambda xs: '[' + ', '.join(xs) + ']'
    if cls in ('DetectSilence', 'XLine', 'Linen', 'Done', 'FreeSelfWhenDone',
               'PauseSelfWhenDone', 'Free', 'Pause', 'CheckBadValues',
               'DelTapWr', 'PauseSelf', 'Dstutter', 'Dreset', 'Dconst',
               'Dbufrd', 'DemandEnvGen'):
        return f"{c}({', '.join(A)})"
    if cls == 'EnvGen':         # (gate, scale, bias, time scale, action, *env)
        return (f"{c}(({', '.join(A[5:])},), {A[0]}, {A[1]}, {A[2]}, {A[3]}, "
                f"{A[4]})")
    if cls == 'PlayBuf':
        return f"_lst({c}({nd['nout']}, {', '.join(A)}))"
    if cls == 'RecordBuf':      # (buf, offset, rec, pre, run, loop, trig, action, *in)
        return f"{c}({lst(A[8:])}, {', '.join(A[:8])})"
    if cls == 'BufWr':          # (buf, phase, loop, *in)
        return f"{c}({lst(A[3:])}, {A[0]}, {A[1]}, {A[2]})"
    if cls == 'DiskOut':
        return f"{c}({A[0]}, {lst(A[1:])})"
    if cls == 'ScopeOut':
        return f"{c}({lst(A[1:])}, {A[0]})"
    if cls == 'XOut':
        return f"{c}({A[0]}, {A[1]}, {lst(A[2:])})"
    if cls == 'Poll':           # (trig, in, id, n, *label)
        return f"{c}({A[0]}, {A[1]}, {_chars(a[4:])!r}, {A[2]})"
    if cls == 'Dpoll':          # (in, id, run, n, *label)
        return f"{c}({A[0]}, {_chars(a[4:])!r}, {A[2]}, {A[1]})"
    if cls == 'SendReply':      # (trig, id, n, *name, *values)
        n = int(a[2][1])
        vals = ''.join(x + ', ' for x in A[3 + n:])
        return f"{c}({A[0]}, {_chars(a[3:3 + n])!r}, ({vals}), {A[1]})"
    if cls == 'SendPeakRMS':    # (rate, lag, id, nsig, *sig, n, *name)
        k = int(a[3][1])
        return (f"{c}({lst(A[4:4 + k])}, {A[0]}, {A[1]}, "
                f"{_chars(a[5 + k:])!r}, {A[2]})")
    if cls in ('Dseries', 'Dgeom', 'Dwhite', 'Diwhite'):   # (length, a, b)
        return f"{c}({A[1]}, {A[2]}, {A[0]})"
    if cls in ('Dbrown', 'Dibrown'):                        # (length, lo, hi, step)
        return f"{c}({A[1]}, {A[2]}, {A[3]}, {A[0]})"
    if cls in ('Dseq', 'Dser', 'Dshuf', 'Drand', 'Dxrand'):  # (repeats, *list)
        return f"{c}({lst(A[1:])}, {A[0]})"
    if cls in ('Dswitch1', 'Dswitch'):                      # (index, *list)
        return f"{c}({lst(A[1:])}, {A[0]})"
    if cls == 'Dbufwr':         # (buf, phase, in, loop)
        return f"{c}({A[2]}, {A[0]}, {A[1]}, {A[3]})"
    if cls == 'Demand':         # (trig, reset, *demand units)
        return f"_lst({c}({A[0]}, {A[1]}, {lst(A[2:])}))"
    if cls == 'Duty':           # (dur, reset, action, level)
        return f"{c}({A[0]}, {A[1]}, {A[3]}, {A[2]})"
    if cls == 'TDuty':          # (dur, reset, action, level, gap first)
        return f"{c}({A[0]}, {A[1]}, {A[3]}, {A[2]}, {A[4]})"
    raise ValueError(f'render: no constructor form for {cls}')


# ---------------------------------------------------------------------------
# random interpretation: a prime field and a keyed hash into it
# ---------------------------------------------------------------------------
PRIMES = ((1 << 61) - 1, (1 << 89) - 1, (1 << 107) - 1)


class Rho:
    """Interpretation of wires in GF(p).  + - * neg are the field operations,
    `/` is field division made total by 0^-1 = 0 (all identities the property
    lists hold in such a 'meadow': x/1 = x, x/-1 = -x), constants are their
    exact rational value mod p, everything else is a keyed hash of its
    description and input values."""

    def __init__(self, key, p=PRIMES[0], salt=None, stateful_ops=False):
        self.key = key if isinstance(key, bytes) else str(key).encode()
        self.p = p
        # True (C01 round 10): operator units whose opcode is a random
        # generator (vf.opcodes.STATEFUL_*) are leaves, one per creation,
        # instead of functions of their inputs
        self.stateful_ops = stateful_ops
        # generation-time analysis only: {rate: salt} re-draws the value of
        # every leaf (control, opaque unit) of that rate
        self.salt = salt or {}

    def const(self, x):
        if x in (float('inf'), float('-inf')):
            # exactly representable in float32; a symbol of its own (no program
            # lets Python do arithmetic on it)
            return self.h('infinite-constant', x > 0)
        fr = Fraction(x)
        return fr.numerator % self.p * pow(fr.denominator, -1, self.p) % self.p

    def h(self, *parts):
        d = hashlib.blake2b(repr(parts).encode(), key=self.key[:64],
                            digest_size=16).digest()
        return int.from_bytes(d, 'big') % self.p

    def add(self, a, b): return (a + b) % self.p
    def sub(self, a, b): return (a - b) % self.p
    def mul(self, a, b): return a * b % self.p
    def neg(self, a): return -a % self.p

    def div(self, a, b):
        if b % self.p == 0:
            return 0
        return a * pow(b, -1, self.p) % self.p

    # shared naming of opaque things (source and decoded side use the same)
    def ctl(self, name, ch, rate=None):
        if self.salt and rate in self.salt:
            return self.h('ctl', name, ch, self.salt[rate])
        return self.h('ctl', name, ch)

    def unit_sig(self, cls, rate, special, nout, ins):
        if self.salt and rate in self.salt:
            return self.h('unit', cls, rate, special, nout, tuple(ins),
                          self.salt[rate])
        return self.h('unit', cls, rate, special, nout, tuple(ins))

    def out(self, sig, k):
        return self.h('out', sig, k)

    # a < b is b > a, a == b is b == a ...: Python itself evaluates `x < y` as
    # `y > x` when type(y) is a subclass of type(x) (e.g. LFNoise1 / LFNoise0),
    # so both spellings denote the same unit; canonical form for the hash.
    _FLIP = {6: 6, 7: 7, 8: 9, 9: 8, 10: 11, 11: 10}   # == != < > <= >=

    def op(self, cls, special, ins):
        # operator units: rate is not part of the value (it is checked
        # structurally on the decoded side: max of the input rates)
        ins = tuple(ins)
        if cls == 'BinaryOpUGen' and special in self._FLIP and len(ins) == 2:
            special, ins = min((special, ins),
                               (self._FLIP[special], (ins[1], ins[0])))
        return self.h('op', cls, special, ins)

    def stateful_op(self, cls, special, ins, ordinal):
        """the `ordinal`-th unit with a random-generator opcode over these
        input values (the units of one such group are interchangeable: the
        decoded side searches the bijection, see props/C01.py)"""
        return self.h('stateful-op', cls, special, tuple(ins), ordinal)


# generation-time analysis: base interpretation; audio leaves re-drawn; audio
# and control leaves re-drawn; everything re-drawn (all over the same field)
_GEN_RHOS = (Rho(b'gen-time-0'), Rho(b'gen-time-0', salt={2: 1}),
             Rho(b'gen-time-0', salt={2: 1, 1: 1}), Rho(b'gen-time-1'))


def is_num(x):
    return isinstance(x, (int, float)) and not isinstance(x, bool)


# ---------------------------------------------------------------------------
# shadow DAG evaluation
# ---------------------------------------------------------------------------
class SourceEval:
    """Values of every node of `program` under rho, plus the list of opaque
    units the source describes.

    vals[i]     field value | list of values (multi output / array param) | None
    units       [{'node', 'cls', 'rate', 'special', 'nout', 'ins', 'sig',
                  'eff', 'tag'}]        one per opaque unit the function creates
    ops         [{'node', 'cls', 'special', 'ins', 'val', 'name'}]  opaque operators
    """

    def __init__(self, program, rho, upto=None, analysis=False, perturb=()):
        self.p = program
        self.rho = rho
        self.analysis = analysis     # K2A/A2K/DC are leaves of their own rate
        self.perturb = perturb       # nodes whose value is re-drawn (liveness)
        self.max_local_bufs = None
        # analysis only: units that read a signal above their own rate are
        # rate barriers (their output never runs faster than the unit)
        self.barriers = set()
        self.vals = []
        self.units = []
        self.ops = []
        self.stateful_count = {}     # (cls, opcode, input values) -> creations
        self.unit_of_node = {}
        nodes = program['nodes'] if upto is None else program['nodes'][:upto]
        for i, nd in enumerate(nodes):
            v = self._node(i, nd)
            if i in self.perturb and v is not None:
                only = self.perturb[i] if isinstance(self.perturb, dict) else None
                if isinstance(v, list):
                    v = [rho.h('perturbed', i, k)
                         if only is None or k == only else x
                         for k, x in enumerate(v)]
                else:
                    v = rho.h('perturbed', i)
            self.vals.append(v)

    def effect_sigs(self):
        return sorted(u['sig'] for u in self.units if u['eff'] == 'effect')

    def semantically_live(self, node, chan=None):
        """does any side-effecting unit read a value that depends on `node`
        (on its channel `chan`)?  (x*0, MulAdd(x,0,c) ... absorb their operand:
        a unit only such expressions mention is referenced by nothing once
        they are reduced; unused channels of an expanded operator likewise)"""
        other = SourceEval(self.p, self.rho, perturb={node: chan})
        return other.effect_sigs() != self.effect_sigs()

    def operand(self, o):
        if o[0] == 'c':
            return self.rho.const(o[1])
        return self.vals[o[1]]

    def scalar(self, o):
        v = self.operand(o)
        if not isinstance(v, int):
            raise ValueError('list valued operand (c02) has no value semantics')
        return v

    def _stateful(self, cls, sp, ins):
        key = (cls, sp, tuple(ins))
        n = self.stateful_count.get(key, 0)
        self.stateful_count[key] = n + 1
        return self.rho.stateful_op(cls, sp, ins, n)

    def _arith(self, i, nd, v, chan=None):
        """one (channel of an) operator application on scalar values v"""
        r = self.rho
        k = nd['k']
        if k == 'un':
            if nd['op'] == 'neg':
                return r.neg(v[0])
            sp = oc.UNARY_OPCODE[nd['op']]
            if r.stateful_ops and sp in oc.STATEFUL_UNARY_OPCODES:
                val = self._stateful('UnaryOpUGen', sp, (v[0],))
                self.ops.append({'node': i, 'cls': 'UnaryOpUGen', 'special': sp,
                                 'ins': [v[0]], 'val': val, 'name': nd['op'],
                                 'chan': chan, 'stateful': True})
                return val
            val = r.op('UnaryOpUGen', sp, (v[0],))
            self.ops.append({'node': i, 'cls': 'UnaryOpUGen', 'special': sp,
                             'ins': [v[0]], 'val': val, 'name': nd['op'],
                             'chan': chan})
            return val
        if k == 'bin':
            a, b = v
            op = nd['op']
            if op == '+': return r.add(a, b)
            if op == '-': return r.sub(a, b)
            if op == '*': return r.mul(a, b)
            if op == '/': return r.div(a, b)
            sp = oc.BINARY_OPCODE[op]
            if r.stateful_ops and sp in oc.STATEFUL_BINARY_OPCODES:
                val = self._stateful('BinaryOpUGen', sp, (a, b))
                self.ops.append({'node': i, 'cls': 'BinaryOpUGen',
                                 'special': sp, 'ins': [a, b], 'val': val,
                                 'name': op, 'chan': chan, 'stateful': True})
                return val
            val = r.op('BinaryOpUGen', sp, (a, b))
            self.ops.append({'node': i, 'cls': 'BinaryOpUGen', 'special': sp,
                             'ins': [a, b], 'val': val, 'name': op,
                             'chan': chan})
            return val
        if k == 'madd':
            return r.add(r.mul(v[0], v[1]), v[2])
        acc = 0                      # sumn
        for x in v:
            acc = r.add(acc, x)
        return acc

    def _unit(self, i, cls, rate, special, nout, ins, tag=None):
        sig = self.rho.unit_sig(cls, rate, special, nout, ins)
        eff = UGENS[cls]['eff']
        if cls in DONE_ACTION_ONLY and not self.analysis \
                and ins[UGENS[cls]['da']] == self.rho.const(0):
            eff = 'stateful'       # done action 0: nothing happens when done
        u = {'node': i, 'cls': cls, 'rate': rate, 'special': special,
             'nout': nout, 'ins': list(ins), 'sig': sig,
             'eff': eff, 'tag': tag}
        self.units.append(u)
        self.unit_of_node[i] = u
        return u

    def _node(self, i, nd):
        r = self.rho
        k = nd['k']
        if k == 'param':
            prm = self.p['params'][nd['i']]
            d = prm['default']
            pr = RATE_NUM[prm['rate']]
            if isinstance(d, list):
                return [r.ctl(prm['name'], ch, pr) for ch in range(len(d))]
            return r.ctl(prm['name'], 0, pr)
        if k in ('un', 'bin', 'madd', 'sumn'):
            # multichannel expansion (wrap and zip) when an operand is a flat
            # list of scalar values: one application per channel
            vals = [self.operand(o) for o in operands_of(nd)]
            lens = []
            for v in vals:
                if isinstance(v, list):
                    if not v or not all(isinstance(x, int) for x in v):
                        raise ValueError('nested list (c02): no value semantics')
                    lens.append(len(v))
                elif not isinstance(v, int):
                    raise ValueError('operand without value semantics')
            if not lens:
                return self._arith(i, nd, vals)
            return [self._arith(i, nd, [v[j % len(v)] if isinstance(v, list)
                                        else v for v in vals], j)
                    for j in range(max(lens))]
        if k == 'list':
            return [self.scalar(o) for o in nd['items']]
        if k in ('lsum', 'mix'):
            acc = 0
            for o in nd['items']:
                acc = r.add(acc, self.scalar(o))
            return acc
        if k == 'idx':
            return self.vals[nd['a'][1]][nd['i']]
        if k == 'alias':
            return self.operand(nd['a'])
        if k == 'wrapfail':
            return self.operand(nd['fallback'])
        if k == 'wrapok':
            if not self.analysis:
                raise ValueError('wrapped helper: no value semantics')
            return r.out(r.unit_sig('wrapped-helper', 2, 0, 1, [('node', i)]), 0)
        if k == 'ugen':
            cls = nd['cls']
            ent = UGENS[cls]
            rate = RATE_NUM[nd['m']]
            if cls == 'In':
                ins = [self.operand(nd['args'][0])]
                nout = nd['nout']
            else:
                ins = [self.operand(o) for o in nd['args']]
                nout = nd.get('nout', ent.get('nout', 1))
            if cls == 'LocalBuf':
                # LocalBuf.new(frames, channels): inputs (channels, frames,
                # the definition's MaxLocalBufs unit)
                if self.max_local_bufs is None:
                    n = sum(1 for x in self.p['nodes']
                            if x.get('cls') == 'LocalBuf')
                    self.max_local_bufs = self._unit(
                        i, 'MaxLocalBufs', 0, 0, 1, [r.const(n)])
                    self.unit_of_node.pop(i, None)
                ins = [ins[1], ins[0], r.out(self.max_local_bufs['sig'], 0)]
            elif cls == 'SetBuf':
                # SetBuf.new(buf, values, offset): (buf, offset, n, *values)
                ins = ins[:2] + [r.const(len(ins) - 2)] + ins[2:]
            if ent['eff'] == 'conv':
                if self.analysis:
                    if cls == 'A2K' or i in self.barriers:
                        # rate barrier: a control-rate leaf whatever it reads
                        ins = [('node', i)]
                    return r.out(r.unit_sig(cls, rate, 0, 1, ins), 0)
                return ins[0]
            if self.analysis and i in self.barriers:
                ins = [('node', i)]
            u = self._unit(i, cls, rate, 0, nout, ins, nd.get('tag'))
            if ent.get('multi'):
                return [r.out(u['sig'], c) for c in range(nout)]
            return r.out(u['sig'], 0)
        if k == 'sink':
            cls = nd['cls']
            rate = RATE_NUM[nd['m']]
            if UGENS[cls]['sink'] == 'bus':
                ins = [self.operand(nd['bus'])] + [self.operand(o)
                                                   for o in nd['chans']]
            else:
                ins = [self.operand(o) for o in nd['args']]
            self._unit(i, cls, rate, 0, UGENS[cls]['nout'], ins, nd.get('tag'))
            return None
        raise ValueError(f'eval_source: node kind {k!r} has no value semantics')

    # -- liveness: nodes some side-effecting unit (transitively) reads ---------
    def live_nodes(self):
        nodes = self.p['nodes']
        live = set()
        stack = [u['node'] for u in self.units if u['eff'] == 'effect']
        while stack:
            i = stack.pop()
            if i in live:
                continue
            live.add(i)
            for o in operands_of(nodes[i]):
                if o[0] == 'n' and o[1] not in live:
                    stack.append(o[1])
        return live


def operands_of(nd):
    k = nd['k']
    if k == 'un': return [nd['a']]
    if k == 'bin': return [nd['a'], nd['b']]
    if k == 'madd': return [nd['a'], nd['mul'], nd['add']]
    if k == 'sumn': return list(nd['args'])
    if k in ('lsum', 'mix', 'list'): return list(nd['items'])
    if k in ('idx', 'alias'): return [nd['a']]
    if k == 'wrapfail': return [nd['fallback']]
    if k == 'ugen': return list(nd['args'])
    if k == 'sink':
        if 'chans' in nd:
            return [nd['bus']] + list(nd['chans'])
        return list(nd['args'])
    return []


# ---------------------------------------------------------------------------
# rendering to Python source / building
# ---------------------------------------------------------------------------
def _num_src(x):
    if isinstance(x, int):
        return repr(x) if x >= 0 else f'({x!r})'
    if x != x:
        return "float('nan')"
    if x in (float('inf'), float('-inf')):
        return f"float('{x}')"
    return repr(x) if x >= 0 and str(x)[0] != '-' else f'({x!r})'


def _opnd(o):
    if o[0] == 'c':
        return _num_src(o[1])
    if o[0] == 'n':
        return f'v{o[1]}'
    if o[0] == 'raw':            # c02 invalid inputs: python expression text
        return o[1]
    raise ValueError(o)


def render_node(i, nd, program):
    k = nd['k']
    if k == 'param':
        prm = program['params'][nd['i']]
        if isinstance(prm['default'], list) and program.get('profile') == 'c02':
            # c02 checks structure only; arithmetic directly on array
            # arguments is C01's subject (p_array_control)
            return f"v{i} = ChannelList({prm['name']})"
        return f"v{i} = {prm['name']}"
    if k == 'un':
        form = oc.UNARY_FORMS[nd['op']][nd.get('form', 0)]
        return f"v{i} = {form.format(a=_opnd(nd['a']))}"
    if k == 'bin':
        form = oc.BINARY_FORMS[nd['op']][nd.get('form', 0)]
        return f"v{i} = {form.format(a=_opnd(nd['a']), b=_opnd(nd['b']))}"
    if k == 'madd':
        return (f"v{i} = {_opnd(nd['a'])}.madd({_opnd(nd['mul'])}, "
                f"{_opnd(nd['add'])})")
    if k == 'sumn':
        return (f"v{i} = Sum{len(nd['args'])}.new("
                + ', '.join(_opnd(o) for o in nd['args']) + ')')
    if k == 'lsum':
        return (f"v{i} = ChannelList(["
                + ', '.join(_opnd(o) for o in nd['items']) + ']).sum()')
    if k == 'mix':
        return (f"v{i} = _unb(Mix.new(["
                + ', '.join(_opnd(o) for o in nd['items']) + ']))')
    if k == 'idx':
        return f"v{i} = {_opnd(nd['a'])}[{nd['i']}]"
    if k == 'raw':                  # verbatim statement (c02 invalid inputs)
        return nd['src']
    if k == 'alias':
        return f"v{i} = {_opnd(nd['a'])}"
    if k == 'wrapok':
        return f"v{i} = SynthDef.wrap(_h{i})"
    if k == 'wrapfail':             # the graph function recovers from the fault
        return (f"try:\n    v{i} = SynthDef.wrap(_h{i})\n"
                f"except ValueError:\n    v{i} = {_opnd(nd['fallback'])}")
    if k == 'list':
        return (f"v{i} = ChannelList(["
                + ', '.join(_opnd(o) for o in nd['items']) + '])')
    if k == 'ugen':
        cls = nd['cls']
        args = [_opnd(o) for o in nd['args']]
        if cls == 'In':
            return f"v{i} = _lst(In.{nd['m']}({args[0]}, {nd['nout']}))"
        if cls == 'SetBuf':          # SetBuf.new(buf, [values], offset)
            args = [args[0], '[' + ', '.join(args[2:]) + ']', args[1]]
        if cls in EXT_UGENS:
            return f"v{i} = {_render_ext(nd, args)}"
        return f"v{i} = {cls}.{nd['m']}({', '.join(args)})"
    if k == 'sink':
        cls = nd['cls']
        if 'chans' in nd:
            ch = nd['chans']
            if nd.get('bare') and len(ch) == 1:
                chs = _opnd(ch[0])
            else:
                chs = '[' + ', '.join(_opnd(o) for o in ch) + ']'
            return f"v{i} = {cls}.{nd['m']}({_opnd(nd['bus'])}, {chs})"
        if cls in EXT_UGENS:
            return f"v{i} = {_render_ext(nd, [_opnd(o) for o in nd['args']])}"
        return (f"v{i} = {cls}.{nd['m']}("
                + ', '.join(_opnd(o) for o in nd['args']) + ')')
    raise ValueError(f'render: unknown node kind {k!r}')


def render(program, fname='graph'):
    """Python source of the graph function."""
    ps = []
    for prm in program['params']:
        d = prm['default']
        ds = ('(' + ', '.join(_num_src(x) for x in d) + ',)'
              if isinstance(d, list) else _num_src(d))
        if program.get('rates_mode') == 'annot' and not prm.get('lag'):
            ps.append(f"{prm['name']}: '{prm['rate']}' = {ds}")
        else:
            ps.append(f"{prm['name']}={ds}")
    lines = []
    for i, nd in enumerate(program['nodes']):      # helpers of SynthDef.wrap
        if nd['k'] in ('wrapok', 'wrapfail'):
            hp = []
            for p in nd['helper']['params']:
                an = f": {p['annot']!r}" if p.get('annot') is not None else ''
                hp.append(f"{p['name']}{an} = {_num_src(p['default'])}"
                          if an else f"{p['name']}={_num_src(p['default'])}")
            lines.append(f"def _h{i}({', '.join(hp)}):")
            lines.append(f"    return SinOsc.ar({nd['helper']['freq']}) * "
                         f"{nd['helper']['params'][0]['name']}")
            lines.append('')
    lines.append(f"def {fname}({', '.join(ps)}):")
    for i, nd in enumerate(program['nodes']):
        for ln in render_node(i, nd, program).split('\n'):
            lines.append('    ' + ln)
    if not program['nodes']:
        lines.append('    pass')
    return '\n'.join(lines) + '\n'


def synthdef_kwargs(program):
    kw = {}
    if program.get('rates_mode') != 'annot' or any(
            p.get('lag') for p in program['params']):
        rates = []
        for prm in program['params']:
            if prm.get('lag'):
                rates.append(prm['lag'])
            elif program.get('rates_mode') == 'annot':
                rates.append(None)
            else:
                rates.append(prm['rate'])
        if rates:
            kw['rates'] = rates
    if program.get('variants'):
        kw['variants'] = {k: dict(v) for k, v in program['variants'].items()}
    return kw


PRELUDE = (
    "from sc3.synth.ugens import *\n"
    "from sc3.synth.ugen import ChannelList, MulAdd, Sum3, Sum4\n"
    "from sc3.synth.synthdef import SynthDef\n"
    "def _unb(x):\n"
    "    return x[0] if isinstance(x, list) and len(x) == 1 else x\n"
    "def _lst(x):\n"
    "    return x if isinstance(x, list) else ChannelList([x])\n")


def script(program):
    """A stand-alone witness script (what a user would have written)."""
    kw = synthdef_kwargs(program)
    kws = ''.join(f', {k}={v!r}' for k, v in kw.items())
    return ("import sc3; sc3.init('nrt')\n" + PRELUDE + '\n' + render(program)
            + f"\nsd = SynthDef({program['name']!r}, graph{kws})\n"
            "print(len(bytes(sd.as_bytes())), 'bytes')\n")


_NS = None


def namespace():
    global _NS
    if _NS is None:
        ns = {}
        exec(PRELUDE, ns)
        _NS = ns
    return dict(_NS)


def make_func(program, ns=None):
    ns = namespace() if ns is None else ns
    exec(compile(render(program), f"<program {program['name']}>", 'exec'), ns)
    return ns['graph']


def build(program, ns=None):
    """SynthDef(name, graph function of the program, **kwargs) in this process."""
    ns = namespace() if ns is None else ns
    f = make_func(program, ns)
    return ns['SynthDef'](program['name'], f, **synthdef_kwargs(program))


# ---------------------------------------------------------------------------
# generator
# ---------------------------------------------------------------------------
SPECIAL_CONSTS = [0, 1, -1, 0.0, 1.0, -1.0]
SMALL_CONSTS = [2, 3, 4, 5, 7, 8, 10, 12, 16, 100, 440, -2, -3, 0.5, 0.25,
                0.125, 0.75, 1.5, 2.5, -0.5, -0.25, 2.0, 3.0, 0.375]
SUM_CONSTS = [0, 1, -1, 2, 0.5, 3, 0.0, 0.25]

_OPAQUE_UN = [n for n in oc.UNARY_FORMS if n not in oc.RING_UNARY]
_OPAQUE_BIN = [n for n in oc.BINARY_FORMS if n not in oc.RING_BINARY]


class _Info:
    __slots__ = ('kind', 'hi', 'lo', 'semc', 'depth', 'nout', 'elems', 'nest',
                 'einfo', 'pure')

    def __init__(self, kind, hi=0, lo=0, semc=False, depth=0, nout=1,
                 elems=None, nest=False, einfo=None, pure=False):
        # pure: computed from numbers only (a Python number in any library,
        # not a signal some identity may fold)
        self.pure = pure
        self.nest = nest      # list of lists
        self.einfo = einfo    # flat list of scalars (c01): _Info per channel
        self.kind = kind      # 'val' | 'multi' | 'none' | 'list' | 'chain' | 'buf'
        self.hi = hi          # rate by the max rule
        self.lo = lo          # rate when semantically constant parts collapse
        self.semc = semc      # value identical under independent rho
        self.depth = depth
        self.nout = nout
        self.elems = elems


class Gen:
    def __init__(self, rng, profile='c01', name=None, max_nodes=45,
                 max_depth=7, big_consts=False):
        self.rng = rng
        self.profile = profile
        self.max_nodes = max_nodes
        self.max_depth = max_depth
        self.big_consts = big_consts
        self.prog = {'v': 1, 'name': name or 'g', 'profile': profile,
                     'params': [], 'rates_mode': 'rates', 'nodes': [],
                     'variants': None}
        self.info = []
        self.uses = []
        self.evs = [SourceEval(self.prog, r, analysis=True) for r in _GEN_RHOS]
        self.next_tag = 1000
        self.features = set()
        self.no_dup = False   # True: no unit reads the same object twice
        # True: operands are chosen as if no expression were ever folded to a
        # Python number (x*0, x.madd(0, c)): method receivers, divisors and
        # rate sensitive positions may then be such expressions.  They are
        # part of the property's quantifier; a library that folds them to a
        # float makes `(x*0).midicps()` raise and lowers the rate of
        # `x_ar*0 + y_kr`.
        self.folding_agnostic = False

    # -- bookkeeping ---------------------------------------------------------
    def finish(self):
        """features and the nodes a folding library would turn into numbers
        or into signals of a lower rate (used to name the mechanism when such
        a program does not compile)"""
        self.prog['features'] = sorted(self.features)
        self.prog['folding_agnostic'] = self.folding_agnostic
        self.prog['foldable_nodes'] = [
            i for i, inf in enumerate(self.info)
            if self.prog['nodes'][i]['k'] in ('un', 'bin', 'madd', 'sumn',
                                              'lsum', 'mix')
            and ((inf.kind == 'val' and (inf.semc or inf.lo < inf.hi))
                 or (inf.einfo and any(e.semc or e.lo < e.hi
                                       for e in inf.einfo)))]

    def tag(self):
        self.next_tag += 1
        return self.next_tag

    def oinfo(self, o):
        if o[0] in ('c', 'raw'):
            return _Info('val', 0, 0, True, 0, pure=True)
        return self.info[o[1]]

    def nsc(self, o):
        """operand is certainly a unit generator object when the function runs."""
        inf = self.info[o[1]] if o[0] == 'n' else None
        return inf is not None and inf.kind == 'val' and not inf.pure \
            and (self.folding_agnostic or not inf.semc)

    def add(self, nd):
        if self.no_dup and nd['k'] not in ('sink', 'list', 'param', 'idx'):
            refs = [o[1] for o in operands_of(nd) if o[0] == 'n']
            if len(refs) != len(set(refs)):
                return None
        i = len(self.prog['nodes'])
        self.prog['nodes'].append(nd)
        for o in operands_of(nd):
            if o[0] == 'n':
                self.uses[o[1]] += 1
        self.uses.append(0)
        if nd['k'] == 'ugen' and nd.get('m') in RATE_NUM and any(
                self.oinfo(o).hi > RATE_NUM[nd['m']] for o in operands_of(nd)
                if o[0] == 'n'):
            for ev in self.evs:
                ev.barriers.add(i)
        vals = []
        for ev in self.evs:
            try:
                v = ev._node(i, nd)
            except (ValueError, TypeError, KeyError, IndexError):
                v = None         # list valued (c02): no value semantics
            ev.vals.append(v)
            vals.append(v)
        self.info.append(self._analyse(nd, vals))
        return ['n', i]

    def _analyse(self, nd, vals):
        k = nd['k']
        ops = [self.oinfo(o) for o in operands_of(nd) if o[0] in 'nc']
        depth = 1 + max([x.depth for x in ops], default=0)
        if k in ('un', 'bin', 'madd', 'sumn') and isinstance(vals[0], list) \
                and all(x.kind == 'val' or x.einfo is not None for x in ops):
            # expansion over flat lists of scalars (c01): every channel has
            # its own rate / constancy
            einfo = []
            for j in range(len(vals[0])):
                es = [x if x.kind == 'val' else x.einfo[j % len(x.einfo)]
                      for x in ops]
                hi = max(e.hi for e in es)
                semc = vals[0][j] == vals[3][j]
                lo = 2 if vals[0][j] != vals[1][j] else \
                    1 if vals[0][j] != vals[2][j] else 0
                einfo.append(_Info('val', hi, min(lo, hi), semc, depth,
                                   pure=all(e.pure for e in es)))
            return _Info('list', max(e.hi for e in einfo),
                         max(e.lo for e in einfo), False, depth,
                         elems=len(einfo), einfo=einfo)
        if k in ('un', 'bin', 'madd', 'sumn') and any(
                x.einfo is not None for x in ops) \
                and all(x.kind == 'val' or x.einfo is not None for x in ops):
            # flat lists whose values are not known to the analysis (c02
            # operands without value semantics): rates per channel by the max
            # rule, never considered rate-stable
            n = max(len(x.einfo) for x in ops if x.einfo is not None)
            einfo = []
            for j in range(n):
                es = [x if x.kind == 'val' else x.einfo[j % len(x.einfo)]
                      for x in ops]
                einfo.append(_Info('val', max(e.hi for e in es), 0, False, depth,
                                   pure=all(e.pure for e in es)))
            return _Info('list', max(e.hi for e in einfo), 0, False, depth,
                         elems=n, einfo=einfo)
        if k in ('un', 'bin', 'madd', 'sumn', 'ugen') and any(
                x.kind in ('list', 'multi') for x in ops) \
                and not UGENS.get(nd.get('cls'), {}).get('wf'):
            # multichannel expansion (c02): a list of units of one rate
            r = RATE_NUM[nd['m']] if k == 'ugen' else max(x.hi for x in ops)
            n = max(x.elems or x.nout for x in ops
                    if x.kind in ('list', 'multi'))
            nest = any(x.nest for x in ops) or (
                k == 'ugen' and UGENS[nd['cls']].get('multi', False))
            return _Info('list', r, r, False, depth, elems=n, nest=nest)
        if k == 'param':
            prm = self.prog['params'][nd['i']]
            r = RATE_NUM[prm['rate']]
            if isinstance(prm['default'], list):
                n = len(prm['default'])
                return _Info('list', r, r, False, 0, n, elems=n,
                             einfo=[_Info('val', r, r, False, 0)
                                    for _ in range(n)])
            return _Info('val', r, r, False, 0)
        if k in ('un', 'bin', 'madd', 'sumn', 'lsum', 'mix'):
            hi = max([x.hi for x in ops], default=0)
            # semantically constant <=> same value under independent
            # interpretations; lo = highest rate among the leaves the value
            # really depends on (absorbed factors such as x*0 do not count)
            semc = vals[0] == vals[3]
            lo = 2 if vals[0] != vals[1] else 1 if vals[0] != vals[2] else 0
            return _Info('val', hi, min(lo, hi), semc, depth,
                         pure=bool(ops) and all(x.pure for x in ops))
        if k in ('alias', 'wrapfail'):
            a = self.oinfo(nd['a'] if k == 'alias' else nd['fallback'])
            return _Info(a.kind, a.hi, a.lo, a.semc, a.depth, pure=a.pure)
        if k == 'wrapok':             # helper returns SinOsc.ar(f) * control
            return _Info('val', 2, 2, False, 2)
        if k == 'idx':
            a = self.info[nd['a'][1]]
            if a.einfo is not None:
                e = a.einfo[nd['i']]
                return _Info('val', e.hi, e.lo, e.semc, a.depth, pure=e.pure)
            return _Info('val', a.hi, a.lo, False, a.depth)
        if k == 'ugen':
            ent = UGENS[nd['cls']]
            r = RATE_NUM[nd['m']]
            if ent.get('multi'):
                return _Info('multi', r, r, False, depth,
                             nd.get('nout', ent.get('nout', 1)))
            if ent.get('wf'):
                kind = {'LocalBuf': 'buf', 'FFT': 'chain', 'IFFT': 'val'}.get(
                    nd['cls'], 'chain' if nd['cls'].startswith('PV_') else 'none')
                return _Info(kind, r, r, False, depth)
            return _Info('val', r, r, False, depth)
        if k == 'list':
            flat = all(x.kind == 'val' for x in ops)
            return _Info('list', max(x.hi for x in ops), max(x.lo for x in ops),
                         False, depth, elems=len(ops),
                         nest=any(x.kind in ('list', 'multi') for x in ops),
                         einfo=list(ops) if flat else None)
        return _Info('none', 0, 0, False, depth, 0)

    # -- operand selection ---------------------------------------------------
    def const(self, small=False):
        rng = self.rng
        if small:
            return ['c', rng.choice(SUM_CONSTS)]
        x = rng.random()
        if self.profile == 'c02' and x > 0.9:
            return ['c', round(rng.uniform(-1000, 1000), rng.randint(1, 6))]
        if x < 0.4:
            return ['c', rng.choice(SPECIAL_CONSTS)]
        if self.big_consts and x < 0.8:
            return ['c', rng.randrange(-2000, 2000) / 64]
        return ['c', rng.choice(SMALL_CONSTS)]

    def cands(self, maxrate=2, stable=None, nsc=True, maxdepth=None):
        md = self.max_depth - 1 if maxdepth is None else maxdepth
        out = []
        for i, inf in enumerate(self.info):
            if inf.kind != 'val' or inf.depth > md:
                continue
            if inf.pure and (nsc or stable is not None):
                continue
            if self.folding_agnostic:
                if stable is not None and inf.hi != stable:
                    continue
                if stable is None and inf.hi > maxrate:
                    continue
                out.append(i)
                continue
            if nsc and inf.semc:
                continue
            if stable is not None:
                if not (inf.hi == inf.lo == stable) or inf.semc:
                    continue
            elif inf.hi > maxrate:
                continue
            out.append(i)
        return out

    def pick_node(self, **kw):
        c = self.cands(**kw)
        if not c:
            return None
        n = len(self.info)
        w = [(3.0 if self.uses[i] == 0 else 1.0) * (1.0 + 2.0 * i / n) for i in c]
        return ['n', self.rng.choices(c, w)[0]]

    def pick(self, maxrate=2, pconst=0.3, **kw):
        """any operand (node or constant) of rate <= maxrate"""
        if self.rng.random() < pconst:
            return self.const()
        o = self.pick_node(maxrate=maxrate, nsc=False, **kw)
        return o if o is not None else self.const()

    # -- node constructors with the domain rules -----------------------------
    def mk_un(self, op, a, form=None):
        if not self.nsc(a) or self.info[a[1]].depth >= self.max_depth:
            return None
        forms = oc.UNARY_FORMS[op]
        f = self.rng.randrange(len(forms)) if form is None else form
        return self.add({'k': 'un', 'op': op, 'a': a, 'form': f})

    def mk_bin(self, op, a, b, form=None):
        forms = oc.BINARY_FORMS[op]
        f = self.rng.randrange(len(forms)) if form is None else form
        an, bn = self.nsc(a), self.nsc(b)
        if not (an or bn):
            return None
        method = forms[f].startswith('{a}.')
        comparison = op in ('==', '!=', '<', '>', '<=', '>=')
        if (method or op not in oc.BINARY_LEFT_NUMBER_OK) and not an \
                and not (comparison and a[0] == 'c'):
            # `3 < x` is evaluated by Python as `x > 3`: the same unit (the
            # oracle hashes comparisons in canonical form)
            return None
        if max(self.oinfo(a).depth, self.oinfo(b).depth) >= self.max_depth:
            return None
        return self.add({'k': 'bin', 'op': op, 'a': a, 'b': b, 'form': f})

    def mk_src(self, cls=None, m=None):
        rng = self.rng
        if cls is None:
            cls = rng.choice([c for c, e in UGENS.items()
                              if 'sink' not in e and not e.get('wf')
                              and e['eff'] != 'conv'
                              and not e.get('ext')])     # wf: p_width_first
        ent = UGENS[cls]
        m = m or rng.choice(ent['m'])
        r = RATE_NUM[m]
        args = []
        tag = None
        for kind in ent['args']:
            if kind == 'tag':
                tag = self.tag()
                args.append(['c', tag])
            elif kind == 'c':
                args.append(['c', rng.choice([0, 1, 2, 0.5, 0.25, 4])])
            elif kind == 'sig':
                args.append(self.pick(maxrate=2 if rng.random() < 0.07 else r,
                                      pconst=0.35))
            elif kind == 'any':
                args.append(self.pick(maxrate=2, pconst=0.1))
            elif kind == 'ir':
                args.append(self.pick(maxrate=0, pconst=0.7))
            elif kind == 'bus':
                args.append(self.pick(maxrate=min(r, 1), pconst=0.6)
                            if rng.random() < 0.5 else ['c', rng.randrange(0, 8)])
            elif kind == 'in':
                o = self.pick_node(stable=r)
                if o is None:
                    return None
                args.append(o)
        nd = {'k': 'ugen', 'cls': cls, 'm': m, 'args': args}
        if tag is not None:
            nd['tag'] = tag
        if cls == 'In':
            nd['nout'] = rng.choice([1, 2, 2, 3])
        return self.add(nd)

    # -- productions -----------------------------------------------------------
    def p_source(self):
        o = self.mk_src()
        if o is not None and self.info[o[1]].kind == 'multi':
            self.features.add('multi-out')
            n = self.info[o[1]].nout
            for c in self.rng.sample(range(n), self.rng.randint(1, n)):
                self.add({'k': 'idx', 'a': o, 'i': c})
        return o

    def p_conv(self):
        rng = self.rng
        which = rng.choice(['K2A', 'K2A', 'A2K', 'DC'])
        if which == 'K2A':
            a = self.pick(maxrate=1, pconst=0.1)
            return self.add({'k': 'ugen', 'cls': 'K2A', 'm': 'ar', 'args': [a]})
        if which == 'A2K':
            a = self.pick(maxrate=2, pconst=0.1)
            return self.add({'k': 'ugen', 'cls': 'A2K', 'm': 'kr', 'args': [a]})
        return self.add({'k': 'ugen', 'cls': 'DC', 'm': rng.choice(['ar', 'kr']),
                         'args': [self.const()]})

    def p_bin_ring(self):
        rng = self.rng
        op = rng.choices(['+', '-', '*', '/'], [5, 3, 4, 2])[0]
        a = self.pick(pconst=0.2)
        b = self.pick(pconst=0.3)
        if rng.random() < 0.5:
            a, b = b, a
        return self.mk_bin(op, a, b)

    def p_shortcut(self):
        """constructor-time identities: neutral / absorbing constants"""
        rng = self.rng
        x = self.pick_node()
        if x is None:
            return None
        op, c, side = rng.choice([
            ('*', 1, 'r'), ('*', 1, 'l'), ('*', 0, 'r'), ('*', 0, 'l'),
            ('*', -1, 'r'), ('*', -1, 'l'), ('+', 0, 'r'), ('+', 0, 'l'),
            ('-', 0, 'r'), ('-', 0, 'l'), ('/', 1, 'r'), ('/', -1, 'r'),
            ('*', 1.0, 'r'), ('*', -1.0, 'l'), ('+', 0.0, 'l'), ('*', 0.0, 'r'),
            ('/', 1.0, 'r'), ('/', 1, 'l'), ('/', 0, 'l')])
        self.features.add('shortcut-const')
        if side == 'r':
            return self.mk_bin(op, x, ['c', c])
        return self.mk_bin(op, ['c', c], x)

    def p_add_chain(self):
        rng = self.rng
        n = rng.randint(3, 6)
        items = []
        for _ in range(n):
            o = self.pick_node(maxdepth=self.max_depth - 4) \
                if rng.random() < 0.85 else self.const()
            if o is None:
                o = self.const()
            items.append(o)
        if rng.random() < 0.25:      # fresh single-use products inside the sum
            j = rng.randrange(len(items))
            t = self.mk_bin('*', self.pick(pconst=0.2), self.pick(pconst=0.3))
            if t is not None:
                items[j] = t
        self.features.add('add-chain')
        while len(items) > 1:
            j = rng.randrange(len(items) - 1)
            t = self.mk_bin('+', items[j], items[j + 1])
            if t is None:
                return None
            items[j:j + 2] = [t]
        return items[0]

    def p_muladd(self):
        rng = self.rng
        t = self.mk_bin('*', self.pick(pconst=0.15), self.pick(pconst=0.3))
        if t is None:
            return None
        c = self.pick(pconst=0.3)
        self.features.add('mul-then-add')
        if rng.random() < 0.5:
            return self.mk_bin('+', t, c)
        return self.mk_bin('+', c, t)

    def p_negs(self):
        rng = self.rng
        b = self.pick_node()
        a = self.pick(pconst=0.2)
        if b is None:
            return None
        n = self.mk_un('neg', b)
        if n is None:
            return None
        which = rng.choice(['a+(-b)', '(-b)+a', 'a-(-b)', '(-b)-a'])
        self.features.add('neg-operand')
        if which == 'a+(-b)': return self.mk_bin('+', a, n)
        if which == '(-b)+a': return self.mk_bin('+', n, a)
        if which == 'a-(-b)': return self.mk_bin('-', a, n)
        return self.mk_bin('-', n, a)

    def p_self(self):
        """the same object used twice by one operator"""
        rng = self.rng
        x = self.pick_node()
        if x is None:
            return None
        self.features.add('same-object-twice')
        which = rng.choice(['x+x', 'x*x', 'x-x', 'x/x', 'x*x+x', '(a+b)+(a+b)',
                            'op(x,x)', 'sum3(x,x,y)', 'madd(x,x,x)', 'src(x,x)',
                            '(-x)-(-x)', 'dead-cascade', 'optimisable-twice',
                            'optimisable-twice'])
        if which == 'optimisable-twice':
            # a sum the optimiser folds (Sum3 / MulAdd / a - b), read on two
            # inputs of ONE consumer
            kind = rng.choice(['sum3', 'muladd', 'addneg'])
            if kind == 'sum3':
                t = self.mk_bin('+', x, self.pick(pconst=0.2))
                y = t and self.mk_bin('+', t, self.pick(pconst=0.3))
            elif kind == 'muladd':
                t = self.mk_bin('*', x, self.pick(pconst=0.3))
                y = t and self.mk_bin('+', t, self.pick(pconst=0.4))
            else:
                n = self.mk_un('neg', x)
                o = self.pick_node()
                y = n and o and self.mk_bin('+', o, n)
            if not y:
                return None
            self.features.add('optimisable-used-twice')
            inf = self.info[y[1]]
            use = rng.choice(['out', 'out', 'mul', 'op', 'sum3', 'pan'])
            if use == 'out' or (use == 'pan' and not (inf.hi == inf.lo == 2)):
                m = 'ar' if inf.hi == inf.lo == 2 and not inf.semc else 'kr'
                if m == 'kr' and inf.hi == 2:
                    return y
                return self.add({'k': 'sink', 'cls': 'Out', 'm': m,
                                 'bus': ['c', rng.randrange(0, 8)],
                                 'chans': [y, y]})
            if use == 'mul':
                return self.mk_bin('*', y, y)
            if use == 'op':
                return self.mk_bin(rng.choice(_OPAQUE_BIN), y, y)
            if use == 'sum3':
                return self.add({'k': 'sumn', 'args': [y, self.pick(), y]})
            t = self.tag()
            return self.add({'k': 'ugen', 'cls': 'Pan2', 'm': 'ar',
                             'args': [y, y, ['c', t]], 'tag': t})
        if which == '(-x)-(-x)':
            n = self.mk_un('neg', x) if rng.random() < 0.5 else \
                self.mk_bin('-', ['c', 0], x)
            return n and self.mk_bin('-', n, n)
        if which == 'dead-cascade':
            # t and d are never referenced; removing them makes y rewritable
            # while it is still an input of the unit being removed
            s0 = self.mk_bin('+', x, self.pick(pconst=0.2))
            y = s0 and self.mk_bin('+', s0, self.pick(pconst=0.5))
            t = y and self.mk_bin('+', s0, y)
            d = t and self.mk_bin('+', t, y)
            if d:
                self.uses[t[1]] += 1000      # keep t and d unreferenced
                self.uses[d[1]] += 1000
                self.info[t[1]].depth = self.info[d[1]].depth = 99
            return y
        if which in ('x+x', 'x*x', 'x-x', 'x/x'):
            return self.mk_bin(which[1], x, x)
        if which == 'x*x+x':
            t = self.mk_bin('*', x, x)
            return t and self.mk_bin('+', t, x)
        if which == '(a+b)+(a+b)':
            t = self.mk_bin('+', x, self.pick(pconst=0.2))
            return t and self.mk_bin('+', t, t)
        if which == 'op(x,x)':
            return self.mk_bin(rng.choice(_OPAQUE_BIN), x, x)
        if which == 'sum3(x,x,y)':
            return self.add({'k': 'sumn', 'args': [x, x, self.pick()]})
        if which == 'madd(x,x,x)':
            return self.add({'k': 'madd', 'a': x, 'mul': x,
                             'add': rng.choice([x, self.pick()])})
        r = self.info[x[1]].hi
        m = {0: 'kr', 1: 'kr', 2: 'ar'}[r]
        return self.add({'k': 'ugen', 'cls': 'LFPulse', 'm': m,
                         'args': [x, ['c', self.tag()], x]})

    def p_opaque_un(self):
        a = self.pick_node()
        return a and self.mk_un(self.rng.choice(_OPAQUE_UN), a)

    def p_neg(self):
        a = self.pick_node()
        return a and self.mk_un('neg', a)

    def p_opaque_bin(self):
        rng = self.rng
        a = self.pick_node()
        if a is None:
            return None
        b = self.pick(pconst=0.4)
        op = rng.choice(_OPAQUE_BIN)
        if (op in oc.BINARY_LEFT_NUMBER_OK or op in ('<', '>', '<=', '>=', '==',
                                                     '!=')) \
                and rng.random() < 0.3:
            f = 0
            return self.mk_bin(op, b, a, f)
        return self.mk_bin(op, a, b)

    def p_stateful_op(self):
        """C01 round 10 (stream r only): the SAME operator with a random-
        generator opcode (vf.opcodes.STATEFUL_*) applied two or three times to
        the same operand object(s) / to equal constants.  Each application is
        a generator of its own, so the definition must hold one unit per
        application, each consumer wired to its own one.  Consumer shapes: the
        units themselves as channels of one Out, the per-voice idiom
        (`c + dev` into a tagged oscillator per voice), a second random
        operator on top of each, all of them combined by one operator
        (`r0 - r1` is not 0), one of them unreferenced."""
        rng = self.rng
        a = self.pick_node(maxdepth=self.max_depth - 4)
        if a is None:
            return None
        unary = rng.random() < 0.6
        op = rng.choice(oc.STATEFUL_UNARY if unary else oc.STATEFUL_BINARY)
        n = rng.choice([2, 2, 2, 3])
        bs = [None] * n
        if not unary:
            kind = rng.choice(['const', 'const', 'spelling', 'node', 'self'])
            if kind == 'self':
                bs = [a] * n
            elif kind == 'node':
                b = self.pick_node(nsc=False, maxdepth=self.max_depth - 4)
                bs = [b if b is not None else self.const()] * n
            elif kind == 'spelling':
                # equal constants written differently: 440 and 440.0
                c = rng.choice([2, 3, 4, 100, 440, -2])
                bs = [['c', float(c) if k % 2 else c] for k in range(n)]
            else:
                bs = [self.const()] * n
        copies = []
        for k in range(n):
            r = self.mk_un(op, a) if unary else self.mk_bin(op, a, bs[k], 0)
            if r is None:
                return None
            copies.append(r)
        self.features.add('stateful-operator-repeated')
        self.features.add('stateful-operator-' + ('unary' if unary else 'binary'))
        shape = rng.choice(['direct', 'voices', 'voices', 'nested', 'combine',
                            'dead-one', 'pure-twin'])
        self.features.add('stateful-operator-shape-' + shape)
        if shape == 'nested':
            op2 = rng.choice(oc.STATEFUL_UNARY)
            copies = [self.mk_un(op2, r) or r for r in copies]
        elif shape == 'dead-one':
            dead = copies.pop()
            self.uses[dead[1]] += 1000       # stays unreferenced
            self.info[dead[1]].depth = 99
        elif shape == 'combine':
            t = copies[0]
            for r in copies[1:]:
                t = self.mk_bin(rng.choice(['-', '-', '+', '*', 'absdif', 'min']),
                                t, r, 0) or t
            copies = [t]
        elif shape == 'pure-twin':
            # contrast: a stateless operator twice over the same operand (one
            # unit for both is an equivalent graph)
            op2 = rng.choice(['abs', 'squared', 'midicps', 'tanh', 'floor'])
            copies += [x for x in (self.mk_un(op2, a), self.mk_un(op2, a)) if x]
        if shape in ('voices', 'nested', 'pure-twin') or rng.random() < 0.3:
            c = ['c', rng.choice([100, 440, 2, 0.5, 1, 0])]
            bop = rng.choice(['+', '+', '*', '-'])
            copies = [(self.mk_bin(bop, c, r, 0) if rng.random() < 0.5
                       else self.mk_bin(bop, r, c, 0)) or r for r in copies]
        hi = max(self.oinfo(r).hi for r in copies)
        if hi <= 1 and shape in ('direct', 'combine', 'dead-one') \
                and rng.random() < 0.7:
            return self.add({'k': 'sink', 'cls': 'Out', 'm': 'kr',
                             'bus': ['c', rng.randrange(0, 8)],
                             'chans': copies})
        m = 'ar' if hi == 2 or rng.random() < 0.5 else 'kr'
        oscs = []
        for r in copies:
            t = self.tag()
            o = self.add({'k': 'ugen', 'cls': rng.choice(['SinOsc', 'LFSaw']),
                          'm': m, 'args': [r, ['c', t]], 'tag': t})
            if o is not None:
                oscs.append(o)
        if not oscs:
            return None
        return self.add({'k': 'sink', 'cls': 'Out', 'm': m,
                         'bus': ['c', rng.randrange(0, 8)], 'chans': oscs})

    def p_madd(self):
        a = self.pick_node()
        if a is None:
            return None
        self.features.add('madd')
        return self.add({'k': 'madd', 'a': a, 'mul': self.pick(pconst=0.45),
                         'add': self.pick(pconst=0.45)})

    def p_sumn(self):
        rng = self.rng
        n = rng.choice([3, 4])
        args = [self.pick(pconst=0.25) for _ in range(n)]
        if not any(self.nsc(o) for o in args):
            o = self.pick_node()
            if o is None:
                return None
            args[rng.randrange(n)] = o
        self.features.add('explicit-sum')
        return self.add({'k': 'sumn', 'args': args})

    def p_lsum(self):
        rng = self.rng
        kind = rng.choice(['lsum', 'mix'])
        n = rng.randint(2, 6) if kind == 'lsum' else rng.choice(
            [1, 2, 3, 4, 5, 7, 8, 9, 10, 13])
        items = []
        for _ in range(n):
            o = self.pick_node(maxdepth=self.max_depth - 3) \
                if rng.random() < 0.85 else None
            items.append(o if o is not None else self.const(small=True))
        if not any(self.nsc(o) for o in items):
            o = self.pick_node(maxdepth=self.max_depth - 3)
            if o is None:
                return None
            items[rng.randrange(n)] = o
        self.features.add('list-sum')
        return self.add({'k': kind, 'items': items})

    # -- multichannel arithmetic over channels of different rates -------------
    def node_of_rate(self, r):
        c = [i for i in self.cands(maxrate=r, maxdepth=self.max_depth - 2)
             if self.info[i].hi == r]
        if c and self.rng.random() < 0.8:
            return ['n', self.rng.choice(c)]
        if r == 0:
            return self.mk_src(self.rng.choice(['Rand', 'SampleRate']))
        return self.mk_src(self.rng.choice(['SinOsc', 'LFSaw', 'LFNoise0']),
                           'ar' if r == 2 else 'kr')

    def arg_list(self, n=None):
        """argument list: constants and signals of any rate"""
        rng = self.rng
        items = []
        for _ in range(n or rng.randint(2, 3)):
            o = None if rng.random() < 0.45 else \
                self.pick_node(nsc=False, maxdepth=self.max_depth - 2)
            items.append(o or self.const())
        return self.add({'k': 'list', 'items': items})

    def p_mixed_mc(self):
        """madd / Sum3 / Sum4 / operators on channel lists whose channels run
        at different rates; every resulting channel goes to a sink of its own
        rate.  Receiver channels are unit generators, so every expanded
        application has a unit-generator operand."""
        rng = self.rng
        rates = [2, 1] + [rng.choice([0, 1, 2]) for _ in range(rng.randint(0, 2))]
        rng.shuffle(rates)
        items = [self.node_of_rate(r) for r in rates]
        if any(o is None for o in items) or (
                self.no_dup and len({o[1] for o in items}) != len(items)):
            return None
        recv = self.add({'k': 'list', 'items': items})

        def arg():
            x = rng.random()
            if x < 0.35:
                return self.arg_list()
            return self.pick(pconst=0.5, maxdepth=self.max_depth - 2)
        which = rng.choice(['madd', 'madd', 'madd-scalar-receiver', 'sum3',
                            'sum4', 'bin', 'bin', 'bin-number-left', 'un',
                            'madd-number-channels', 'madd-number-channels',
                            'ring-number-channels'])
        self.features.add('mixed-rate-channels')
        if which in ('madd-number-channels', 'ring-number-channels'):
            # a channel list that holds plain numbers next to signals (the
            # library makes such lists itself: [a, b] * [0, 1]); madd and the
            # ring operators are defined channel by channel, numbers included
            items2 = list(items)
            for _ in range(rng.randint(1, 2)):
                items2.insert(rng.randrange(len(items2) + 1),
                              ['c', rng.choice([0.5, 2, 0, 1, 0.25, 3, -1, 0.0])])
            recv = self.add({'k': 'list', 'items': items2})
            self.features.add('number-channel-in-list')
            if which == 'madd-number-channels':
                nd = {'k': 'madd', 'a': recv, 'mul': arg(), 'add': arg()}
            else:
                nd = {'k': 'bin', 'op': rng.choice(['+', '-', '*']), 'a': recv,
                      'b': arg(), 'form': 0}
        elif which == 'madd':
            nd = {'k': 'madd', 'a': recv, 'mul': arg(), 'add': arg()}
        elif which == 'madd-scalar-receiver':
            x = self.pick_node(maxdepth=self.max_depth - 2)
            if x is None:
                return None
            nd = {'k': 'madd', 'a': x, 'mul': self.arg_list(),
                  'add': arg()}
        elif which in ('sum3', 'sum4'):
            args = [recv] + [arg() for _ in range(2 if which == 'sum3' else 3)]
            rng.shuffle(args)
            nd = {'k': 'sumn', 'args': args}
        elif which == 'bin':
            op = rng.choice(['+', '-', '*', '/', rng.choice(_OPAQUE_BIN)])
            nd = {'k': 'bin', 'op': op, 'a': recv, 'b': arg(),
                  'form': rng.randrange(len(oc.BINARY_FORMS[op]))}
        elif which == 'bin-number-left':
            op = rng.choice(['+', '-', '*', '/'])
            nd = {'k': 'bin', 'op': op, 'a': self.const(), 'b': recv, 'form': 0}
        else:
            op = rng.choice(['neg', rng.choice(_OPAQUE_UN)])
            nd = {'k': 'un', 'op': op, 'a': recv,
                  'form': rng.randrange(len(oc.UNARY_FORMS[op]))}
        res = self.add(nd)
        if res is None:              # no_dup mode rejected the node
            return None
        inf = self.info[res[1]]
        if inf.einfo is None:
            return None
        for j, e in enumerate(inf.einfo):
            ch = self.add({'k': 'idx', 'a': res, 'i': j})
            if e.semc:
                continue
            bus = ['c', rng.randrange(0, 8)]
            if e.hi == e.lo == 2:
                self.add({'k': 'sink', 'cls': 'Out', 'm': 'ar', 'bus': bus,
                          'chans': [ch], 'bare': True})
            elif e.hi <= 1 and rng.random() < 0.9:
                self.add({'k': 'sink', 'cls': 'Out', 'm': 'kr', 'bus': bus,
                          'chans': [ch], 'bare': True})
        return res

    # -- arithmetic directly on an array control ------------------------------
    def p_array_control(self):
        """`freqs * 2`, `freqs + x`, `-freqs`, `freqs.madd(a, b)` ... on a
        control with a tuple default: the guide calls them vector arguments
        and lists combine with signals channel by channel"""
        rng = self.rng
        c = [i for i, nd in enumerate(self.prog['nodes'])
             if nd['k'] == 'param' and self.info[i].kind == 'list']
        if not c:
            return None
        recv = ['n', rng.choice(c)]
        self.features.add('array-control-arithmetic')
        which = rng.choice(['bin-number', 'bin-number', 'bin-signal', 'un',
                            'madd', 'number-left'])
        if which == 'bin-number':
            op = rng.choice(['*', '+', '-', '/', 'max', 'pow'])
            nd = {'k': 'bin', 'op': op, 'a': recv,
                  'b': ['c', rng.choice([2, 3, 0.5, 1.5, 4])], 'form': 0}
        elif which == 'bin-signal':
            o = self.pick_node(maxdepth=self.max_depth - 2)
            if o is None:
                return None
            nd = {'k': 'bin', 'op': rng.choice(['*', '+', '-']), 'a': recv,
                  'b': o, 'form': 0}
        elif which == 'un':
            op = rng.choice(['neg', 'abs', 'midicps', 'squared'])
            nd = {'k': 'un', 'op': op, 'a': recv,
                  'form': rng.randrange(len(oc.UNARY_FORMS[op]))}
        elif which == 'madd':
            nd = {'k': 'madd', 'a': recv, 'mul': ['c', rng.choice([2, 0.5, 3])],
                  'add': self.pick(pconst=0.6, maxdepth=self.max_depth - 2)}
        else:
            nd = {'k': 'bin', 'op': rng.choice(['*', '+', '-']),
                  'a': ['c', rng.choice([2, 3, 0.5])], 'b': recv, 'form': 0}
        res = self.add(nd)
        if res is None or self.info[res[1]].einfo is None:
            return None
        for j, e in enumerate(self.info[res[1]].einfo):
            ch = self.add({'k': 'idx', 'a': res, 'i': j})
            bus = ['c', rng.randrange(0, 8)]
            if e.hi == e.lo == 2:
                self.add({'k': 'sink', 'cls': 'Out', 'm': 'ar', 'bus': bus,
                          'chans': [ch], 'bare': True})
            elif e.hi <= 1:
                self.add({'k': 'sink', 'cls': 'Out', 'm': 'kr', 'bus': bus,
                          'chans': [ch], 'bare': True})
        return res

    # -- infinite constants ----------------------------------------------------
    def p_infinite(self):
        """+-inf is an ordinary float32 constant: x.max(-inf), x.min(inf),
        Line.kr(0, inf, dur), Clip.ar(x, lo, inf)"""
        rng = self.rng
        inf = ['c', rng.choice([float('inf'), float('-inf')])]
        x = self.pick_node()
        if x is None:
            return None
        self.features.add('infinite-constant')
        which = rng.choice(['op', 'op', 'op-left', 'line', 'clip', 'madd'])
        if which == 'op':
            op = rng.choice(['max', 'min', '*', '+', '-', 'pow', 'mod', '<', '>'])
            return self.mk_bin(op, x, inf)
        if which == 'op-left':
            return self.mk_bin(rng.choice(['*', '+', '-', '/', 'pow']), inf, x,
                               0)
        if which == 'madd':
            return self.add({'k': 'madd', 'a': x, 'mul': inf,
                             'add': self.pick(pconst=0.5)})
        t = self.tag()
        if which == 'line':
            return self.add({'k': 'ugen', 'cls': 'Line', 'm': 'kr',
                             'args': [self.pick(maxrate=0, pconst=0.7), inf,
                                      ['c', t], ['c', 0]], 'tag': t})
        r = self.info[x[1]].hi
        m = {0: 'ir', 1: 'kr', 2: 'ar'}[r]
        return self.add({'k': 'ugen', 'cls': 'Clip', 'm': m,
                         'args': [x, ['c', t], inf], 'tag': t})

    # -- width-first units: ordering side effects --------------------------------
    def p_width_first(self):
        """RandSeed / RandID / LocalBuf (+ SetBuf | ClearBuf) between ordinary
        arithmetic: opaque side-effecting units; everything created after
        them must be placed after them"""
        rng = self.rng
        which = rng.choice(['seed', 'id', 'buf', 'buf'])
        self.features.add('width-first-unit')
        t = self.tag()
        if which == 'seed':
            m = rng.choice(['ir', 'kr'])
            trig = ['c', 1] if m == 'ir' or rng.random() < 0.5 else \
                self.pick(maxrate=1, pconst=0.2)
            return self.add({'k': 'ugen', 'cls': 'RandSeed', 'm': m,
                             'args': [trig, ['c', t]], 'tag': t})
        if which == 'id':
            return self.add({'k': 'ugen', 'cls': 'RandID', 'm': 'ir',
                             'args': [['c', t]], 'tag': t})
        buf = self.add({'k': 'ugen', 'cls': 'LocalBuf', 'm': 'new',
                        'args': [['c', t], ['c', rng.choice([1, 2])]],
                        'tag': t})
        x = rng.random()
        if x < 0.45:
            t2 = self.tag()
            vals = [['c', rng.choice(SMALL_CONSTS)]
                    for _ in range(rng.randint(1, 4))]
            self.add({'k': 'ugen', 'cls': 'SetBuf', 'm': 'new',
                      'args': [buf, ['c', t2]] + vals, 'tag': t2})
        elif x < 0.8:
            self.add({'k': 'ugen', 'cls': 'ClearBuf', 'm': 'new', 'args': [buf]})
        return buf

    # -- extension: side-effecting units, demand rate ---------------------------
    DONE_ACTIONS = [0, 1, 2, 2, 2, 3, 4, 7, 13, 14]

    def sig_of_rate(self, r):
        """a rate-stable signal of exactly rate r (1 | 2)"""
        o = self.pick_node(stable=r, maxdepth=self.max_depth)
        if o is None or self.rng.random() < 0.15:
            o = self.mk_src(self.rng.choice(['SinOsc', 'LFSaw', 'Impulse']),
                            'ar' if r == 2 else 'kr')
        return o

    def ext_args(self, cls, r, dem=None):
        """operands for the inputs of extension class cls at rate number r;
        (args, tag, nout) or None"""
        rng = self.rng
        args, tag, nout = [], None, None
        for kind in UGENS[cls]['args']:
            if isinstance(kind, tuple):
                args.append(['c', kind[1]])
            elif kind == 'tag':
                tag = self.tag()
                args.append(['c', tag])
            elif kind == 'c':
                args.append(['c', rng.choice([1, 2, 0.5, 0.25, 4, 0.125])])
            elif kind == 'flag':
                args.append(['c', rng.choice([0.0, 1.0])])
            elif kind == 'bufc':
                args.append(['c', rng.randrange(0, 16)])
            elif kind == 'bus':
                args.append(['c', rng.randrange(0, 8)])
            elif kind == 'da':
                if rng.random() < 0.12:
                    o = self.pick_node(maxrate=min(r, 1), nsc=False)
                    args.append(o or ['c', 2])
                else:
                    args.append(['c', rng.choice(self.DONE_ACTIONS)])
            elif kind == 'sig':
                args.append(self.pick(maxrate=min(r, 2), pconst=0.4))
            elif kind == 'any':
                args.append(self.pick(maxrate=2, pconst=0.3))
            elif kind == 'ir':
                args.append(self.pick(maxrate=0, pconst=0.7))
            elif kind in ('in', 'trig'):
                o = self.sig_of_rate(min(max(r, 1), 2))
                if o is None:
                    return None
                args.append(o)
            elif kind == 'ins':
                for _ in range(rng.choice([1, 1, 2, 3])):
                    o = self.sig_of_rate(min(max(r, 1), 2))
                    if o is None:
                        return None
                    args.append(o)
            elif kind == 'vals':
                for _ in range(rng.choice([0, 1, 2, 3])):
                    args.append(self.pick(maxrate=min(r, 2), pconst=0.3))
            elif kind == 'str':
                word = rng.choice(['/reply', '/tr', 'x', 'level', '/a/b'])
                args.append(['c', len(word)])
                args.extend(['c', ord(ch)] for ch in word)
            elif kind == 'env':
                nseg = rng.randint(1, 3)
                args.extend([['c', rng.choice([0, 1, 0.5])], ['c', nseg],
                             ['c', rng.choice([-99, -99, nseg - 1])],
                             ['c', -99]])
                for _ in range(nseg):
                    tag = self.tag()
                    args.extend([['c', rng.choice([0, 1, 0.5, 0.25])],
                                 ['c', tag], ['c', rng.choice([1, 2, 3, 5])],
                                 ['c', rng.choice([0, -4, 2])]])
            elif kind == 'src':
                c = [i for i, nd in enumerate(self.prog['nodes'])
                     if nd.get('cls') and UGENS[nd['cls']].get('done')
                     and self.info[i].kind == 'val']
                if c and rng.random() < 0.8:
                    args.append(['n', rng.choice(c)])
                else:
                    t = self.tag()
                    args.append(self.add({
                        'k': 'ugen', 'cls': 'Line', 'm': 'kr', 'tag': t,
                        'args': [['c', 0], ['c', 1], ['c', t], ['c', 0]]}))
            # demand rate
            elif kind == 'len':
                args.append(['c', rng.choice([1, 2, 3, 8, float('inf'),
                                              float('inf')])])
            elif kind == 'dnum':
                args.append(self.pick(maxrate=2 if rng.random() < 0.15 else 1,
                                      pconst=0.7))
            elif kind == 'dlist':
                for _ in range(rng.randint(1, 4)):
                    if dem is not None and rng.random() < 0.3:
                        args.append(dem)
                    else:
                        args.append(self.pick(maxrate=1, pconst=0.8))
            elif kind == 'dem':
                args.append(dem if dem is not None and rng.random() < 0.8
                            else self.const())
            elif kind == 'dems':
                args.extend(dem)
            else:
                raise ValueError(kind)
        if cls == 'PlayBuf':
            nout = rng.choice([1, 2])
        elif cls == 'Demand':
            nout = len(dem)
        return args, tag, nout

    def mk_ext(self, cls, m=None, dem=None):
        ent = UGENS[cls]
        m = m or self.rng.choice(ent['m'])
        got = self.ext_args(cls, RATE_NUM[m], dem)
        if got is None:
            return None
        args, tag, nout = got
        nd = {'k': 'sink' if 'sink' in ent else 'ugen', 'cls': cls, 'm': m,
              'args': args}
        if tag is not None:
            nd['tag'] = tag
        if nout is not None:
            nd['nout'] = nout
        return self.add(nd)

    def hide(self, o):
        """nothing generated later will reference node o"""
        self.uses[o[1]] += 1000
        self.info[o[1]].depth = 99

    def p_effect_unit(self):
        """a unit with a side effect beyond its output (done action, node
        control, message, buffer / bus write), mostly as a statement: nothing
        reads its output"""
        rng = self.rng
        cls = rng.choice(EFFECT_UNIT_CLASSES)
        o = self.mk_ext(cls)
        if o is None:
            return None
        self.features.add('effect-unit')
        inf = self.info[o[1]]
        if inf.kind == 'multi':
            if rng.random() < 0.35:          # some channels are read
                for c in rng.sample(range(inf.nout), rng.randint(1, inf.nout)):
                    self.add({'k': 'idx', 'a': o, 'i': c})
            else:
                self.features.add('effect-unit-output-unused')
        elif inf.kind == 'val':
            if rng.random() < 0.7:
                self.hide(o)
                self.features.add('effect-unit-output-unused')
        return o

    def p_demand(self):
        """demand-rate units combined with constants, scalar / control / audio
        rate signals and each other by unary and binary operators (an
        operation on a demand-rate value is demand rate, the highest rate),
        pulled by Demand / Duty / TDuty / DemandEnvGen.
        Not generated: madd / Sum3 / Sum4 on demand-rate operands and
        `audio * x + y` with a demand-rate x or y (the fused multiply-add of
        the language side is only defined for audio / control rate; this
        includes such a product behind neg, x*1, x*-1, x+0, 0-x, x/1 ...,
        which the optimiser sees through)."""
        rng = self.rng
        self.features.add('demand-rate')

        def leaf():
            return self.mk_ext(rng.choice(DEMAND_LEAVES), 'dr')

        def is_audio_product(o):
            """the object may be a BinaryOpUGen '*' with an audio-rate
            factor (also behind x*1, x+0, x/1 ..., which hand x back)"""
            if o[0] != 'n':
                return False
            nd = self.prog['nodes'][o[1]]
            if nd['k'] == 'alias':
                return is_audio_product(nd['a'])
            if nd['k'] == 'un':      # a - (-(p)) is rewritten to a + p
                return nd['op'] == 'neg' and is_audio_product(nd['a'])
            if nd['k'] != 'bin':
                return False
            if nd['op'] == '*' and any(
                    self.oinfo(x).hi == 2 for x in (nd['a'], nd['b'])):
                return True
            return any(x[0] == 'c' and x[1] in (0, 1, -1)
                       and is_audio_product(y)
                       for x, y in ((nd['a'], nd['b']), (nd['b'], nd['a'])))

        def addable(o):
            """may stand next to a demand-rate value in a sum / difference:
            certainly not a product with an audio-rate factor"""
            if o[0] != 'n':
                return True
            inf = self.info[o[1]]
            if inf.hi < 2:
                return True
            if inf.hi == 3:
                return not is_audio_product(o)
            nd = self.prog['nodes'][o[1]]
            if nd['k'] == 'idx':
                nd = self.prog['nodes'][nd['a'][1]]
            return nd['k'] in ('param', 'ugen')      # the unit itself

        def other(op):
            x = rng.random()
            if x < 0.25:
                return self.const()
            if x < 0.35 and dexprs:
                o = rng.choice(dexprs)
            else:
                r = rng.choice([0, 1, 1, 2, 2])
                c = [i for i in self.cands(maxrate=r, nsc=False)
                     if self.info[i].hi == r]
                o = ['n', rng.choice(c)] if c else None
                if o is None or (op in '+-' and not addable(o)):
                    o = self.node_of_rate(r)
            if o is None or (op in '+-' and not addable(o)):
                return self.const()
            return o

        dexprs = []
        for _ in range(rng.randint(1, 3)):
            e = leaf()
            if e is None:
                continue
            if rng.random() < 0.25:
                w = self.mk_ext(rng.choice(DEMAND_WRAPPERS), 'dr', dem=e)
                e = w or e
            for _ in range(rng.choice([0, 1, 1, 2, 3])):
                x = rng.random()
                t = None
                if x < 0.15:
                    t = self.mk_un(rng.choice(['neg'] + _OPAQUE_UN), e)
                elif x < 0.3:            # neutral constants: d*1, d+0, 0-d ...
                    op, c, side = rng.choice([
                        ('*', 1, 'r'), ('*', 1, 'l'), ('*', -1, 'r'),
                        ('+', 0, 'r'), ('+', 0, 'l'), ('-', 0, 'r'),
                        ('-', 0, 'l'), ('/', 1, 'r'), ('/', -1, 'r')])
                    if is_audio_product(e) and op in '+-':
                        continue
                    t = self.mk_bin(op, e, ['c', c]) if side == 'r' else \
                        self.mk_bin(op, ['c', c], e)
                else:
                    op = rng.choice(['+', '+', '-', '*', '*', '/',
                                     rng.choice(_OPAQUE_BIN)])
                    if is_audio_product(e) and op in '+-':
                        op = '*'
                    b = other(op)
                    if op in '+-' and rng.random() < 0.2 and b[0] == 'n' \
                            and self.nsc(b):
                        b = self.mk_un('neg', b) or b     # d + (-x), d - (-x)
                    if rng.random() < 0.5:
                        t = self.mk_bin(op, e, b)
                    else:
                        t = self.mk_bin(op, b, e, 0)
                    if t is not None:
                        self.features.add('demand-rate-operand')
                        if self.oinfo(b).hi in (1, 2):
                            self.features.add('demand-with-control-or-audio')
                if t is not None and self.info[t[1]].kind == 'val' \
                        and self.info[t[1]].hi == 3:
                    e = t
            if self.oinfo(e).hi == 3:
                dexprs.append(e)
        if not dexprs:
            return None
        for e in dexprs:            # only demand-rate consumers read them
            self.hide(e)
        which = rng.choice(DEMAND_PULLERS)
        m = rng.choice(UGENS[which]['m'])
        if which == 'Demand':
            o = self.mk_ext('Demand', m, dem=list(dexprs))
            if o is None:
                return None
            for c in rng.sample(range(len(dexprs)),
                                rng.randint(1, len(dexprs))):
                self.add({'k': 'idx', 'a': o, 'i': c})
            return o
        o = self.mk_ext(which, m, dem=rng.choice(dexprs))
        if o is not None and rng.random() < 0.4:
            self.hide(o)
        return o

    # -- sinks -----------------------------------------------------------------
    def audio_node(self):
        o = self.pick_node(stable=2, maxdepth=self.max_depth)
        if o is None or self.rng.random() < 0.1:
            c = self.pick_node(maxrate=1, nsc=False, maxdepth=self.max_depth)
            if c is not None and self.rng.random() < 0.5:
                return self.add({'k': 'ugen', 'cls': 'K2A', 'm': 'ar',
                                 'args': [c]})
            s = self.mk_src('SinOsc', 'ar')
            if o is not None and self.rng.random() < 0.5:
                return self.mk_bin('*', s, o) or s
            return s
        return o

    def p_sink(self):
        rng = self.rng
        cls = rng.choices(['Out', 'ReplaceOut', 'OffsetOut', 'SendTrig',
                           'FreeSelf'], [6, 1, 1, 1, 0.5])[0]
        m = rng.choice(UGENS[cls]['m'])
        r = RATE_NUM[m]
        if cls == 'FreeSelf':
            o = self.pick_node(maxrate=1, nsc=True, maxdepth=self.max_depth)
            if o is None:
                o = self.mk_src('Impulse', 'kr')
            return self.add({'k': 'sink', 'cls': cls, 'm': m, 'args': [o]})
        if cls == 'SendTrig':
            o = self.pick_node(stable=r, maxdepth=self.max_depth)
            if o is None:
                o = self.mk_src('Impulse', m)
            t = self.tag()
            return self.add({'k': 'sink', 'cls': cls, 'm': m, 'tag': t,
                             'args': [o, ['c', t], self.pick(maxrate=r)]})
        if rng.random() < 0.3:
            bus = self.pick(maxrate=2 if rng.random() < 0.1 else 1, pconst=0.0,
                            maxdepth=self.max_depth)
        else:
            bus = ['c', rng.randrange(0, 8)]
        nch = rng.choice([1, 1, 2, 2, 3])
        chans = []
        for _ in range(nch):
            if m == 'ar':
                if rng.random() < 0.04:
                    chans.append(['c', rng.choice([0, 0.0])])   # silence
                    self.features.add('silent-channel')
                else:
                    chans.append(self.audio_node())
            else:
                chans.append(self.pick(maxrate=2 if rng.random() < 0.1 else 1,
                                       pconst=0.1, maxdepth=self.max_depth))
        nd = {'k': 'sink', 'cls': cls, 'm': m, 'bus': bus, 'chans': chans}
        if nch == 1 and rng.random() < 0.5:
            nd['bare'] = True
        return self.add(nd)

    # -- parameters ------------------------------------------------------------
    def params(self, n, arrays=False, gate=False):
        rng = self.rng
        names = [f'p{i}' for i in range(n)]
        if gate and n:
            names[rng.randrange(n)] = 'gate'
        for nm in names:
            rate = rng.choices(['kr', 'ar', 'ir', 'tr'], [6, 2, 2, 1])[0]
            d = rng.choice(SMALL_CONSTS + [0, 1, 0.0, 1.0, -1])
            if self.profile == 'c02' and rng.random() < 0.04:
                d = rng.choice([float('inf'), float('-inf')])   # exact in f32
            if arrays and rng.random() < 0.3:
                d = [rng.choice(SMALL_CONSTS) for _ in range(rng.randint(2, 4))]
            prm = {'name': nm, 'rate': rate, 'default': d, 'lag': 0}
            if rate == 'kr' and rng.random() < 0.12:
                prm['lag'] = rng.choice([0.5, 0.25, 2])
            self.prog['params'].append(prm)
        self.prog['rates_mode'] = rng.choice(['rates', 'annot'])
        for i in range(n):
            self.add({'k': 'param', 'i': i})


C01_PRODUCTIONS = [
    ('p_source', 5), ('p_conv', 1), ('p_bin_ring', 6), ('p_shortcut', 3),
    ('p_add_chain', 4), ('p_muladd', 3), ('p_negs', 3), ('p_self', 3),
    ('p_opaque_un', 2), ('p_neg', 1), ('p_opaque_bin', 2), ('p_madd', 2),
    ('p_sumn', 1.5), ('p_lsum', 2), ('p_sink', 1), ('p_mixed_mc', 2.5),
    ('p_width_first', 1.2), ('p_array_control', 1.0), ('p_infinite', 0.8),
]


C01_EXTRA_PRODUCTIONS = [('p_effect_unit', 14), ('p_demand', 9)]
C01_STATEFUL_PRODUCTIONS = [('p_stateful_op', 9)]


def gen_program(rng, profile='c01', name=None, extra=False, stateful=False,
                **kw):
    """A random valid program of the C01 domain (profile 'c01') - scalar
    valued nodes only, every operator has a unit-generator operand, rate
    sensitive positions get rate-stable signals.  extra=True: the productions
    of the extension table (units with side effects beyond their output,
    demand-rate operands) take part; a stream of its own.  stateful=True
    (a third stream): repeated operator units with a random-generator opcode
    (p_stateful_op), at least one group per program."""
    g = Gen(rng, profile, name=name, **kw)
    g.folding_agnostic = rng.random() < (0.1 if extra else 0.25)
    g.params(rng.choice([0, 0, 1, 2, 2, 3, 4, 6]), arrays=rng.random() < 0.35)
    for _ in range(rng.randint(1, 4)):
        g.mk_src(rng.choice(['SinOsc', 'LFSaw', 'Impulse', 'WhiteNoise', 'Rand',
                             'LFNoise0', 'SampleRate']))
    steps = rng.choice([rng.randint(1, 6), rng.randint(4, 14),
                        rng.randint(8, 24)])
    names, weights = zip(*(C01_PRODUCTIONS + C01_EXTRA_PRODUCTIONS
                           if extra else C01_PRODUCTIONS
                           + C01_STATEFUL_PRODUCTIONS if stateful
                           else C01_PRODUCTIONS))
    for _ in range(steps):
        if len(g.prog['nodes']) >= g.max_nodes:
            break
        getattr(g, rng.choices(names, weights)[0])()
    if stateful:
        for _ in range(4):
            if 'stateful-operator-repeated' in g.features \
                    or g.p_stateful_op() is not None:
                break
    for _ in range(rng.choice([1, 1, 2, 2, 3, 4])):
        g.p_sink()
    g.finish()
    return g.prog


def analyse(program):
    """Re-derive the per-node information (rates, semantic constancy) of a
    program produced elsewhere."""
    g = Gen(None, program.get('profile', 'c01'))
    g.prog['params'] = program['params']
    g.prog['name'] = program['name']
    for nd in program['nodes']:
        g.add(nd)
    return g.info


# ---------------------------------------------------------------------------
# C02 profile: multichannel expansion, width-first units, big graphs, names,
# variants, invalid graphs.  Programs of this profile have no value semantics
# (SourceEval is not applicable); C02 checks structure only.
# ---------------------------------------------------------------------------
class Gen2(Gen):
    def pick_list(self, rate=None):
        c = [i for i, inf in enumerate(self.info)
             if inf.kind in ('list', 'multi') and not inf.nest
             and self.uniform(inf)
             and (rate is None or inf.hi == rate) and inf.depth < self.max_depth]
        return ['n', self.rng.choice(c)] if c else None

    def mc_operand(self, r):
        """operand of an expanded operator: never absorbing (x*0 would turn
        the channels into numbers of another rate)"""
        if self.rng.random() < 0.5:
            return ['c', self.rng.choice([2, 3, 0.5, 0.25, 4, 1.5, -2, 100])]
        o = self.pick_node(maxrate=r)
        return o if o is not None else ['c', 2]

    @staticmethod
    def uniform(inf):
        """every channel is a unit generator of the list's (stable) rate"""
        return inf.einfo is None or all(
            e.hi == e.lo == inf.hi and not e.semc for e in inf.einfo)

    def p_list(self):
        rng = self.rng
        r = rng.choice([2, 2, 1])
        items = []
        for _ in range(rng.randint(2, 4)):
            o = self.pick_node(stable=r)
            if o is None:
                o = self.mk_src('SinOsc', 'ar' if r == 2 else 'kr')
            items.append(o)
        self.features.add('list')
        return self.add({'k': 'list', 'items': items})

    def p_mc(self):
        """multichannel expansion of a constructor or operator over a list"""
        rng = self.rng
        lst = self.pick_list()
        if lst is None:
            lst = self.p_list()
        r = self.info[lst[1]].hi
        m = {2: 'ar', 1: 'kr', 0: 'kr'}[r]
        which = rng.choice(['osc', 'filter', 'bin', 'bin2', 'un', 'madd', 'pan',
                            'nested'])
        self.features.add('mc-' + which)
        if which == 'osc':
            return self.add({'k': 'ugen', 'cls': rng.choice(['SinOsc', 'LFSaw']),
                             'm': 'ar', 'args': [lst, ['c', self.tag()]],
                             'tag': self.next_tag})
        if which == 'filter' and r > 0:
            return self.add({'k': 'ugen', 'cls': rng.choice(['LPF', 'Lag']),
                             'm': m, 'args': [lst, ['c', self.tag()]],
                             'tag': self.next_tag})
        if which == 'bin':
            op = rng.choice(['+', '*', '-', 'max', 'ring1'])
            f = 0
            return self.add({'k': 'bin', 'op': op, 'a': lst,
                             'b': self.mc_operand(r), 'form': f})
        if which == 'bin2':
            l2 = self.pick_list(r) or lst
            return self.add({'k': 'bin', 'op': rng.choice(['+', '*']),
                             'a': lst, 'b': l2, 'form': 0})
        if which == 'un':
            return self.add({'k': 'un', 'op': rng.choice(['neg', 'abs', 'tanh']),
                             'a': lst, 'form': 0})
        if which == 'madd':
            return self.add({'k': 'madd', 'a': lst,
                             'mul': self.mc_operand(r),
                             'add': self.mc_operand(r)})
        if which == 'pan' and r == 2:
            return self.add({'k': 'ugen', 'cls': 'Pan2', 'm': 'ar',
                             'args': [lst, self.pick(maxrate=1, pconst=0.6),
                                      ['c', self.tag()]], 'tag': self.next_tag})
        l2 = self.pick_list(r) or lst
        return self.add({'k': 'list', 'items': [lst, l2]})

    def p_sink_list(self):
        rng = self.rng
        c = [i for i, inf in enumerate(self.info)
             if inf.kind in ('list', 'multi') and inf.depth <= self.max_depth
             and self.uniform(inf)]
        if not c:
            return None
        i = rng.choice(c)
        inf = self.info[i]
        m = 'ar' if inf.hi == 2 and inf.lo == 2 else 'kr'
        if m == 'kr' and inf.hi == 2:
            return None
        self.features.add('sink-list')
        return self.add({'k': 'sink', 'cls': rng.choice(['Out', 'ReplaceOut']),
                         'm': m, 'bus': ['c', rng.randrange(0, 8)],
                         'chans': [['n', i]], 'bare': True})

    def p_tagged_op(self):
        """an operator unit that can be recognised in the definition"""
        a = self.pick_node()
        if a is None:
            return None
        t = self.tag()
        op = self.rng.choice(['*', '+', 'max', 'min', 'pow'])
        nd = {'k': 'bin', 'op': op, 'a': a, 'b': ['c', t], 'form': 0, 'tag': t}
        return self.add(nd)

    def p_wf(self):
        rng = self.rng
        which = rng.choice(['fft', 'fft', 'seed', 'id', 'buf'])
        self.features.add('wf-' + which)
        if which == 'seed':
            t = self.tag()
            return self.add({'k': 'ugen', 'cls': 'RandSeed',
                             'm': rng.choice(['ir', 'kr']),
                             'args': [['c', 1], ['c', t]], 'tag': t})
        if which == 'id':
            t = self.tag()
            return self.add({'k': 'ugen', 'cls': 'RandID', 'm': 'ir',
                             'args': [['c', t]], 'tag': t})
        t = self.tag()
        buf = self.add({'k': 'ugen', 'cls': 'LocalBuf', 'm': 'new',
                        'args': [['c', t], ['c', 1]], 'tag': t})
        if which == 'buf' or rng.random() < 0.3:
            if rng.random() < 0.5:
                t = self.tag()
                vals = [self.const() for _ in range(rng.randint(1, 4))]
                self.add({'k': 'ugen', 'cls': 'SetBuf', 'm': 'new',
                          'args': [buf, ['c', t]] + vals, 'tag': t})
            else:
                self.add({'k': 'ugen', 'cls': 'ClearBuf', 'm': 'new',
                          'args': [buf]})
            if which == 'buf':
                return buf
        sig = self.audio_node()
        t = self.tag()
        chain = self.add({'k': 'ugen', 'cls': 'FFT', 'm': 'kr',
                          'args': [buf, sig, ['c', 0.5], ['c', 0], ['c', 1],
                                   ['c', t]], 'tag': t})
        for _ in range(rng.randint(0, 3)):
            cls = rng.choice(['PV_MagAbove', 'PV_MagBelow', 'PV_MagSmear',
                              'PV_BrickWall', 'PV_MagSquared'])
            if cls == 'PV_MagSquared':
                chain = self.add({'k': 'ugen', 'cls': cls, 'm': 'new',
                                  'args': [chain]})
            else:
                t = self.tag()
                chain = self.add({'k': 'ugen', 'cls': cls, 'm': 'new',
                                  'args': [chain, ['c', t]], 'tag': t})
            if rng.random() < 0.4:
                self.p_tagged_op()         # something created in between
        t = self.tag()
        return self.add({'k': 'ugen', 'cls': 'IFFT', 'm': 'ar',
                         'args': [chain, ['c', 0], ['c', t]], 'tag': t})


BAD_ANNOTATIONS = ['xr', 'audio', 'control', 'k', 'KR', 'a', 'dr', '', 'kr ']


def _wrap_helper(rng, names, bad):
    """helper function of SynthDef.wrap as data: 1-4 scalar parameters; when
    `bad`, one rate annotation is invalid (mostly not the first one)"""
    n = rng.randint(2, 4) if bad else rng.randint(1, 3)
    params = []
    for k in range(n):
        params.append({'name': names[k],
                       'default': rng.choice(SMALL_CONSTS + [0, 1, 0.0]),
                       'annot': rng.choice([None, None, 'kr', 'ir', 'tr', 'kr'])})
    if bad:
        pos = rng.choice([0] + list(range(1, n)) * 4)
        params[pos]['annot'] = rng.choice(BAD_ANNOTATIONS)
    return {'params': params, 'freq': rng.choice([110, 220, 330, 55])}


def add_wraps(g, rng):
    """'recovered failing wrap': the graph function tries SynthDef.wrap on a
    helper with an invalid rate annotation, catches the ValueError, uses a
    fallback signal, optionally wraps a valid helper (same or other parameter
    names) and carries on.  Returns the controls the valid wraps create."""
    created = []
    if not hasattr(g, '_wrap_state'):
        fresh0 = [f'w{k}' for k in range(80)]
        rng.shuffle(fresh0)
        g._wrap_state = {'taken': {p['name'] for p in g.prog['params']},
                         'fresh': fresh0, 'group': 0}
    taken = g._wrap_state['taken']
    fresh = g._wrap_state['fresh']
    group = g._wrap_state['group']
    for _ in range(rng.choice([1, 1, 2])):
        names = [fresh.pop() for _ in range(4)]
        fb = g.audio_node()
        g.add({'k': 'wrapfail', 'helper': _wrap_helper(rng, names, True),
               'fallback': fb})
        g.features.add('recovered-failing-wrap')
        for _ in range(rng.choice([0, 1, 1, 2])):
            if rng.random() < 0.5:
                onames = names            # the names the rejected helper had
                names = [fresh.pop() for _ in range(4)]
            else:
                onames = [fresh.pop() for _ in range(4)]
            h = _wrap_helper(rng, onames, False)
            if any(p['name'] in taken for p in h['params']):
                continue
            group += 1
            g.add({'k': 'wrapok', 'helper': h})
            for p in h['params']:
                taken.add(p['name'])
                created.append({'name': p['name'], 'default': p['default'],
                                'rate': p['annot'] or 'kr', 'lag': 0,
                                'group': group})
        if rng.random() < 0.5:
            g.p_bin_ring()
    g._wrap_state['group'] = group
    return created


ASCII_PRINTABLE = ''.join(chr(c) for c in range(32, 127))

INVALID_KINDS = ['out-ar-control-input', 'filter-ar-control-input',
                 'sendtrig-ar-control-input', 'pan2-ar-control-input',
                 'nan-input', 'nan-operand', 'none-input', 'string-input',
                 'object-input']


def random_name(rng):
    n = rng.choice([1, 2, 5, 8, 12, 20, 31, 32, 33, 64, 128, 254, 255,
                    rng.randint(1, 255)])
    alpha = rng.choice([ASCII_PRINTABLE, 'abcdefghijklmnopqrstuvwxyz_0123456789',
                        'aZ09_-. '])
    return ''.join(rng.choice(alpha) for _ in range(n))


def gen_program_c02(rng, kind, name=None):
    """kind: 'plain' (a c01 program, array controls, gate), 'mc', 'wf', 'big',
    'wrap', 'bigarray' (250-700 control slots, few names), 'variants',
    'invalid:<INVALID_KINDS>'."""
    big = kind == 'big'
    g = Gen2(rng, 'c02', name=name or random_name(rng),
             max_nodes=420 if big else 70, max_depth=7, big_consts=big)
    g.folding_agnostic = rng.random() < 0.15
    g.params(rng.choice([0, 1, 2, 3, 4, 6, 8]), arrays=True,
             gate=rng.random() < 0.4)
    if kind == 'bigarray':
        # few names, hundreds of control slots: 1-3 array controls whose
        # sizes add up to 250..700 values
        arrays = [p for p in g.prog['params'] if isinstance(p['default'], list)]
        total = rng.choice([250, 252, 253, 254, 255, 256, 257, 300, 512, 700,
                            rng.randint(250, 700)])
        if not arrays:
            g.prog['params'].append({'name': 'arr', 'rate': rng.choice(
                ['kr', 'kr', 'ir', 'tr', 'ar']), 'default': [0.5, 1.5], 'lag': 0})
            arrays = [g.prog['params'][-1]]
            g.add({'k': 'param', 'i': len(g.prog['params']) - 1})
        arrays = arrays[:3]
        for k, p in enumerate(arrays):
            n = total // len(arrays) + (total % len(arrays) if k == 0 else 0)
            p['default'] = [rng.choice(SMALL_CONSTS) if rng.random() < 0.5
                            else rng.randrange(-4000, 4000) / 8
                            for _ in range(max(n, 2))]
        g2 = Gen2(rng, 'c02', name=g.prog['name'], max_nodes=90)
        g2.folding_agnostic = g.folding_agnostic
        g2.prog['params'] = g.prog['params']
        g2.prog['rates_mode'] = g.prog['rates_mode']
        for i in range(len(g2.prog['params'])):
            g2.add({'k': 'param', 'i': i})
        g = g2
        g.features.add('big-array-control')
    for i, inf in enumerate(list(g.info)):       # channels of array controls
        if g.prog['nodes'][i]['k'] == 'param' and inf.kind == 'list':
            for c in range(inf.elems):
                if rng.random() < (0.6 if inf.elems < 16 else 4.0 / inf.elems):
                    g.add({'k': 'idx', 'a': ['n', i], 'i': c})
    for _ in range(rng.randint(1, 4)):
        g.mk_src(rng.choice(['SinOsc', 'LFSaw', 'Impulse', 'WhiteNoise', 'Rand',
                             'LFNoise0', 'SampleRate']))
    wrap_params = []
    if kind == 'wrap' and rng.random() < 0.5:
        wrap_params += add_wraps(g, rng)
    prods = list(C01_PRODUCTIONS)
    if kind in ('mc', 'big'):
        prods += [('p_list', 4), ('p_mc', 10), ('p_sink_list', 3)]
    if kind in ('wf', 'big'):
        prods += [('p_wf', 6), ('p_tagged_op', 5)]
    if kind in ('plain', 'variants', 'wrap') or kind.startswith('invalid'):
        prods += [('p_tagged_op', 1)]
    steps = rng.randint(150, 400) if big else rng.choice(
        [rng.randint(1, 8), rng.randint(6, 20), rng.randint(10, 40)])
    names, weights = zip(*prods)
    for _ in range(steps):
        if len(g.prog['nodes']) >= g.max_nodes:
            break
        getattr(g, rng.choices(names, weights)[0])()
    if kind == 'wrap' and (not wrap_params and not any(
            nd['k'] == 'wrapfail' for nd in g.prog['nodes'])
            or rng.random() < 0.3):
        wrap_params += add_wraps(g, rng)
    if kind == 'wrap':
        g.prog['wrap_params'] = wrap_params
    for _ in range(rng.choice([1, 1, 2, 3])):
        g.p_sink()
    if kind in ('mc', 'big'):
        for _ in range(rng.randint(1, 3)):
            g.p_sink_list()
    prog = g.prog
    if kind == 'variants':
        prog['variants'], prog['variants_note'] = _variants(rng, prog)
    if kind.startswith('invalid:'):
        _inject_invalid(g, kind.split(':', 1)[1])
    g.finish()
    prog['kind'] = kind
    return prog


def _variants(rng, prog):
    """(variants dict, note).  note 'ok': every variant is writable; otherwise
    the writer is documented to warn and skip ('name-too-long',
    'unknown-control', 'too-many-values')."""
    params = prog['params']
    if not params:
        return None, 'none'
    note = rng.choices(['ok', 'name-too-long', 'unknown-control',
                        'too-many-values'], [5, 2, 2, 1])[0]
    if len(prog['name']) > 24 and note == 'ok':
        prog['name'] = prog['name'][:rng.randint(1, 20)]
    out = {}
    for k in range(rng.randint(1, 3)):
        vn = 'v' + str(k)
        pairs = {}
        for prm in rng.sample(params, rng.randint(1, min(3, len(params)))):
            d = prm['default']
            if isinstance(d, list):
                pairs[prm['name']] = [rng.choice(SMALL_CONSTS)
                                      for _ in range(rng.randint(1, len(d)))]
            else:
                pairs[prm['name']] = rng.choice(SMALL_CONSTS)
        out[vn] = pairs
    bad = rng.choice(list(out))
    if note == 'name-too-long':
        new = bad + 'x' * 40
        out = {(new if k == bad else k): v for k, v in out.items()}
    elif note == 'unknown-control':
        out[bad]['nosuchcontrol'] = 1
    elif note == 'too-many-values':
        prm = rng.choice(params)
        d = prm['default']
        out[bad][prm['name']] = [1.5] * ((len(d) if isinstance(d, list) else 1)
                                         + 1)
    return out, note


def _inject_invalid(g, what):
    """append one invalid construct that a side-effecting unit reads"""
    rng = g.rng
    kr = g.pick_node(stable=1)
    if kr is None:
        kr = g.mk_src('SinOsc', 'kr')
    ar = g.audio_node()
    t = g.tag()
    if what == 'out-ar-control-input':
        g.add({'k': 'sink', 'cls': rng.choice(['Out', 'ReplaceOut', 'OffsetOut']),
               'm': 'ar', 'bus': ['c', 0], 'chans': [ar, kr]})
        return
    if what == 'filter-ar-control-input':
        x = g.add({'k': 'ugen', 'cls': rng.choice(['LPF', 'HPF', 'OnePole']),
                   'm': 'ar', 'args': [kr, ['c', t]], 'tag': t})
    elif what == 'sendtrig-ar-control-input':
        g.add({'k': 'sink', 'cls': 'SendTrig', 'm': 'ar', 'tag': t,
               'args': [kr, ['c', t], ['c', 0]]})
        return
    elif what == 'pan2-ar-control-input':
        p = g.add({'k': 'ugen', 'cls': 'Pan2', 'm': 'ar',
                   'args': [kr, ['c', 0], ['c', t]], 'tag': t})
        x = g.add({'k': 'idx', 'a': p, 'i': 0})
    elif what == 'nan-input':
        x = g.add({'k': 'ugen', 'cls': 'SinOsc', 'm': 'ar',
                   'args': [['raw', "float('nan')"], ['c', t]], 'tag': t})
    elif what == 'nan-operand':
        g.add({'k': 'sink', 'cls': 'Out', 'm': 'kr', 'bus': ['c', 0],
               'chans': [kr, ['raw', "float('nan')"]]})
        return
    else:
        raw = {'none-input': 'None', 'string-input': "'freq'",
               'object-input': 'object()'}[what]
        x = g.add({'k': 'ugen', 'cls': 'SinOsc', 'm': 'ar',
                   'args': [['raw', raw], ['c', t]], 'tag': t})
    g.add({'k': 'sink', 'cls': 'Out', 'm': 'ar', 'bus': ['c', 0],
           'chans': [x]})


def without_failed_wraps(program):
    """the same program with every failed wrap replaced by its fallback: the
    rejected helper must leave nothing behind, so both build the same bytes"""
    import copy
    q = copy.deepcopy(program)
    for i, nd in enumerate(q['nodes']):
        if nd['k'] == 'wrapfail':
            q['nodes'][i] = {'k': 'alias', 'a': nd['fallback']}
    return q


def tag_belongs_to(node, unit_cls):
    """a tag constant found among the inputs of a unit identifies the unit
    only when it is the unit's own tag (the same constant can reach another
    unit as an ordinary operand)"""
    if node.get('cls') is not None:
        return node['cls'] == unit_cls
    return node['k'] in ('bin', 'un', 'madd', 'sumn') and unit_cls in ARITH_CLASSES


def tag_creation_order(program):
    """{tag constant: index of the node that creates the tagged unit(s)}"""
    return {nd['tag']: i for i, nd in enumerate(program['nodes'])
            if nd.get('tag')}
