"""C18 - incoming messages reach exactly the responders that should fire;
hostile datagrams invoke nothing, raise nothing, hang nothing; action
registries run exactly the registered actions in registration order.

Monitors (all runtime monitoring of the real code):
  hist  reference-model monitor: vf.model_dispatch.DispatchModel in lock step
        with real OscFunc responders under random histories (RT mode, through
        OscInterface._handle_request and, for a sample, real loop-back UDP);
        every callback invocation is logged and compared message by message.
  pat   independent OSC 1.0 address pattern matcher vs the real matching
        dispatcher on generated (pattern, address) pairs.
  fuzz  hostile datagrams: parser step counter (sys.monitoring) decides
        termination on logical steps, escaped exceptions, canary after every
        datagram, strict independent decoder decides malformed/valid.
  reg   ordered-registry reference model vs SystemAction / ServerAction /
        NotificationCenter under add/remove/run histories (raising actions,
        removal from inside actions, one-shots).
  midi  dispatch model vs MidiFunc responders fed through the registered MIDI
        receive function (types, ports, dict templates, one-shots, faults).
        Observation only (counters observed_midi/*): MIDI is outside C18.
  tcp   harness peer writes whole / coalesced / fragmented size-prefixed
        frames to the library's OscTcpInterface; exact in-order delivery.
  histrt  (vf/c18_rt.py) the harness thread performs responder operations WHILE
        datagrams arrive over loop-back UDP / a TCP connection and are
        dispatched by the library's receive and clock threads, with the
        schedule injector (vf/inject.py) on the dispatcher / responder /
        registry code; interval semantics (an operation concurrent with a
        message may or may not affect it, one completed before the send must be
        visible), possible-worlds set per one-shot responder.

Entry points beyond constructor / enable / disable / free / one_shot (round 7b):
@oscfunc decorator (25 % of creations), dispatcher instances given to the
constructor (20 %), OscFunc.trace(flag, hide_status) as a history operation with
its dumps judged (exactly the delivered messages, status replies of a server
hidden), the class-level listings _all_enabled / _all_disabled /
_all_func_proxies after every operation and dispatch, CmdPeriod.hard_run (hist
and reg), StartUp.defer before / after start-up, SystemAction._do_action,
NotificationCenter.clear (also from inside a notification);
AbstractDispatcher.free and ServerAction._do_action are observed only
(counters observed_*: outside the statement).

Round 8: (1) argument templates - every evaluation of a template predicate is
recorded and must have been given the message's own argument at the predicate's
position (never padding for a missing argument or another value); predicates
that raise TypeError for non-OSC values make a foreign value visible as an
exception in the dispatch too.  (2) error path followed by continued use:
responder creation that fails (receive port held by a socket of the harness,
invalid port numbers, invalid paths; every creation route, also inside
callbacks and concurrently with dispatch in histrt), followed by retry after the
port became free / while it is still taken, messages to the port the library
opened (also over real UDP: the canary follows on the same socket), free, port
closed with main.close_udp_port: a failed construction leaves no responder in
the class listing, a dispatcher or CmdPeriod and its function is never invoked;
the port of a responder just created receives a loop-back datagram (probe).

Round 9, two classes: (1) a datagram that ENDS INSIDE a bundle element (the
quantifier's 'truncated bundle elements'): valid multi-element bundles, flat and
nested, cut at every byte offset - exhaustively for two bundles per fuzz shard,
randomly by offset class otherwise, so that the three offsets inside every size
prefix are reached as often as message bodies - or followed by 1-8 NUL / 0xff /
arbitrary bytes / the head of one more element (top level and inside a nested
bundle), with standing responders on the addresses of all elements.  A
structural walk over the element sizes (c18_gen.truncated_element) decides
'ends inside an element' whatever the first deviation of the strict reading is
called (an odd length used to hide these behind 'packet-unaligned'): nothing may
be invoked, the elements in front of the cut included.  (2) the receive port
handed to receive functions / responders and compared with recv_port filters is
the port the datagram arrived on: truth is the kernel's view (getsockname of
the interface's socket; the remote port the accepting side of a TCP connection
sees), never the library's own bookkeeping (interface.port, lang_port()).  The
library is also started BEHIND candidate ports held by UDP sockets of the
harness (vf/c18_port.py, shards 'port*', worker mode 'none': the range walk of
sc3.LIB_PORT takes 1-6 steps) and TCP connections are made while listening
sockets of the harness hold the first 1-3 local ports they would take (default
lang_port() + 1 and the local_port argument), in the tcp, histrt and port
shards; per connection one responder per path filtered on the connection's real
port (fires once per message) and one on the held first candidate (silent).

Round 10: responders that SHARE their function (vf/c18_shared.py, shards
'shared*').  The history monitor gives every responder a closure of its own (it
has to, to tell responders apart in its log), so the dispatcher tables never hold
one function twice and every bookkeeping step that looks a function up BY VALUE
(membership, index, remove, equality of bound methods) is invisible to it.  The
new histories build 2-9 responders over a pool of 1-3 handlers (function, lambda,
bound method - a fresh equal object per use -, callable instance, partial; exact
and matching, colliding paths, dispatcher instances, decorator, with and without
filters; hot reload `new = OscFunc(h, path); old.free()` in all its orders) and
COUNT: per message and handler the number of invocations must equal the number of
enabled responders with that function that accept the message; no operation on a
sharer may raise; flags / listings follow the model; the order of the handler
labels is judged when all responders of a message sit on one path of one
dispatcher.

Round 11 (vf/c18_elem.py), what ONE ELEMENT of a packet may do to the others:
(1) shards 'tags*': datagrams from an independent encoder with every type tag the
receiver documents (sc3/base/_osclib.py: i f d s b t m r T F N and arrays) - each
alone, first / last / between other arguments, twice, inside arrays and nested
arrays, mixed - as a plain message and in every element position of bundles of 1-6
elements and nested bundles (depth <= 3), 15 % over loop-back UDP; every message of
the packet must reach the receive functions and the exact / pattern responders on
its address exactly once, in order, with exactly the decoded arguments, its time,
sender and port; the same shapes with tags the library does not document (h c S I,
and non-OSC tags) must raise nothing, leave the receiver alive and never alter a
message (whether they / their siblings are delivered: observed_*).  The fuzz
monitor's 'documented' set (c18_gen.SUPPORTED_TAGS) now includes m r N as well.
(2) shards 'bfault*': packets of 1-6 messages (flat / nested bundles, mixed
addresses, patterns; controls: plain messages, one-element bundles, no fault) while
responder functions and receive functions registered with main.add_osc_recv_func
RAISE on chosen elements (first, last, all but the last, all, random subsets; 1-2
raisers per element): every element nobody raises on invokes every receive function
and every accepting responder exactly once (same-path responders in creation
order), elements in order, nothing twice, only the injected exceptions are logged,
the receiver stays alive.
"""

from vf.common import iter_cases, case_rng, h64, split

LEVEL = 'exploration'
RULE = ("hist: seeded histories (5-55 ops) over <=10 responders on 4-9 paths that "
        "share prefixes (exact and matching, optional src / recv_port / argument "
        "template incl. predicates) interleaving create, enable, disable, one_shot, "
        "free, function replacement, permanent, CmdPeriod.run() - also armed to run "
        "inside callbacks - and responder functions that raise on their k-th "
        "invocation (22 % of responders) with messages/bundles whose arguments are shorter, longer "
        "or different from templates; non-trivial = at least one expected invocation, "
        "one enabled responder that must stay silent and one state-changing op; "
        "6 % of the creations cannot succeed (receive port bound by a harness socket, "
        "port out of range / negative / not an int, empty / non-str path), 85 % of the "
        "port-in-use failures are retried (70 % after the port was released); template "
        "predicates record what they are evaluated with, three of them raise TypeError "
        "for non-OSC values. "
        "pat: (pattern, 12 addresses) groups, pattern derived from an address by "
        "generalising characters into ? * [] [!] ranges {,} then truncated/extended; "
        "non-trivial = pattern has a wildcard construct and the group contains both a "
        "match and a non-match. fuzz: targeted malformed classes (negative/zero/"
        "oversized/unaligned element sizes, truncations, bad UTF-8, unknown/unbalanced "
        "type tags, negative blob size, 3000-deep nesting, malformed address patterns), "
        "valid 2-4 element bundles (30 % with a nested bundle) cut at an offset drawn by "
        "offset class (inside a size prefix +1/+2/+3, body, boundary, header; nested "
        "likewise) or extended by 1-8 NUL / 0xff / random bytes / the head of another "
        "element, per shard two bundles cut at EVERY offset and extended by 1-8 NUL / 0xff, "
        "and mutations of valid packets; non-trivial = not decodable by the strict "
        "decoder although it starts like a packet, or valid with >1 message. "
        "reg: add/re-add/remove/remove_all/run histories in which a running action "
        "removes a later / an earlier action / itself / everything or adds one; non-trivial = a removal followed by a run with >=2 actions. "
        "histrt: histories of 3-10 rounds; a round = 3-10 datagrams (25 % of the rounds "
        "over TCP) interleaved by the harness thread with 1-4 operations (create / "
        "free / disable / enable / one_shot / function replacement / permanent / "
        "CmdPeriod.run) and closed by a sentinel; non-trivial = a message concurrent "
        "with an operation and a verified 'must' invocation. "
        "port: the library started behind 1-6 candidate ports held by the harness, then "
        "hist / histudp histories and TCP frames as above; TCP connections (tcp, histrt, "
        "port) are made with 0-3 of their first candidate local ports held by listening "
        "sockets of the harness (40 % with an explicit local_port). "
        "shared: histories of 2-9 responders over 1-3 shared handlers (function / lambda / "
        "bound method / callable instance / partial), 2-3 colliding paths, 35 % filtered, "
        "ops create / hot reload (4 orders) / free / disable / enable / one_shot / function "
        "replacement / permanent / CmdPeriod, 75 % aimed at responders that share their "
        "function; invocations counted per handler; non-trivial = a message that must "
        "invoke one function more than once, a state-changing op and an enabled responder "
        "that must stay silent. "
        "tags: subject tag by rotation over i f d s b t m r T F N [] (12 of 17 cases) and h c S I / "
        "a non-OSC tag (5 of 17), shape alone / first / last / between / twice / in-array / "
        "nested-array / mixed, container message (30 %) or bundle of 1-6 elements with the "
        "subject at a uniform position, 35 % per level inside a nested bundle, other elements "
        "messages with documented tags or nested bundles; non-trivial = the subject has an "
        "argument or the packet several messages. "
        "bfault: per case 3-8 responders (exact / matching) on 2-4 paths and 1-3 receive "
        "functions, 1-3 packets of 1-6 messages carrying their serial, 88 % with raising "
        "elements (first / last / all but last / all / random subset), raiser = 1-2 accepting "
        "responders (60 %) or a receive function, 20 % over UDP; non-trivial = an element "
        "behind a raising one was verified complete. "
        "distinct = hash of history / pattern group / datagram bytes")
ASSUMPTIONS = [
    "vf/model_dispatch.py:osc_match is the meaning of 'OSC 1.0 pattern' (per-part "
    "matching, '-' at the end of a bracket list and '!' not at its start are literal)",
    "vf/osc.py strict decoder decides which byte strings are valid OSC 1.0; only "
    "classes in c18_gen.STRICT_NOTHING - and every datagram that ends inside a bundle "
    "element (c18_gen.truncated_element: 1-3 bytes where a size prefix is due, or an "
    "element announced longer than what is left; at any nesting depth; the quantifier's "
    "'truncated bundle elements') - make an invocation a violation, other "
    "deviations tolerated by a lenient reader (padding, alignment, missing type tag "
    "string or comma, trailing bytes, empty/unknown elements, short final float) are "
    "counted (lenient_dispatch/*); the type tags the library documents (comments of "
    "OscMessage._parse_datagram and the ARG_TYPE_* table of OscMessageBuilder in "
    "sc3/base/_osclib.py: i f d s b t m r T F N [ ]) must be delivered exactly - d as "
    "float, t and r as int, m as a tuple of four ints, N as None, arrays as lists; valid "
    "messages with other optional OSC 1.0 type tags (I h S c) may be delivered exactly or "
    "discarded, never altered, and what happens to their siblings in a bundle is counted "
    "only; valid nesting deeper than 300 bundles may be dropped as a whole",
    "order of the messages of one packet: packet order, or stable order of the time tags "
    "of the enclosing bundles (the library sorts a packet's messages by time tag; OSC 1.0 "
    "gives a later time tag the later effect) - either is accepted, nothing else",
    "bundle with raising callbacks: the message somebody raises on is judged 'at most once "
    "per function, somebody raised' only (the library abandons that message's dispatch and "
    "its receive functions are an unordered set); every other message of the packet is a "
    "unit of its own (OscInterface._msg_dispatch: one clock task per message)",
    "registry mechanics are exercised on fresh subclasses (own tables, no library "
    "actions) AND on the library's real CmdPeriod/StartUp/ShutDown and ServerBoot/"
    "ServerTree/ServerQuit holding actions at the same time (library-owned actions "
    "stay registered and are not judged; remove_all() is not used on the real ones)",
    "receive port: the port a datagram arrived on is the local port of the socket it was "
    "read from as the kernel reports it (socket.getsockname() of the interface's public "
    "`socket`; for TCP the peer port the harness' accept() returned); datagrams handed "
    "to OscInterface._handle_request directly count as arrived on that interface's "
    "socket; held ports are sockets of the harness without SO_REUSEADDR bound to the "
    "address the library binds (UDP for the main port, listening TCP for connections)",
    "MidiFunc (not OSC) is exercised for coverage of the shared dispatcher code "
    "only; its disagreements are counters observed_midi/*, never a verdict "
    "(proposed_fixes/C18-midi-dispatch.md is a note for the maintainer)",
    "TCP: no verdict on elapsed time - an undelivered canary only makes the harness "
    "end the stream; the final state after EOF, reader termination and a SystemClock "
    "flush is judged; a reader still running 30 s after EOF is inconclusive",
    "TCP: frames are written by the harness peer with 2 ms pauses between fragments; "
    "a pause the reader does not observe only makes the case less effective",
    "responder invocation, not delivery latency, is decided; waiting is on a canary "
    "message scheduled behind the datagram under test (SystemClock queue is FIFO "
    "for equal times, property C09)",
    "enable() after free() is not generated (documentation of free: 'when you are "
    "finished using this object'); WHETHER a responder fires whose template has "
    "None/predicate items beyond the end of a message (and on absent MIDI fields) is "
    "left open (sclang ignores such items, the library rejects non-None ones, the "
    "documentation is silent), but a predicate is 'evaluated with the corresponding "
    "message's value at the same position' (documentation of arg_template): an "
    "evaluation with anything that is not the argument at that position of a message "
    "of the datagram is a violation, and so is whatever it raises into the dispatch; "
    "responders whose state an earlier callback of the same dispatch changed are left "
    "open; a one-shot responder stays one-shot when its function is replaced",
    "failed creation: only arguments for which construction cannot succeed are used "
    "(a port bound by another socket on the address the library binds, ports outside "
    "0..65535 or not int, '' / None / int / bytes as path); which exception is raised "
    "is not judged; a creation expected to fail that succeeds is freed and counted "
    "(observed_creation_expected_to_fail_succeeded/*); the residue check reads the "
    "private tables (class listing, dispatcher.wrapped_funcs, CmdPeriod._actions) by "
    "identity of the function, the later-invocation check is black box; extra ports "
    "are closed with main.close_udp_port after the harness saw the receive thread "
    "running (stop() of an interface whose thread has not started does nothing: "
    "outside C18)",
    "after a responder function raised, responders of that message not registered "
    "before it on its path are left open (the library abandons the dispatch of that "
    "message); the raising invocation counts, a fired one-shot stays spent",
    "an action / listener removed by an earlier action of the same run (before "
    "its own turn) must not run, for SystemAction/StartUp/CmdPeriod, ServerAction "
    "and NotificationCenter alike; actions added during a run are left open",
    "CPython 3.12 sys.monitoring LINE events count parser steps",
    "histrt: one socket / one TCP connection delivers in order and the SystemClock "
    "thread dispatches one message after the other, so everything observed for a "
    "later datagram of the same transport happens after the dispatch of an earlier "
    "one ended; global counter stamps (itertools.count under the GIL) order "
    "operation start / end, sends and observations",
    "histrt: a message concurrent with CmdPeriod.run() may be dropped as a whole "
    "(it clears the SystemClock queue); enable() is not generated for a one-shot "
    "responder that was enabled at any time of the current round (it may have fired "
    "and freed itself); responder functions neither raise nor operate there",
    "histrt: the injector only delays threads at statement boundaries of the "
    "dispatcher / responder / registry code; KeyError / ValueError out of the table "
    "bookkeeping functions (c18_rt.BOOKKEEPING) share one mechanism key whichever "
    "thread notices the double removal first",
    "trace: after CmdPeriod the tracing state is left open until the next "
    "trace(False) (the library ends tracing there, undocumented); trace(True) is only "
    "generated while tracing is off (trace(True) while tracing stops it: observed, "
    "outside the statement); with a raising responder function the dump is open",
    "hard_run: the default server's address is pointed at a socket of the harness so "
    "that the node-tree re-initialisation talks to nobody else on the host; the "
    "harness waits for the '/sync' of that routine before it goes on",
    "shared functions: two responders given the same (or an equal: bound methods of one "
    "object) function are two responders - each is invoked once per accepted message, so "
    "the function is invoked once per such responder; their order among themselves is "
    "unobservable, their order relative to responders with another function is judged "
    "only when all responders the message must invoke are on one path of one dispatcher "
    "and creation order and last-enabling order agree for all of them; templates hold "
    "values only and messages are never shorter than a template (no open verdicts)",
    "listings: _all_enabled / _all_disabled / _all_func_proxies are private but "
    "documented by their doc strings; restricted to the history's own responders",
]
MIN_COUNTERS = {
    'quick': {'hist_messages': 3000, 'invocations_checked': 2000,
              'order_pairs_checked': 200, 'one_shots_fired': 100,
              'in_callback_ops_total': 100, 'messages_shorter_than_template': 50,
              'template_predicate_calls_checked': 3000,
              'predicate_items_beyond_message': 300,
              'failed_creations': 1000, 'failed_creation_residue_checks': 1000,
              'failed_creation_retries_succeeded': 300,
              'recv_ports_opened_by_creation': 300, 'opened_port_probes': 300,
              'injected_callback_faults': 300, 'registry_removed_before_its_turn': 200,
              'registry_real_runs_with_actions_elsewhere': 2000,
              'registry_injected_faults': 1000, 'cmdperiod_residue_checks': 500,
              'fuzz_valid_optional_type_tags': 100, 'midi_messages': 5000,
              'midi_one_shots_fired': 300, 'tcp_frames': 300,
              'pattern_pairs': 20000, 'pattern_pairs_expected_match': 2000,
              'fuzz_datagrams': 5000, 'fuzz_malformed': 2000,
              'fuzz_canaries_ok': 5000, 'parser_line_events': 100000,
              'udp_datagrams': 100, 'registry_runs': 2000,
              'registry_action_calls_checked': 4000,
              'created_via_decorator': 2000, 'created_on_dispatcher_instance': 1500,
              'trace_dumps_checked': 1500, 'trace_status_replies_hidden': 150,
              'trace_off_checked': 10000, 'listing_checks': 30000,
              'hist_op/cmd_period-hard': 100, 'registry_defer_immediate': 300,
              'registry_defer_registered': 30, 'registry_do_action_registered': 400,
              'registry_hard_runs': 300, 'registry_nc_clear': 50,
              'registry_nc_clear_inside_notify': 30,
              'rt_messages': 8000, 'rt_messages_concurrent_with_op': 4000,
              'rt_messages/tcp': 1000, 'rt_invocations_checked': 4000,
              'rt_verdicts/must': 3000, 'rt_ops_overlapping_a_dispatch': 500,
              'rt_one_shots_fired': 100, 'rt_order_pairs_checked': 150,
              'rt_injected_yields': 30000,
              # round 9: datagrams ending inside an element; the true receive port
              'fuzz_truncated_element/size-prefix': 1000,
              'fuzz_truncated_element/body': 2500, 'fuzz_sweep_datagrams': 700,
              'fuzz_generator/bundle-cut/size-prefix-1': 80,
              'fuzz_generator/bundle-cut/size-prefix-2': 80,
              'fuzz_generator/bundle-cut/size-prefix-3': 80,
              'fuzz_generator/bundle-cut/nested-size-prefix-1': 10,
              'fuzz_generator/bundle-extended': 250,
              'port_library_started_behind_held_ports': 2, 'port_walk_steps': 2,
              'port_outside_probes': 2, 'port_shard/hist_messages': 1200,
              'port_shard/udp_datagrams': 150, 'port_shard/tcp_frames': 120,
              'tcp_connections_behind_held_ports': 4,
              'tcp_messages_behind_held_ports': 250,
              'tcp_recv_port_filter_checks': 300,
              'rt_tcp_connections_behind_held_ports': 1,
              'recv_port_filter_verdicts/fires': 2000,
              # round 10: responders sharing one function (vf/c18_shared.py)
              'shared_histories': 500, 'shared_messages': 5000,
              'shared_messages_invoking_one_function_more_than_once': 1500,
              'shared_sharer_silent_while_other_fires': 1500,
              'shared_ops_on_a_sharer': 5000, 'shared_ops_on_a_sharer/free': 1500,
              'shared_ops_on_a_sharer/disable': 400, 'shared_ops_on_a_sharer/enable': 120,
              'shared_ops_on_a_sharer/one_shot': 400, 'shared_ops_on_a_sharer/set_func': 250,
              'shared_ops_on_a_sharer/cmd_period': 70, 'shared_one_shots_fired': 250,
              'shared_reloads/new-then-free': 250, 'shared_reloads/free-then-new': 120,
              'shared_order_sequences_checked': 250, 'shared_epilogues': 400,
              # round 11: every documented type tag in every position; bundles with raising
              # callbacks (vf/c18_elem.py)
              'tags_datagrams/documented': 2000, 'tags_messages_checked': 10000,
              'tags_responder_invocations_checked': 20000, 'tags_bundle_position/first': 450,
              'tags_bundle_position/last': 450, 'tags_bundle_position/middle': 700,
              'tags_bundle_position/only': 300, 'tags_bundle_size/6': 300,
              'tags_subject_in_nested_bundle': 700, 'tags_undocumented_checked': 800,
              'tags_datagrams/foreign': 150, 'tags_udp_datagrams': 400,
              'bfault_bundles_with_raising_element': 1500,
              'bfault_clean_elements_checked': 4000, 'bfault_raising_elements_checked': 3000,
              'bfault_elements_after_a_raising_element': 2000,
              'bfault_elements_after_a_raising_element/recv-func': 1000,
              'bfault_elements_after_a_raising_element/responder': 800,
              'bfault_elements_before_a_raising_element': 1500,
              'bfault_elements_between_raising_elements': 300,
              'bfault_nested_elements_after_a_raising_element': 400,
              'bfault_packet_order_checked': 1700, 'bfault_order_pairs_checked': 3500,
              'bfault_messages_in_packet/6': 300, 'bfault_udp_datagrams': 450,
              'tags_delivered_exactly/i': 150, 'tags_delivered_exactly_in_bundle/i': 100,
              'tags_delivered_exactly_in_array/i': 30, 'tags_delivered_exactly/f': 150,
              'tags_delivered_exactly_in_bundle/f': 100,
              'tags_delivered_exactly_in_array/f': 30, 'tags_delivered_exactly/d': 150,
              'tags_delivered_exactly_in_bundle/d': 100,
              'tags_delivered_exactly_in_array/d': 30, 'tags_delivered_exactly/s': 150,
              'tags_delivered_exactly_in_bundle/s': 100,
              'tags_delivered_exactly_in_array/s': 30, 'tags_delivered_exactly/b': 150,
              'tags_delivered_exactly_in_bundle/b': 100,
              'tags_delivered_exactly_in_array/b': 30, 'tags_delivered_exactly/t': 150,
              'tags_delivered_exactly_in_bundle/t': 100,
              'tags_delivered_exactly_in_array/t': 30, 'tags_delivered_exactly/m': 150,
              'tags_delivered_exactly_in_bundle/m': 100,
              'tags_delivered_exactly_in_array/m': 30, 'tags_delivered_exactly/r': 150,
              'tags_delivered_exactly_in_bundle/r': 100,
              'tags_delivered_exactly_in_array/r': 30, 'tags_delivered_exactly/T': 150,
              'tags_delivered_exactly_in_bundle/T': 100,
              'tags_delivered_exactly_in_array/T': 30, 'tags_delivered_exactly/F': 150,
              'tags_delivered_exactly_in_bundle/F': 100,
              'tags_delivered_exactly_in_array/F': 30, 'tags_delivered_exactly/N': 150,
              'tags_delivered_exactly_in_bundle/N': 100,
              'tags_delivered_exactly_in_array/N': 30, 'tags_delivered_exactly/[]': 150,
              'tags_delivered_exactly_in_bundle/[]': 100,
              'tags_delivered_exactly_in_array/[]': 30},
    'thorough': {'hist_messages': 100000, 'invocations_checked': 60000,
                 'order_pairs_checked': 5000, 'one_shots_fired': 3000,
                 'in_callback_ops_total': 3000,
                 'injected_callback_faults': 8000,
                 'registry_removed_before_its_turn': 5000,
                 'registry_real_runs_with_actions_elsewhere': 50000,
                 'registry_injected_faults': 50000, 'cmdperiod_residue_checks': 30000,
                 'fuzz_valid_optional_type_tags': 5000, 'midi_messages': 200000,
                 'midi_one_shots_fired': 10000, 'tcp_frames': 10000,
                 'messages_shorter_than_template': 1500,
                 'template_predicate_calls_checked': 80000,
                 'predicate_items_beyond_message': 8000,
                 'failed_creations': 25000, 'failed_creation_residue_checks': 25000,
                 'failed_creation_retries_succeeded': 7000,
                 'recv_ports_opened_by_creation': 7000, 'opened_port_probes': 7000,
                 'pattern_pairs': 1000000, 'pattern_pairs_expected_match': 100000,
                 'fuzz_datagrams': 200000, 'fuzz_malformed': 80000,
                 'fuzz_canaries_ok': 200000, 'parser_line_events': 5000000,
                 'udp_datagrams': 3000, 'registry_runs': 100000,
                 'registry_action_calls_checked': 200000,
                 'created_via_decorator': 30000, 'created_on_dispatcher_instance': 22000,
                 'trace_dumps_checked': 22000, 'trace_status_replies_hidden': 2000,
                 'trace_off_checked': 150000, 'listing_checks': 450000,
                 'hist_op/cmd_period-hard': 1500, 'registry_defer_immediate': 4500,
                 'registry_defer_registered': 450, 'registry_do_action_registered': 6000,
                 'registry_hard_runs': 4500, 'registry_nc_clear': 750,
                 'registry_nc_clear_inside_notify': 450,
                 'rt_messages': 120000, 'rt_messages_concurrent_with_op': 60000,
                 'rt_messages/tcp': 15000, 'rt_invocations_checked': 60000,
                 'rt_verdicts/must': 45000, 'rt_ops_overlapping_a_dispatch': 7500,
                 'rt_one_shots_fired': 1500, 'rt_order_pairs_checked': 2000,
                 'rt_injected_yields': 450000,
                 'fuzz_truncated_element/size-prefix': 20000,
                 'fuzz_truncated_element/body': 50000, 'fuzz_sweep_datagrams': 1200,
                 'fuzz_generator/bundle-cut/size-prefix-1': 2000,
                 'fuzz_generator/bundle-cut/size-prefix-2': 2000,
                 'fuzz_generator/bundle-cut/size-prefix-3': 2000,
                 'fuzz_generator/bundle-cut/nested-size-prefix-1': 300,
                 'fuzz_generator/bundle-extended': 6000,
                 'port_library_started_behind_held_ports': 3, 'port_walk_steps': 3,
                 'port_outside_probes': 3, 'port_shard/hist_messages': 40000,
                 'port_shard/udp_datagrams': 6000, 'port_shard/tcp_frames': 5000,
                 'tcp_connections_behind_held_ports': 50,
                 'tcp_messages_behind_held_ports': 15000,
                 'tcp_recv_port_filter_checks': 20000,
                 'rt_tcp_connections_behind_held_ports': 2,
                 'recv_port_filter_verdicts/fires': 50000,
                 'shared_histories': 12000, 'shared_messages': 120000,
                 'shared_messages_invoking_one_function_more_than_once': 35000,
                 'shared_sharer_silent_while_other_fires': 35000,
                 'shared_ops_on_a_sharer': 120000, 'shared_ops_on_a_sharer/free': 35000,
                 'shared_ops_on_a_sharer/disable': 9000, 'shared_ops_on_a_sharer/enable': 2500,
                 'shared_ops_on_a_sharer/one_shot': 9000, 'shared_ops_on_a_sharer/set_func': 5000,
                 'shared_ops_on_a_sharer/cmd_period': 1500, 'shared_one_shots_fired': 5000,
                 'shared_reloads/new-then-free': 5000, 'shared_reloads/free-then-new': 2500,
                 'shared_order_sequences_checked': 5000, 'shared_epilogues': 9000,
                 # round 11 (vf/c18_elem.py)
                 'tags_datagrams/documented': 24000, 'tags_messages_checked': 120000,
                 'tags_responder_invocations_checked': 240000,
                 'tags_bundle_position/first': 5400, 'tags_bundle_position/last': 5400,
                 'tags_bundle_position/middle': 8400, 'tags_bundle_position/only': 3600,
                 'tags_bundle_size/6': 3600, 'tags_subject_in_nested_bundle': 8400,
                 'tags_undocumented_checked': 9600, 'tags_datagrams/foreign': 1800,
                 'tags_udp_datagrams': 4800, 'bfault_bundles_with_raising_element': 18000,
                 'bfault_clean_elements_checked': 48000,
                 'bfault_raising_elements_checked': 36000,
                 'bfault_elements_after_a_raising_element': 24000,
                 'bfault_elements_after_a_raising_element/recv-func': 12000,
                 'bfault_elements_after_a_raising_element/responder': 9600,
                 'bfault_elements_before_a_raising_element': 18000,
                 'bfault_elements_between_raising_elements': 3600,
                 'bfault_nested_elements_after_a_raising_element': 4800,
                 'bfault_packet_order_checked': 20400, 'bfault_order_pairs_checked': 42000,
                 'bfault_messages_in_packet/6': 3600, 'bfault_udp_datagrams': 5400,
                 'tags_delivered_exactly/i': 1800, 'tags_delivered_exactly_in_bundle/i': 1200,
                 'tags_delivered_exactly_in_array/i': 360, 'tags_delivered_exactly/f': 1800,
                 'tags_delivered_exactly_in_bundle/f': 1200,
                 'tags_delivered_exactly_in_array/f': 360, 'tags_delivered_exactly/d': 1800,
                 'tags_delivered_exactly_in_bundle/d': 1200,
                 'tags_delivered_exactly_in_array/d': 360, 'tags_delivered_exactly/s': 1800,
                 'tags_delivered_exactly_in_bundle/s': 1200,
                 'tags_delivered_exactly_in_array/s': 360, 'tags_delivered_exactly/b': 1800,
                 'tags_delivered_exactly_in_bundle/b': 1200,
                 'tags_delivered_exactly_in_array/b': 360, 'tags_delivered_exactly/t': 1800,
                 'tags_delivered_exactly_in_bundle/t': 1200,
                 'tags_delivered_exactly_in_array/t': 360, 'tags_delivered_exactly/m': 1800,
                 'tags_delivered_exactly_in_bundle/m': 1200,
                 'tags_delivered_exactly_in_array/m': 360, 'tags_delivered_exactly/r': 1800,
                 'tags_delivered_exactly_in_bundle/r': 1200,
                 'tags_delivered_exactly_in_array/r': 360, 'tags_delivered_exactly/T': 1800,
                 'tags_delivered_exactly_in_bundle/T': 1200,
                 'tags_delivered_exactly_in_array/T': 360, 'tags_delivered_exactly/F': 1800,
                 'tags_delivered_exactly_in_bundle/F': 1200,
                 'tags_delivered_exactly_in_array/F': 360, 'tags_delivered_exactly/N': 1800,
                 'tags_delivered_exactly_in_bundle/N': 1200,
                 'tags_delivered_exactly_in_array/N': 360, 'tags_delivered_exactly/[]': 1800,
                 'tags_delivered_exactly_in_bundle/[]': 1200,
                 'tags_delivered_exactly_in_array/[]': 360},
}


def plan(tier, seed):
    q = tier == 'quick'
    secs = 40 if q else 560
    shards = []

    def add(kind, mode, total, parts, **kw):
        for p, (f, n) in enumerate(split(total, parts)):
            s = {'name': f'{kind}{p}', 'mode': mode, 'kind': kind, 'first_case': f,
                 'n': n, 'secs': secs, 'hard_timeout': secs + 150}
            s.update(kw)
            shards.append(s)

    add('hist', 'rt', 6000 if q else 150000, 4 if q else 6)
    add('histudp', 'rt', 300 if q else 6000, 1 if q else 2)
    add('histrt', 'rt', 800 if q else 28000, 2 if q else 4, p_yield=0.1)
    add('pat', 'rt', 3000 if q else 90000, 2 if q else 3)
    add('fuzz', 'rt', 45000 if q else 1200000, 3 if q else 6)
    add('fuzzudp', 'rt', 2000 if q else 40000, 1)
    add('tcp', 'rt', 1200 if q else 30000, 1 if q else 2)
    add('midi', 'nrt', 3000 if q else 100000, 1 if q else 2)
    add('reg', 'nrt', 6000 if q else 200000, 1 if q else 2)
    # round 10: responders that share one function object (vf/c18_shared.py)
    add('shared', 'rt', 1600 if q else 45000, 1 if q else 2)
    # round 11: one element of a packet and the others (vf/c18_elem.py): every
    # documented type tag in every position; bundles with raising callbacks
    for kind, total in (('tags', 12000 if q else 400000), ('bfault', 5000 if q else 150000)):
        for p, (f, n) in enumerate(split(total, 1 if q else 2)):
            shards.append({'name': f'{kind}{p}', 'mode': 'rt', 'kind': kind, 'first_case': f,
                           'n': n, 'secs': 24 if q else 420, 'hard_timeout': secs + 150})
    # the library started BEHIND ports other programs hold (vf/c18_port.py starts
    # it itself: worker mode 'none'), one process per number of held ports
    for k, held in enumerate((1, 3) if q else (1, 3, 6)):
        shards.append({'name': f'port{k}', 'mode': 'none', 'kind': 'port', 'held': held,
                       'first_case': 0, 'n': 300 if q else 6000,
                       'secs': 26 if q else 420, 'hard_timeout': secs + 150})
    return shards


def run_shard(spec, acc):
    kind = spec['shard']['kind']
    if kind in ('hist', 'histudp'):
        from vf import c18_hist
        c18_hist.run(spec, acc, udp=(kind == 'histudp'))
    elif kind == 'histrt':
        from vf import c18_rt
        c18_rt.run(spec, acc)
    elif kind == 'pat':
        from vf import c18_pat
        c18_pat.run(spec, acc)
    elif kind in ('fuzz', 'fuzzudp'):
        from vf import c18_fuzz
        c18_fuzz.run(spec, acc, udp=(kind == 'fuzzudp'))
    elif kind == 'tcp':
        from vf import c18_tcp
        c18_tcp.run(spec, acc)
    elif kind == 'midi':
        from vf import c18_midi
        c18_midi.run(spec, acc)
    elif kind == 'reg':
        from vf import c18_reg
        c18_reg.run(spec, acc)
    elif kind == 'shared':
        from vf import c18_shared
        c18_shared.run(spec, acc)
    elif kind == 'port':
        from vf import c18_port
        c18_port.run(spec, acc)
    elif kind in ('tags', 'bfault'):
        from vf import c18_elem
        c18_elem.run(spec, acc)
    else:
        raise ValueError(kind)
