"""C19 'sig' shards: envelope fields given as unit generator outputs.

Class of behaviour: an envelope that is written inside a SynthDef graph
function with SIGNALS in its fields - synth controls (control, scalar, trigger
and lagged rate, elements of an array control or the array control as a whole
field), outputs of other units (a single-output unit, one channel of a
multi-output unit) and arithmetic on them - in `levels`, `times`, `curves`
(scalar, per segment, per channel inside a nested entry, mixed with names and
numbers), `release_node`, `loop_node`, `offset`, and in the parameters of every
standard constructor.  The server format must carry THAT VERY signal at the
documented position: a signal among the curves is a curvature (shape 5, the
signal as curvature value), everything else keeps its column.

Observation points, all against vf/model_env.py with opaque `Sig` placeholders
(the model never sees sc3 objects):

* format lists   `Env(...)._envgen_format()` and `._interpolation_format()`
                 taken inside the graph function: where the model has a number
                 the list must have that number, where it has a caller's signal
                 the list must hold the identical object (`is`), where the
                 constructor is documented to compute something (half the
                 duration, peak * sustain + bias, the sum of the times) the
                 value is judged in the definition bytes;
* definition     the bytes of the SynthDef are decoded with vf/scgf.py and the
                 unit graph is EVALUATED by a small independent interpreter
                 (control units read the parameter table at their special
                 index; BinaryOpUGen + - * /, UnaryOpUGen neg, MulAdd, Sum3,
                 Sum4; other units are leaves that get a number per output)
                 under two assignments of numbers to the parameters and leaves:
                 the definition's own defaults and random ones.  Every input of
                 every EnvGen / IEnvGen unit (found through the inputs of the
                 Out unit they feed, i.e. in channel order) must evaluate to the
                 model encoding evaluated under the same assignment: constants
                 to float32 nearest, signals exactly (1e-9), documented
                 arithmetic within 1e-5.  A constant in place of a signal, a
                 different signal, a signal in another column all fail under at
                 least one assignment.

Keys: C19/signal-field/<where>/<column>/<what> with <where> in
{envgen-format, interpolation-format, EnvGen-bytes, IEnvGen-bytes}, <what> in
{signal-replaced-by-constant, other-signal, number-differs,
signal-instead-of-number, value-differs}.  The constructor name follows <where>
only when the constructor is to blame, i.e. when the public parameters of the
envelope it returned are not its documented breakpoints (class _Where);
otherwise a constructor case reports the same key as a plain Env(...).

Out of the domain (not generated): signals as the times of pairs / xyc (the
points are sorted by time), a scalar signal as `curves` of `pairs` (documented
list | str | float | int), list-valued peak / sustain for adsr / dadsr (other
shards), client-side evaluation of an envelope that contains signals.
"""

import copy

from vf.common import iter_cases, case_rng, h64, short_tb, tb_sites
from vf import model_env as M

CONTROL_CLASSES = ('Control', 'TrigControl', 'LagControl', 'AudioControl')
EG_BUS, IEG_BUS = 64, 96
NOISE_BASE, IN_BASE = 1000, 2000


class Whole(list):
    """A whole field given as one array control: the model sees the list of
    its channels, the graph function hands over the object the control is."""

    def __init__(self, tag, items):
        super().__init__(items)
        self.tag = tag

    def __deepcopy__(self, memo):
        return self


# ---------------------------------------------------------------------------
# signal pool of one case

class Pool:
    def __init__(self, rng):
        self.rng = rng
        self.controls = []      # (name, default (number | tuple), rate)
        self.noises = 0
        self.ins = []           # widths
        self.exprs = []         # (tag, op, a_tag, b (tag | number))
        self.sigs = {}          # tag -> Sig
        self.kinds = {}         # tag -> kind name (counters)

    def _value(self):
        r = self.rng
        return r.choice([round(r.uniform(-6, 6), 3), round(r.uniform(0.01, 4), 2),
                         r.choice([-4, 2, 0.5, 1, 3, -2.5, 0.25, 7])])

    def _sig(self, tag, kind):
        s = M.Sig(tag)
        self.sigs[tag] = s
        self.kinds[tag] = kind
        return s

    def control(self, rate=None):
        r = self.rng
        if rate is None:
            rate = r.choice([None, None, None, None, 'ir', 'tr', 0.05, 'kr'])
        name = f'p{len(self.controls)}'
        self.controls.append((name, self._value(), rate))
        kind = {None: 'control', 'kr': 'control', 'ir': 'scalar-control',
                'tr': 'trigger-control'}.get(rate, 'lagged-control')
        return self._sig(name, kind)

    def array(self, n):
        """A whole field of n entries given as one array control."""
        name = f'p{len(self.controls)}'
        self.controls.append((name, tuple(self._value() for _ in range(n)),
                              self.rng.choice([None, None, 0.05])))
        return Whole(name, [self._sig(f'{name}.{k}', 'array-control-element')
                            for k in range(n)])

    def new(self):
        """A signal for one position: sometimes one that is already in use."""
        r = self.rng
        if self.sigs and r.random() < 0.25:
            return self.sigs[r.choice(sorted(self.sigs))]
        k = r.random()
        if k < 0.5:
            return self.control()
        if k < 0.62:
            w = self.array(r.randint(2, 3))
            return r.choice(w)
        if k < 0.74:
            self.noises += 1
            return self._sig(f'n{self.noises - 1}', 'unit-output')
        if k < 0.86:
            w = r.randint(2, 3)
            self.ins.append(w)
            n = len(self.ins) - 1
            chans = [self._sig(f'i{n}.{j}', 'multi-output-channel')
                     for j in range(w)]
            return r.choice(chans)
        # arithmetic on a control (dyadic constants: exact in float32)
        a = self.control(rate=r.choice([None, 'ir']))
        op = r.choice(['*', '*', '+', '-'])
        if r.random() < 0.7:
            b = r.choice([2, 0.5, 2.5, -1.5, 3, 0.25])
        else:
            b = self.control(rate=None).tag
        tag = f'x{len(self.exprs)}'
        self.exprs.append((tag, op, a.tag, b))
        return self._sig(tag, 'arithmetic-on-control')

    # -- numbers for the placeholders -------------------------------------
    def environment(self, param_names, params, leaf):
        """tag -> number, from a parameter table and numbers for the leaves."""
        index = dict(param_names)
        env = {}
        for name, default, _ in self.controls:
            if name not in index:
                raise KeyError(name)
            if isinstance(default, tuple):
                for k in range(len(default)):
                    env[f'{name}.{k}'] = params[index[name] + k]
            else:
                env[name] = params[index[name]]
        for n in range(self.noises):
            env[f'n{n}'] = leaf[f'n{n}']
        for n, w in enumerate(self.ins):
            for j in range(w):
                env[f'i{n}.{j}'] = leaf[f'i{n}.{j}']
        for tag, op, a, b in self.exprs:
            x = env[a]
            y = env[b] if isinstance(b, str) else b
            env[tag] = x * y if op == '*' else x + y if op == '+' else x - y
        return env

    def leaf_tags(self):
        return [f'n{n}' for n in range(self.noises)] + \
            [f'i{n}.{j}' for n, w in enumerate(self.ins) for j in range(w)]


# ---------------------------------------------------------------------------
# placing signals into arguments

def _place_in_list(rng, pool, lst, p, nested_ok, other, stats, field):
    """Replace entries of `lst` by signals (probability p each); a nested
    per-channel entry gets signals inside; sometimes a plain entry becomes a
    nested one [signal, `other()`]."""
    out = []
    for x in lst:
        if isinstance(x, list):
            y = [pool.new() if rng.random() < max(p, 0.5) else v for v in x]
            if M.has_signal(y):
                stats[field + '_nested'] = stats.get(field + '_nested', 0) + 1
            out.append(y)
        elif rng.random() < p:
            if nested_ok and rng.random() < 0.2:
                y = [pool.new(), other()]
                if rng.random() < 0.5:
                    y.append(pool.new())
                rng.shuffle(y)
                stats[field + '_nested'] = stats.get(field + '_nested', 0) + 1
                out.append(y)
            else:
                out.append(pool.new())
        else:
            out.append(x)
    return out


def place_env(rng, pool, a, G):
    """Envelope arguments (from c19_gen.gen_env_args) with signals in a random
    non-empty choice of fields.  -> (kwargs, stats)"""
    levels = list(a['levels'])
    times = a['times']
    curves = a['curves']
    release, loop = a['release_node'], a['loop_node']
    nseg = len(levels) - 1
    offset = rng.choice([0, 0, 0.5, 1])
    stats = {}
    fields = ['levels', 'times', 'curves', 'curves', 'curves', 'nodes',
              'offset']
    chosen = {rng.choice(fields) for _ in range(rng.choice([1, 1, 2, 2, 3, 5]))}
    cls = a['cls']
    if 'levels' in chosen:
        if rng.random() < 0.15:
            levels = pool.array(len(levels))
            stats['levels_whole'] = 1
        else:
            levels = _place_in_list(rng, pool, levels, rng.choice([0.3, 0.6, 1]),
                                    True, lambda: G.gen_level(rng, cls), stats,
                                    'levels')
            if not M.has_signal(levels):
                levels[rng.randrange(len(levels))] = pool.new()
    if 'times' in chosen:
        if not isinstance(times, list):
            if times is None:
                times = [1, 1]
            else:
                times = pool.new() if rng.random() < 0.5 else [times]
        if isinstance(times, list):
            if rng.random() < 0.15 and len(times) >= 2:
                times = pool.array(len(times))
                stats['times_whole'] = 1
            else:
                times = _place_in_list(
                    rng, pool, times, rng.choice([0.3, 0.6, 1]), True,
                    lambda: G.gen_dur(rng, True) or 1, stats, 'times')
                if not M.has_signal(times):
                    times[rng.randrange(len(times))] = pool.new()
    if 'curves' in chosen:
        if not isinstance(curves, list):
            # a scalar signal is the curvature of every segment
            curves = pool.new() if rng.random() < 0.4 else [curves]
        if isinstance(curves, list):
            if rng.random() < 0.12 and len(curves) >= 2:
                curves = pool.array(len(curves))
                stats['curves_whole'] = 1
            else:
                curves = _place_in_list(
                    rng, pool, curves, rng.choice([0.3, 0.6, 1]), True,
                    lambda: G.gen_curve_item(rng, cls), stats, 'curves')
                if not M.has_signal(curves):
                    curves[rng.randrange(len(curves))] = pool.new()
    if 'nodes' in chosen:
        k = rng.random()
        if k < 0.6 or release is None:
            release = pool.new()
        if k > 0.4:
            loop = pool.new()
    if 'offset' in chosen:
        offset = pool.new()
    kw = dict(levels=levels, times=times, curves=curves, release_node=release,
              loop_node=loop, offset=offset)
    return kw, stats


_TIME_PARAMS = ('dur', 'attack_time', 'release_time', 'sustain_time',
                'decay_time', 'delay_time')
_LEVEL_PARAMS = ('level', 'sustain_level', 'peak_level', 'bias')


def place_ctor(rng, pool, name, kw):
    """Constructor keyword arguments with signals in a random non-empty choice
    of parameters."""
    kw = copy.deepcopy(kw)
    stats = {}

    def one(v, nested_ok=True):
        if isinstance(v, list):
            y = [pool.new() if rng.random() < 0.5 else x for x in v]
            if not M.has_signal(y):
                y[rng.randrange(len(y))] = pool.new()
            return y
        if nested_ok and rng.random() < 0.15:
            return [pool.new(), v] if rng.random() < 0.5 else [v, pool.new()]
        return pool.new()

    if name in ('pairs', 'xyc'):
        key = 'pairs' if name == 'pairs' else 'xyc'
        pts = kw[key]
        what = rng.choice(['levels', 'curves', 'both'])
        if name == 'pairs' and not isinstance(kw.get('curves'), list):
            if what != 'levels' and rng.random() < 0.7:
                kw['curves'] = [kw.get('curves') or 'lin'] * len(pts)
            else:
                what = 'levels'
        for k, q in enumerate(pts):
            if what in ('levels', 'both') and rng.random() < 0.5:
                q[1] = pool.new()
                stats['levels'] = 1
            if what in ('curves', 'both') and rng.random() < 0.6:
                if name == 'pairs':
                    kw['curves'][k] = pool.new()
                else:
                    q[2] = pool.new()
                stats['curves'] = 1
        if not stats:
            pts[rng.randrange(len(pts))][1] = pool.new()
            stats['levels'] = 1
        return kw, stats
    if name == 'step':
        for key in ('levels', 'times'):
            if rng.random() < 0.6:
                kw[key] = [pool.new() if rng.random() < 0.6 else x
                           for x in kw[key]]
        if not M.has_signal(kw['levels']) and not M.has_signal(kw['times']):
            kw['levels'][rng.randrange(len(kw['levels']))] = pool.new()
        if M.has_signal(kw['levels']): stats['levels'] = 1
        if M.has_signal(kw['times']): stats['times'] = 1
        return kw, stats
    # parameter constructors: make sure the parameters we want exist
    defaults = {'triangle': ('dur', 'level'), 'sine': ('dur', 'level'),
                'perc': ('attack_time', 'release_time', 'level', 'curve'),
                'linen': ('attack_time', 'sustain_time', 'release_time',
                          'level', 'curve'),
                'cutoff': ('release_time', 'level', 'curve'),
                'adsr': ('attack_time', 'decay_time', 'sustain_level',
                         'release_time', 'peak_level', 'curve', 'bias'),
                'dadsr': ('delay_time', 'attack_time', 'decay_time',
                          'sustain_level', 'release_time', 'peak_level',
                          'curve', 'bias'),
                'asr': ('attack_time', 'sustain_level', 'release_time',
                        'curve')}[name]
    if name in ('adsr', 'dadsr'):
        # list-valued peak / sustain / bias are the subject of the ctor shards
        for key in ('peak_level', 'sustain_level', 'bias'):
            if isinstance(kw.get(key), list):
                kw[key] = kw[key][0]
    n = rng.choice([1, 1, 2, 3, len(defaults)])
    for key in rng.sample(defaults, min(n, len(defaults))):
        if key == 'curve':
            c = kw.get('curve')
            if rng.random() < 0.3 and name != 'cutoff':
                # per segment list: signals, names and numbers
                kw['curve'] = [pool.new() if rng.random() < 0.6 else
                               rng.choice(['sin', -4, 'lin', 2.0, 'wel'])
                               for _ in range(rng.randint(1, 3))]
                if not M.has_signal(kw['curve']):
                    kw['curve'][0] = pool.new()
            else:
                kw['curve'] = pool.new()
            stats['curves'] = 1
        elif key in _TIME_PARAMS:
            kw[key] = one(kw.get(key, 1.0))
            stats['times'] = 1
        else:
            # list-valued peak / sustain / bias of adsr / dadsr: ctor shards
            nested_ok = name not in ('adsr', 'dadsr')
            v = kw.get(key, 1.0)
            if not nested_ok and isinstance(v, list):
                v = v[0]
            kw[key] = one(v, nested_ok)
            stats['levels'] = 1
    return kw, stats


# ---------------------------------------------------------------------------
# the independent interpreter of a decoded unit graph

def eval_units(d, params, leaf_value):
    """values[unit index][output index] (None = not modelled)."""
    vals = []
    for u in d.units:
        ins = []
        for x in u.inputs:
            ins.append(d.constants[x[1]] if x[0] == 'c' else vals[x[1]][x[2]])
        nout = len(u.out_rates)
        if u.cls in CONTROL_CLASSES:
            out = [params[u.special + k] if u.special + k < len(params)
                   else None for k in range(nout)]
        elif any(v is None for v in ins):
            out = [None] * nout
        elif u.cls == 'BinaryOpUGen' and len(ins) == 2:
            a, b = ins
            try:
                out = [{0: a + b, 1: a - b, 2: a * b}[u.special]
                       if u.special in (0, 1, 2) else
                       (a / b if u.special == 4 and b else None)]
            except OverflowError:
                out = [None]
        elif u.cls == 'UnaryOpUGen' and len(ins) == 1 and u.special == 0:
            out = [-ins[0]]
        elif u.cls == 'MulAdd' and len(ins) == 3:
            out = [ins[0] * ins[1] + ins[2]]
        elif u.cls in ('Sum3', 'Sum4'):
            out = [sum(ins)]
        else:
            out = [leaf_value(u, ins, k) for k in range(nout)]
        vals.append(out)
    return vals


def make_leaf(leaf):
    def leaf_value(u, ins, k):
        if u.cls == 'LFNoise0' and len(ins) == 1:
            return leaf.get(f'n{int(ins[0] - NOISE_BASE)}')
        if u.cls == 'In' and len(ins) == 1:
            return leaf.get(f'i{int(ins[0] - IN_BASE)}.{k}')
        return None
    return leaf_value


def channel_units(d, bus, cls):
    """Units of class `cls` in channel order: the inputs of the Out unit that
    writes to `bus`.  None when the structure is not that."""
    outs = [u for u in d.units if u.cls == 'Out' and u.inputs
            and u.inputs[0][0] == 'c' and d.constants[u.inputs[0][1]] == bus]
    if len(outs) != 1:
        return None
    units = []
    for x in outs[0].inputs[1:]:
        if x[0] != 'u' or d.units[x[1]].cls != cls:
            return None
        units.append(d.units[x[1]])
    return units


# ---------------------------------------------------------------------------

def _site(exc):
    s = tb_sites(exc)
    return f'{s[-1][0]}:{s[-1][1]}' if s else 'harness'


class _Where:
    """Key part that names the constructor - only when the constructor is to
    blame: the public parameters of the envelope it returned (levels, times,
    curves, release_node, loop_node) do not amount to its documented
    breakpoints.  When they do, the encoding of a correct envelope went wrong
    and the key is the one a plain Env(...) gets.  Evaluated on demand."""

    def __init__(self, ctor, env, real, pool, want):
        self.args = (ctor, env, real, pool, want)
        self.value = None

    def __format__(self, spec):
        if self.value is None:
            self.value = self._decide()
        return self.value

    def _decide(self):
        ctor, env, real, pool, want = self.args
        if ctor is None:
            return ''
        rev = {id(v): pool.sigs[t] for t, v in real.items()}

        def sym(x):
            if isinstance(x, list):
                return [sym(y) for y in x]
            if id(x) in rev:
                return rev[id(x)]
            if x is None or isinstance(x, (int, float, str)):
                return x
            return M.Expr('?', x, None)     # something computed
        try:
            have = M.encode(sym(env.levels), sym(env.times), sym(env.curves),
                            sym(env.release_node), sym(env.loop_node))
            if len(have) != len(want):
                return ctor + '/'
            for h, w in zip(have, want):
                if len(h) != len(w):
                    return ctor + '/'
                for k, (x, y) in enumerate(zip(h, w)):
                    if k == 2 and ctor == 'step':
                        continue
                    if isinstance(y, M.Sig):
                        if x is not y:
                            return ctor + '/'
                    elif isinstance(y, M.Expr):
                        pass
                    elif not M.is_number(x) or not M._close(x, y, 1e-12):
                        return ctor + '/'
            return ''
        except Exception:
            return ctor + '/'


_FUNCS = {}


def graph_function(pool, body):
    """def graph(p0=<default>, p1=..., ...): body([p0, p1, ...])"""
    n = len(pool.controls)
    if n not in _FUNCS:
        names = ', '.join(f'p{k}=0' for k in range(n))
        args = ', '.join(f'p{k}' for k in range(n))
        ns = {}
        exec(f'def make(body):\n    def graph({names}):\n'
             f'        return body([{args}])\n    return graph\n', ns)
        _FUNCS[n] = ns['make']
    f = _FUNCS[n](body)
    f.__defaults__ = tuple(c[1] for c in pool.controls)
    return f


def run_sig(spec, acc):
    from vf import c19_gen as G, scgf
    from sc3.synth.envelope import Env
    from sc3.synth.synthdef import SynthDef
    from sc3.synth.ugens import EnvGen, IEnvGen, Out, In, LFNoise0

    for i in iter_cases(spec):
        rng = case_rng(spec['seed'], 'C19', 'sig', i)
        pool = Pool(rng)
        if rng.random() < 0.55:
            ctor = None
            a = G.gen_env_args(rng)
            kw, stats = place_env(rng, pool, a, G)
            if len(kw['levels']) < 2:
                acc.case(h64(repr(kw)), nontrivial=False)
                continue
            exp = dict(kw)
        else:
            ctor, kw0, flags = G.gen_ctor_kwargs(rng)
            kw, stats = place_ctor(rng, pool, ctor, kw0)
            exp = G.ctor_expected(ctor, kw)
            exp['offset'] = 'unchecked' if ctor in ('pairs', 'xyc') else \
                kw.get('offset', 0)
        # EnvGen's own inputs in front of the envelope array
        head = [1.0, 1.0, 0.0, 1.0, rng.randrange(3)]
        for k in range(4):
            if rng.random() < 0.12:
                head[k] = pool.new()
        index = rng.choice([0.5, 0.25, 2])
        rate = rng.choice(['kr', 'kr', 'ar'])
        order = rng.choice(['formats-first', 'envgen-first', 'ienvgen-first'])
        as_tuples = rng.random() < 0.2
        nsig = len(pool.sigs)
        acc.case(h64(repr((ctor, kw, head))), nontrivial=nsig >= 1 and (
            ctor is not None or len(kw['levels']) >= 3))
        witness = {'case': i, 'constructor': ctor or 'Env', 'kwargs': repr(kw),
                   'controls': pool.controls, 'signals': dict(pool.kinds),
                   'arithmetic': pool.exprs, 'envgen_head': repr(head),
                   'envgen': f'{rate}, {order}, '
                             f'{"format tuples" if as_tuples else "Env object"}'}
        acc.count('sig_cases')
        acc.count('sig_cases_' + (ctor or 'Env'))

        # ---- model
        rel = exp['release_node']
        want = M.encode(exp['levels'], exp['times'], exp['curves'],
                        None if rel == 'unchecked' else rel, exp['loop_node'])
        wanti = M.encode_interpolation(
            exp['levels'], exp['times'], exp['curves'],
            0 if exp['offset'] == 'unchecked' else exp['offset'])
        unchecked = set()           # (side, column index)
        if rel == 'unchecked':
            unchecked.add(('envgen', 2))
        if exp['offset'] == 'unchecked':
            unchecked.add(('interpolation', 0))

        # ---- real code, inside a graph function
        seen = {}

        def body(args):
            real, whole = {}, {}
            for (name, default, _), arg in zip(pool.controls, args):
                if isinstance(default, tuple):
                    whole[name] = arg
                    for k in range(len(default)):
                        real[f'{name}.{k}'] = arg[k]
                else:
                    real[name] = arg
            for n in range(pool.noises):
                real[f'n{n}'] = LFNoise0.kr(NOISE_BASE + n)
            for n, w in enumerate(pool.ins):
                ch = In.kr(IN_BASE + n, w)
                for j in range(w):
                    real[f'i{n}.{j}'] = ch[j]
            for tag, op, x, y in pool.exprs:
                x = real[x]
                y = real[y] if isinstance(y, str) else y
                real[tag] = x * y if op == '*' else x + y if op == '+' \
                    else x - y
            seen['real'] = real

            def realise(v):
                if isinstance(v, Whole):
                    return whole[v.tag]
                if isinstance(v, list):
                    return [realise(x) for x in v]
                if isinstance(v, M.Sig):
                    return real[v.tag]
                return v
            rkw = {k: realise(v) for k, v in kw.items()}
            seen['given'] = copy.copy(rkw)
            env = Env(**rkw) if ctor is None else getattr(Env, ctor)(**rkw)
            seen['env'] = env

            def formats():
                seen['fmt'] = [list(t) for t in env._envgen_format()]
                seen['ifmt'] = [list(t) for t in env._interpolation_format()]

            def envgen():
                h = [realise(x) for x in head]
                arg = env
                if as_tuples:
                    # "env can be a tuple, a list of tuples for multiple
                    # channels or an instance of Env"
                    f = env._envgen_format()
                    arg = f[0] if len(f) == 1 else f
                eg = (EnvGen.kr if rate == 'kr' else EnvGen.ar)(arg, *h)
                (Out.kr if rate == 'kr' else Out.ar)(EG_BUS, eg)

            def ienvgen():
                Out.kr(IEG_BUS, IEnvGen.kr(env, index))
            steps = {'formats-first': (formats, envgen, ienvgen),
                     'envgen-first': (envgen, formats, ienvgen),
                     'ienvgen-first': (ienvgen, envgen, formats)}[order]
            for s in steps:
                s()

        try:
            func = graph_function(pool, body)
            sd = SynthDef('c19s', func, rates=[c[2] for c in pool.controls])
            data = sd.as_bytes()
        except Exception as e:
            stage = 'envelope' if 'env' not in seen else 'definition'
            acc.violation(
                f'C19/signal-field/{stage}-raises/{ctor or "Env"}/'
                f'{type(e).__name__}/{_site(e)}',
                dict(witness, tb=short_tb(e)))
            continue
        for k, v in stats.items():
            acc.count('sig_cases_with_' + k)
        for kind in set(pool.kinds.values()):
            acc.count('sig_cases_with_' + kind)

        # ---- format lists
        real = seen['real']
        where = _Where(ctor, seen['env'], real, pool, want)
        bad = False
        for side, got, exp_arrays, colname in (
                ('envgen', seen['fmt'], want, M.column_name),
                ('interpolation', seen['ifmt'], wanti,
                 M.interpolation_column_name)):
            sbad = False
            acc.count(f'sig_{side}_formats_compared')
            if len(got) != len(exp_arrays):
                acc.violation(
                    f'C19/signal-field/{side}-format/{where}channel-count',
                    dict(witness, got=repr(got), expected=repr(exp_arrays)))
                bad = sbad = True
                continue
            for ch, (g, e) in enumerate(zip(got, exp_arrays)):
                if len(g) != len(e):
                    acc.violation(
                        f'C19/signal-field/{side}-format/{where}length',
                        dict(witness, got=repr(g), expected=repr(e)))
                    bad = sbad = True
                    break
                for k, (x, y) in enumerate(zip(g, e)):
                    if (side, k) in unchecked:
                        acc.count('sig_unchecked_positions')
                        continue
                    what = None
                    if isinstance(y, M.Sig):
                        acc.count('sig_format_signal_positions')
                        acc.count(f'sig_format_signal_{colname(k)}')
                        if x is not real[y.tag]:
                            what = 'signal-replaced-by-constant' \
                                if M.is_number(x) else 'other-signal'
                    elif isinstance(y, M.Expr):
                        acc.count('sig_format_derived_positions')
                    else:
                        acc.count('sig_format_number_positions')
                        if not M.is_number(x):
                            what = 'signal-instead-of-number'
                        elif not M._close(x, y, 1e-12):
                            what = 'number-differs'
                    if what:
                        acc.violation(
                            f'C19/signal-field/{side}-format/{where}'
                            f'{colname(k)}/{what}',
                            dict(witness, channel=ch, index=k, got=repr(g),
                                 expected=repr(e)))
                        bad = sbad = True
                        break
                if sbad:
                    break
        if bad:
            continue

        # ---- definition bytes
        try:
            d = scgf.parse(data)
        except scgf.ScgfError as e:
            acc.violation('C19/signal-field/bytes-malformed',
                          dict(witness, error=str(e)))
            continue
        acc.count('sig_defs_decoded')
        if as_tuples:
            acc.count('sig_envgen_given_format_tuples')
        egs = channel_units(d, float(EG_BUS), 'EnvGen')
        iegs = channel_units(d, float(IEG_BUS), 'IEnvGen')
        if egs is None or iegs is None or len(egs) != len(want) \
                or len(iegs) != len(wanti):
            acc.violation(
                f'C19/signal-field/{"EnvGen" if egs is None or len(egs) != len(want) else "IEnvGen"}'
                f'-bytes/{where}channel-structure',
                dict(witness, units=[repr(u) for u in d.units],
                     channels=len(want)))
            continue
        np_ = len(d.params)
        assignments = []
        lt = pool.leaf_tags()
        assignments.append((list(d.params),
                            {t: rng.uniform(-9, 9) for t in lt}))
        assignments.append(([rng.uniform(-9, 9) for _ in range(np_)],
                            {t: rng.uniform(-9, 9) for t in lt}))
        for params, leaf in assignments:
            try:
                env = pool.environment(d.param_names, params, leaf)
            except (KeyError, IndexError):
                acc.violation('C19/signal-field/bytes/parameter-table',
                              dict(witness, param_names=d.param_names,
                                   params=d.params))
                bad = True
                break
            vals = eval_units(d, params, make_leaf(leaf))
            for cls, units, arrays, hd, colname in (
                    ('EnvGen', egs, want, head, M.column_name),
                    ('IEnvGen', iegs, wanti, [index],
                     M.interpolation_column_name)):
                side = 'envgen' if cls == 'EnvGen' else 'interpolation'
                for ch, (u, arr) in enumerate(zip(units, arrays)):
                    full = hd + arr
                    if len(u.inputs) != len(full):
                        acc.violation(
                            f'C19/signal-field/{cls}-bytes/{where}input-count',
                            dict(witness, unit=repr(u), expected=repr(full)))
                        bad = True
                        break
                    for k, (x, y) in enumerate(zip(u.inputs, full)):
                        if (side, k - len(hd)) in unchecked:
                            continue
                        g = d.constants[x[1]] if x[0] == 'c' \
                            else vals[x[1]][x[2]]
                        if g is None:
                            acc.count('sig_def_inputs_not_modelled')
                            continue
                        w = M.evaluate(y, env)
                        if isinstance(y, M.Sig):
                            tol = 1e-9 * max(1.0, abs(w))
                            acc.count('sig_def_signal_inputs_evaluated')
                        elif isinstance(y, M.Expr):
                            tol = 1e-5 * max(1.0, abs(w))
                            acc.count('sig_def_derived_inputs_evaluated')
                        else:
                            w = M.f32(w)
                            tol = 2.0 ** -23 * abs(w)
                            acc.count('sig_def_constant_inputs_evaluated')
                        if g != w and not abs(g - w) <= tol:
                            if k < len(hd):
                                col = ('gate', 'level-scale', 'level-bias',
                                       'time-scale', 'done-action')[k] \
                                    if cls == 'EnvGen' else 'index'
                            else:
                                col = colname(k - len(hd))
                            if M.is_signal(y) and x[0] == 'c':
                                what = 'signal-replaced-by-constant'
                            elif M.is_signal(y):
                                what = 'other-signal' \
                                    if isinstance(y, M.Sig) else 'value-differs'
                            elif x[0] != 'c':
                                what = 'signal-instead-of-number'
                            else:
                                what = 'number-differs'
                            acc.violation(
                                f'C19/signal-field/{cls}-bytes/{where}{col}/'
                                f'{what}',
                                dict(witness, channel=ch, index=k,
                                     input=list(x), evaluates_to=g,
                                     expected=repr(y), expected_value=w,
                                     unit=repr(u), params=params,
                                     param_names=d.param_names))
                            bad = True
                            break
                    if bad:
                        break
                if bad:
                    break
            if bad:
                break
        if bad:
            continue
        acc.count('sig_defs_agreeing')
        if acc.want_sample() and len(repr(kw)) < 260 and nsig >= 2:
            acc.sample({'case': i, 'constructor': ctor or 'Env',
                        'kwargs': repr(kw), 'controls': pool.controls,
                        'envgen_format': repr(seen['fmt'])[:600]})
