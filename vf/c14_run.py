"""C14 harness: builds real sc3 objects from specs, plays them in NRT mode,
captures the score (`main.process()` -> .raw decoded by vf.osc, and .list) and
compares it with the expectations derived from vf/model_events.py.

sc3 is imported lazily (inside functions): the property module must stay
importable without it."""

import logging

from vf import osc
from vf import model_events as me

REL = 1e-9          # relative tolerance of the key chains (DESIGN.md C14)
TT = float(1 << 32)


def close(a, b, rel=REL, abs_=1e-12):
    if a == b:          # also equal infinities
        return True
    return abs(a - b) <= rel * max(abs(a), abs(b)) + abs_


def _close32(got, exp):
    """got was read back from an OSC float32 slot: compare with the float32
    rounding of the model value; the 1e-9 relative slack of the chain may move
    the double across one float32 rounding boundary, hence one float32 ulp."""
    e = osc.f32(exp)
    if got == e:
        return True
    return abs(got - e) <= abs(e) * 2.0 ** -23 + 1e-9 * abs(e) + 1e-30


# ------------------------------------------------------------------ sc3 side

class PlayerErrors(logging.Handler):
    """Exceptions of tasks woken by the NRT scheduler are logged by
    sc3.base.clock; this handler is the observation point."""

    def __init__(self):
        super().__init__(level=logging.ERROR)
        self.records = []

    def emit(self, record):
        exc = record.exc_info[1] if record.exc_info else None
        self.records.append((record.getMessage(), exc))


_errors = None


def setup_logging():
    global _errors
    if _errors is None:
        _errors = PlayerErrors()
        lg = logging.getLogger('sc3.base.clock')
        lg.setLevel(logging.ERROR)
        lg.addHandler(_errors)
        lg.propagate = False
    return _errors


def build_instruments(insts):
    from sc3.base.main import main
    from sc3.synth.synthdef import SynthDef
    from sc3.synth.synthdesc import SynthDescLib
    from sc3.synth import ugens  # noqa
    from sc3.synth.ugens import Out, DC
    info = {}
    for ins in insts:
        args = ', '.join(f'{n}={d!r}' for n, d in ins['controls'])
        body = ' + '.join(n for n, _ in ins['controls'])
        src = (f'def _f({args}):\n'
               f'    Out.ar(0, DC.ar(0) * ({body}))\n')
        ns = {'Out': Out, 'DC': DC}
        exec(src, ns)
        sd = SynthDef(ins['name'], ns['_f'], variants=ins.get('variants'))
        sd.add()
        desc = SynthDescLib.default.at(ins['name'])
        names = [n for n, _ in ins['controls']]
        # harness self-check (not a verdict about the property)
        assert list(desc.control_names) == names, (desc.control_names, names)
        assert bool(desc.has_gate) == ins['gate']
        info[ins['name']] = {'controls': names, 'gate': ins['gate'],
                             'variants': bool(ins.get('variants'))}
    main.reset()
    return info


_scale_cache = {}


def to_scale(spec):
    from sc3.seq.scale import Scale, Tuning
    if spec['tuning'] is None:
        return Scale(spec['degrees'])
    return Scale(spec['degrees'],
                 Tuning(spec['tuning'], spec['ratio'], name=spec['kind']))


def to_value(v, groups=None):
    from sc3.seq.event import Rest
    if me.is_rest_value(v):
        return Rest(v['rest'])
    if isinstance(v, str) and v == 'groupobj':
        return groups['obj']
    if isinstance(v, str) and v == 'inf':
        return float('inf')
    return v


def to_event_dict(spec, groups=None):
    out = {}
    for k, v in spec.items():
        if k == 'scale':
            if v is not None:
                out[k] = to_scale(v)
        elif k == 'group':
            out[k] = to_value(v, groups)
        else:
            out[k] = to_value(v)
    return out


def apply_mutation(e, op, groups=None):
    """Perform the edit `op` (see model_events.apply_mutation) on the real
    event object with the dict method the op names; returns the object."""
    m = op['m']
    st = to_event_dict(op.get('set') or {}, groups)
    dl = op.get('del') or []
    if m in ('clear', 'clear-update'):
        e.clear()
    if m == 'popitem':
        for _ in range(op.get('n', 1)):
            if e:
                e.popitem()
    if m == 'setdefault' and op.get('pop_assigned'):
        dl = list(dl) + [k for k in st if k not in dl]
    for k in dl:
        if m in ('setitem', 'delitem'):
            if k in e:
                del e[k]
        elif m == 'pop':
            if k in e:
                e.pop(k)
        else:
            e.pop(k, None)
    if not st:
        return e
    if m == 'setitem':
        for k, v in st.items():
            e[k] = v
    elif m == 'update-kw':
        e.update(**st)
    elif m == 'update-pairs':
        e.update(list(st.items()))
    elif m == 'ior':
        e |= st
    elif m == 'setdefault':
        for k, v in st.items():
            e.setdefault(k, v)
    else:       # update-dict, update/pop, clear-update, popitem + update ...
        e.update(st)
    return e


def derive(e, how, st, groups=None):
    """A new event object made from `e` (and the keys `st`)."""
    import copy
    from sc3.seq.event import event
    kw = to_event_dict(st or {}, groups)
    if how == 'copy':
        new = e.copy()
    elif how == 'copy.copy':
        new = copy.copy(e)
    elif how == 'event(e)':
        new = event(e)
    elif how == 'event(**e)':
        new = event(**e)
    elif how == 'type(e)(e)':
        new = type(e)(e)
    elif how == 'event(e,**kw)':
        return event(e, **kw)
    elif how == 'event(e|d)':
        return event(e | kw)
    else:
        raise ValueError(how)
    if kw:
        new.update(kw)
    return new


def wanted_lookups(ev, res):
    """[(key, expected)] of the look-ups that the statement decides for the
    explicit key set `ev` (see the comments in vf/props/C14.py run_chain)."""
    wanted = [('delta', res.delta), ('sustain', res.sustain)]
    if res.rest:
        return wanted
    if not ('db' in ev and 'velocity' in ev and 'amp' not in ev):
        # (db together with velocity without amp: no documented precedence)
        wanted.append(('amp', res.amp))
    # `note` is compared only where its unit is unambiguous (12-ET);
    # reverse conversions (midinote/note from freq) are not in the statement
    plain = (ev.get('scale') or {}).get('tuning') is None
    if res.pitch_source != 'freq':
        if 'midinote' not in ev and plain:
            wanted.append(('note', res.note))
        wanted.append(('midinote', res.midinote))
    if me.num(ev.get('harmonic', 1)) == 1:
        wanted.append(('freq', res.freq))
    return wanted


PEEK_KEYS = ('freq', 'midinote', 'amp', 'sustain', 'delta')


def to_valpattern(vs):
    from sc3.seq.patterns.listpatterns import Pseq, Pser
    from sc3.seq.patterns.valuepatterns import Pseries
    if not isinstance(vs, (list, tuple)):
        return to_value(vs)
    kind = vs[0]
    if kind == 'seq':
        return Pseq([to_valpattern(x) for x in vs[1]], vs[2], vs[3])
    if kind == 'ser':
        return Pser([to_valpattern(x) for x in vs[1]], vs[2], vs[3])
    if kind == 'series':
        return Pseries(vs[1], vs[2], vs[3])
    raise ValueError(vs)


def to_pattern(p, shared=None, built=None):
    """shared: name -> spec of pattern objects that are used at several
    places (['use', name]); built: memo, so that every use is the SAME
    object."""
    from sc3.seq.patterns.eventpatterns import Pbind, Pmono, Ppar, Pchain
    from sc3.seq.patterns.filterpatterns import Pdur, Pdelta, Pn
    from sc3.seq.patterns.listpatterns import Pseq
    built = {} if built is None else built
    rec = lambda c: to_pattern(c, shared, built)
    kind = p[0]
    if kind == 'use':
        if p[1] not in built:
            built[p[1]] = rec(shared[p[1]])
        return built[p[1]]
    if kind == 'pseq':
        return Pseq([rec(c) for c in p[1]])
    if kind == 'pn':
        return Pn(rec(p[2]), p[1])
    if kind == 'pbind':
        return Pbind({k: to_valpattern(v) for k, v in p[1].items()})
    if kind == 'pmono':
        return Pmono(p[1], {k: to_valpattern(v) for k, v in p[2].items()})
    if kind == 'pmono_artic':
        return Pmono(p[1], {k: to_valpattern(v) for k, v in p[2].items()},
                     articulate=True)
    if kind == 'ppar':
        return Ppar(*[rec(c) for c in p[1]])
    if kind == 'pchain':
        return Pchain(rec(p[1]), rec(p[2]))
    if kind == 'pdur':
        return Pdur(p[1], rec(p[2]))
    if kind == 'pdelta':
        return Pdelta(p[1], rec(p[2]))
    raise ValueError(p)


class Capture:
    """What one case produced: decoded raw score, list score, elapsed time,
    exceptions raised synchronously (`raised`) or inside scheduled tasks
    (`task_errors`)."""

    def __init__(self):
        self.raw = []          # [(seconds, Msg)]
        self.lst = []          # [(seconds, list)]
        self.elapsed = None
        self.raised = None
        self.task_errors = []
        self.decode_error = None
        self.extra = {}


def collect(cap):
    """main.process() -> decoded bundles; always resets afterwards."""
    from sc3.base.main import main
    try:
        try:
            sc = main.process()
        except Exception as e:      # noqa: a verdict, not a harness failure
            cap.raised = cap.raised or e
            cap.extra['raised_in'] = 'main.process'
            return
        cap.elapsed = main.elapsed_time()
        raw = bytes(sc.raw)
        i = 0
        try:
            while i < len(raw):
                n = int.from_bytes(raw[i:i + 4], 'big')
                i += 4
                b = osc.decode(raw[i:i + n])
                i += n
                if not isinstance(b, osc.Bundle):
                    raise osc.OscError('score element is not a bundle')
                for m in b.elements:
                    cap.raw.append((b.timetag / TT, m))
        except osc.OscError as e:
            cap.decode_error = str(e)
        for b in sc.list:
            for m in b[1:]:
                cap.lst.append((b[0], m))
    finally:
        cap.task_errors = list(_errors.records)
        _errors.records.clear()
        main.reset()


def run_play_program(prog, groups):
    """Play the events of a program; returns (Capture, [logical play time])."""
    from sc3.base.main import main
    from sc3.base.play import play
    from sc3.base.stream import Routine
    from sc3.base.clock import SystemClock, TempoClock
    from sc3.synth.server import Server
    from sc3.seq.event import event
    cap = Capture()
    times = []
    s = Server.default
    old = s.latency
    s.latency = prog['latency']

    objs = {}

    def one(step):
        how = step['how']
        if how == 'object':
            # history on one event object: create / edit in place / copy + edit
            k = step['obj']
            if step['op'] == 'new':
                objs[k] = event(to_event_dict(step['event'], groups))
            else:
                if step['op'] == 'copy':
                    objs[k] = derive(objs[step['src']],
                                     step.get('copy_how', 'copy'), None)
                e = objs[k]
                if step.get('peek'):
                    # look-ups before the edit (values not compared here: the
                    # previous play was)
                    for key in PEEK_KEYS:
                        e(key)
                mut = step.get('mut', 'update/pop')
                if mut == 'clear-update':
                    apply_mutation(e, {'m': mut, 'set': step['event']}, groups)
                else:
                    apply_mutation(e, {'m': mut, 'set': step['set'],
                                       'del': step['del'],
                                       'pop_assigned': True}, groups)
                if step.get('peek_after'):
                    cap.extra.setdefault('peeks', []).append(
                        (len(times) - 1, {key: e(key) for key in PEEK_KEYS}))
            objs[k].play()
            return
        d = to_event_dict(step['event'], groups)
        if how == 'event.play':
            event(d).play()
        elif how == 'play(dict)':
            play(d)
        elif how == 'play(**kw)':
            play(**d)
        else:
            keys = sorted(d)
            half = {k: d[k] for k in keys[::2]}
            rest = {k: d[k] for k in keys[1::2]}
            play(half, **rest)

    try:
        if prog['where'] == 'main':
            for step in prog['steps']:
                times.append(0.0)
                try:
                    one(step)
                except Exception as e:      # noqa
                    cap.raised = e
                    break
        else:
            t = [0.0]

            def body():
                for step in prog['steps']:
                    yield step['wait']
                    t[0] = t[0] + step['wait']
                    times.append(t[0])
                    one(step)
            clock = SystemClock if prog['where'] == 'routine-system' \
                else TempoClock(1)
            Routine(body).play(clock)
        collect(cap)
    finally:
        s.latency = old
    return cap, times


def run_timeline_case(case):
    from sc3.base.main import main  # noqa
    from sc3.base.stream import Routine
    from sc3.base.clock import SystemClock, TempoClock
    from sc3.synth.server import Server
    from sc3.seq.event import event
    cap = Capture()
    s = Server.default
    old = s.latency
    s.latency = case['latency']
    pat = to_pattern(case['pattern'], case.get('shared'))
    proto = event({'c14proto': 1}) if case['proto'] == 'event' else None
    if case['proto'] == 'event-rest':
        from sc3.seq.event import Rest
        proto = event({'c14proto': 1, 'c14quiet': Rest(0.5)})
    if case.get('plays'):
        try:
            _run_plays(case, pat, proto)
            collect(cap)
        finally:
            s.latency = old
        return cap, 0.0

    def clock_of():
        c = case['clock']
        return None if c == 'default' else SystemClock if c == 'system' \
            else TempoClock(1)
    try:
        if case['where'] == 'main':
            start = 0.0
            try:
                pat.play(clock_of(), 0, proto=proto)
            except Exception as e:      # noqa
                cap.raised = e
        else:
            start = case['start']

            def body():
                yield start
                pat.play(clock_of(), 0, proto=proto)
            Routine(body).play(SystemClock if case['where'] == 'routine-system'
                               else TempoClock(1))
        collect(cap)
    finally:
        s.latency = old
    return cap, start


def _run_plays(case, pat, proto):
    """The same pattern object played several times (one EventStreamPlayer
    per play), some players stopped mid-way, all driven from one routine on
    SystemClock.  plays: [{'at': t, 'stop': t2 | None}] (absolute seconds)."""
    from sc3.base.stream import Routine
    from sc3.base.clock import SystemClock, TempoClock
    actions = []
    for i, pl in enumerate(case['plays']):
        actions.append((pl['at'], 0, 'play', i))
        if pl.get('stop') is not None:
            actions.append((pl['stop'], 1, 'stop', i))
    actions.sort()
    players = {}

    def body():
        now = 0.0
        for t, _, what, i in actions:
            if t > now:
                yield t - now
                now = t
            if what == 'play':
                c = case['clock']
                clock = None if c == 'default' else SystemClock \
                    if c == 'system' else TempoClock(1)
                players[i] = pat.play(clock, 0, proto=proto)
            else:
                players[i].stop()
    Routine(body).play(SystemClock)


# ------------------------------------------------------------------ expectations

class Expect:
    """Expected traffic of one case."""

    def __init__(self):
        self.notes = []      # dict(tag, time, inst, action, group, ev, res,
                             #      gate_time|None, kind)
        self.sets = []       # dict(tag, time, mono, ev, res)
        self.releases = []   # dict(mono, time, exact)
        self.rests = 0
        self.rest_classes = {}      # class of key holding a Rest -> rests
        self.odd_rests = []         # times of rests by a Rest in another key
        self.odd_rest_tags = set()
        self.delta_only_rest_tags = set()
        self.rest_tags = set()
        self.group_id = None
        self.total = None    # expected elapsed time (None: not asserted)


def expect_note(ev, t, latency, info, groups, kind='note', mono=None):
    res = me.resolve(ev)
    inst = mono[1] if mono else ev.get('instrument', 'default')
    # a definition the library has no description of: Event help - the
    # default parameters freq, amp, pan, out are sent and a gate is assumed
    ii = info.get(inst) or {'controls': None, 'gate': None, 'variants': False}
    name = inst
    if ev.get('variant') is not None and ii['variants']:
        name = f"{inst}.{ev['variant']}"
    grp = ev.get('group', 1)
    if grp == 'groupobj':
        grp = groups['id']
    return {
        'tag': ev['tag'], 'time': t + latency, 'inst': name, 'desc': ii,
        'action': me.ADD_ACTIONS[ev.get('add_action', 'addToHead')],
        'group': grp, 'ev': ev, 'res': res, 'kind': kind,
        'mono': mono[0] if mono else None,
        'gate_time': (t + latency + res.sustain
                      if ii['gate'] is not False and kind == 'note'
                      and res.sustain != me.INF else None),
        'gate_optional': ii['gate'] is None,
    }


def expect_program(prog, times, info, groups):
    ex = Expect()
    ex.group_id = groups['id']
    for step, t in zip(prog['steps'], times):
        n = expect_note(step['event'], t, prog['latency'], info, groups)
        n['prev_tags'] = step.get('prev_tags', [])
        n['op'] = step.get('op')
        ex.notes.append(n)
    return ex


def case_timelines(case, start):
    """[(start time, Timeline)] of a case, and the expected time of the last
    wake-up (None: not asserted)."""
    pat = me.expand(case['pattern'], case.get('shared') or {})
    if not case.get('plays'):
        tl = me.timeline(pat)
        return [(start, tl)], (start + tl.total, None)
    out, total, upper = [], 0.0, 0.0
    for pl in case['plays']:
        tl = me.timeline(pat)
        if pl.get('stop') is not None:
            tl = me.stopped(tl, pl['stop'] - pl['at'])
            # the player ran until the stop (the stopping routine woke then);
            # the wake-up that was pending may still happen, not later than
            # the next element of the stopped player
            total = max(total, pl['stop'])
            upper = max(upper, pl['stop'], pl['at'] + (tl.pending_wake or 0))
        else:
            total = max(total, pl['at'] + tl.total)
        out.append((pl['at'], tl))
    upper = max(upper, total)
    return out, (total, upper if upper > total else None)


def expect_timeline(case, start, info, groups):
    tls, total = case_timelines(case, start)
    ex = Expect()
    ex.group_id = groups['id']
    L = case['latency']
    ex.flags = set()
    for st, tl in tls:
        ex.flags |= tl.flags
        first = len(ex.notes)
        for onset, e in tl.items:
            if e.rest or case.get('proto') == 'event-rest':
                ex.rests += 1
                for c in me.rest_key_classes(e.keys):
                    ex.rest_classes[c] = ex.rest_classes.get(c, 0) + 1
                if e.kind != 'silent' and e.keys.get('type') != 'rest' \
                        and 'tag' in e.keys and {
                            k for k, v in e.keys.items()
                            if k != 'scale' and me.is_rest_value(v)} == {'delta'}:
                    # a rest only by the Rest object in its delta
                    ex.delta_only_rest_tags.add(e.keys['tag'])
                # (delta apart: a Pdur cut rewrites it, keeping the Rest)
                if e.kind != 'silent' and e.keys.get('type') != 'rest' \
                        and 'dur-or-pitch-source' not in me.rest_key_classes(
                            {k: v for k, v in e.keys.items() if k != 'delta'}):
                    # a rest only by a Rest object outside the duration and
                    # pitch source keys
                    ex.odd_rests.append(st + onset)
                    if 'tag' in e.keys:
                        ex.odd_rest_tags.add(e.keys['tag'])
                if 'tag' in e.keys:
                    ex.rest_tags.add(e.keys['tag'])
                continue
            if e.kind == 'mono_set':
                ex.sets.append({'tag': e.keys['tag'], 'time': st + onset + L,
                                'mono': e.mono[0], 'ev': e.keys,
                                'res': me.resolve(e.keys),
                                'desc': info[e.mono[1]]})
            else:
                ex.notes.append(expect_note(e.keys, st + onset, L, info,
                                            groups, e.kind, e.mono))
        monos = {n['mono'] for n in ex.notes[first:] if n['mono'] is not None}
        for t, m, exact in tl.releases:
            if m in monos:
                ex.releases.append({'mono': m, 'time': st + t + L,
                                    'exact': exact})
    ex.total, ex.total_upper = total
    ex.tl = tls[0][1]
    ex.tls = tls
    return ex


# ------------------------------------------------------------------ comparison

def _pairs(args):
    if len(args) % 2:
        return None
    return list(zip(args[0::2], args[1::2]))


def _name_class(name):
    return name if name in ('freq', 'amp', 'sustain', 'tag', 'gate') else 'other'


def compare(ex, cap, acc, mon, offgrid=False):
    """Returns [(mechanism key suffix, detail dict)] ; counts what was checked
    into acc under monitor prefix `mon`."""
    bad = []
    ttol = (lambda a, b: close(a, b, 1e-9, 2.0 ** -31))
    if cap.decode_error:
        return [('score-not-decodable', {'why': cap.decode_error})]
    if len(cap.raw) != len(cap.lst):
        return [('raw-and-list-differ', {'raw': len(cap.raw),
                                         'list': len(cap.lst)})]
    rows = []
    for (tr, m), (tl_, l) in zip(cap.raw, cap.lst):
        rows.append({'t': tr, 'tl': float(tl_), 'addr': m.addr, 'args': m.args,
                     'largs': l[1:], 'used': False})
    # bookkeeping traffic of the NRT score itself
    for r in rows:
        if r['addr'] == '/g_new' and r['args'] == [1, 0, 0] and r['t'] == 0:
            r['used'] = True
            break
    for r in rows:
        if r['addr'] == '/c_set' and r['args'] == [0, 0]:
            r['used'] = True
            break
    by_tag = {}
    for r in rows:
        if r['addr'] == '/s_new' and len(r['args']) >= 4:
            pr = _pairs(r['args'][4:])
            if pr:
                for (n, v) in pr:
                    if n == 'tag':
                        by_tag.setdefault(v, []).append(r)
    ids = {}
    seen_ids = set()
    # an event object that is played again: when no /s_new carries the tag the
    # event defines now but a second /s_new with a tag of one of its earlier
    # plays exists, the replay sent the controls of an earlier play
    stale = {}
    for n in ex.notes:
        if by_tag.get(n['tag']) or not n.get('prev_tags'):
            continue
        for pt in reversed(n['prev_tags']):
            extra = [r for r in by_tag.get(pt, [])[1:] if not r.get('stale')]
            if extra:
                r = extra[0]
                r['stale'] = r['used'] = True
                stale[n['tag']] = r
                by_tag[pt].remove(r)
                for g in rows:      # its gate-off, if any
                    if g['addr'] == '/n_set' and g['args'][:1] == \
                            [r['args'][1]] and g['args'][1:] == ['gate', 0]:
                        g['used'] = True
                break
    mult = {}
    for n in ex.notes:
        mult[n['tag']] = mult.get(n['tag'], 0) + 1
    for n in ex.notes:
        if n['tag'] in stale:
            r = stale[n['tag']]
            bad.append(('replayed-event-sends-controls-of-earlier-play',
                        {'tag_now': n['tag'], 'op': n.get('op'),
                         'sent': r['args'], 't': r['t']}))
            continue
        cand = by_tag.get(n['tag'], [])
        if n['desc']['controls'] is None:
            # no description, hence no tag control: attributed by the name of
            # the (never described) definition and the time
            r = next((c for c in rows if c['addr'] == '/s_new'
                      and not c['used'] and c['args'][:1] == [n['inst']]
                      and ttol(c['t'], n['time'])), None)
            if r is None:
                bad.append(('missing-s_new/undescribed-instrument',
                            {'tag': n['tag'], 'expected_at': n['time']}))
                continue
            r['used'] = True
        elif mult[n['tag']] > 1:
            # the same event of the same pattern object in several embeddings:
            # equal expectations except for the time, so match by time
            r = next((c for c in cand if not c['used']
                      and ttol(c['t'], n['time'])), None)
            if r is None:
                bad.append((f"missing-s_new/{n['kind']}/repeated-embedding",
                            {'tag': n['tag'], 'expected_at': n['time'],
                             'sent_at': [c['t'] for c in cand]}))
                continue
            r['used'] = True
            acc.count(f'{mon}_repeated_embedding_s_new_checked')
        else:
            if not cand:
                bad.append((f"missing-s_new/{n['kind']}", {'tag': n['tag']}))
                continue
            if len(cand) > 1:
                bad.append((f"duplicate-s_new/{n['kind']}", {'tag': n['tag']}))
            r = cand[0]
            for c in cand:
                c['used'] = True
        if n.get('prev_tags'):
            acc.count(f"{mon}_replay_s_new_checked")
            acc.count(f"{mon}_replay_{n.get('op')}")
        acc.count(f'{mon}_s_new_checked')
        a = r['args']
        if not (ttol(r['t'], n['time']) and ttol(r['tl'], n['time'])):
            bad.append((f"time/s_new/{n['kind']}",
                        {'tag': n['tag'], 'got': [r['t'], r['tl']],
                         'expected': n['time']}))
        if a[0] != n['inst']:
            bad.append(('instrument-name', {'got': a[0], 'expected': n['inst']}))
        nid = a[1]
        if not isinstance(nid, int) or nid in (0, 1) or nid < 0 \
                or nid in seen_ids or nid == ex.group_id:
            bad.append(('node-id-not-fresh', {'id': nid}))
        seen_ids.add(nid)
        ids[nid] = n
        n['id'] = nid
        if a[2] != n['action']:
            bad.append(('add-action', {'got': a[2], 'expected': n['action'],
                                       'key': n['ev'].get('add_action')}))
        if a[3] != n['group']:
            bad.append(('target-group', {'got': a[3], 'expected': n['group']}))
        bad += _compare_controls(n, a[4:], r['largs'][4:], acc, mon, 's_new')
    # gate-off / release / n_set traffic
    monos = {n['mono']: n for n in ex.notes if n['mono'] is not None}
    for n in ex.notes:
        if 'id' not in n:
            continue
        offs = [r for r in rows if r['addr'] == '/n_set' and not r['used']
                and r['args'][:1] == [n['id']]
                and r['args'][1:] == ['gate', 0]]
        if n['kind'] == 'note':
            if n.get('gate_optional') and not offs:
                acc.count(f'{mon}_nodesc_checked')
                continue
            if n['gate_time'] is None:
                if offs:
                    for r in offs:
                        r['used'] = True
                    bad.append(('gate-off-for-gateless-instrument',
                                {'tag': n['tag']}))
                acc.count(f'{mon}_no_gate_checked')
                continue
            acc.count(f'{mon}_gate_off_checked')
            if not offs:
                bad.append(('gate-off-missing', {'tag': n['tag']}))
                continue
            if len(offs) > 1:
                bad.append(('gate-off-duplicated', {'tag': n['tag']}))
            for r in offs:
                r['used'] = True
            r = offs[0]
            tol = (lambda a, b: close(a, b, 1e-9, 2.0 ** -31))
            if not (tol(r['t'], n['gate_time']) and tol(r['tl'], n['gate_time'])):
                bad.append(('time/gate-off',
                            {'tag': n['tag'], 'got': [r['t'], r['tl']],
                             'expected': n['gate_time'],
                             's_new_at': n['time'],
                             'sustain': n['res'].sustain}))
    for s in ex.sets:
        on = monos.get(s['mono'])
        if on is None or 'id' not in on:
            continue
        cand = [r for r in rows if r['addr'] == '/n_set' and not r['used']
                and r['args'][:1] == [on['id']]
                and ('tag', s['tag']) in (_pairs(r['args'][1:]) or [])]
        if not cand:
            bad.append(('missing-n_set/mono', {'tag': s['tag']}))
            continue
        if len(cand) > 1:
            bad.append(('duplicate-n_set/mono', {'tag': s['tag']}))
        for r in cand:
            r['used'] = True
        r = cand[0]
        acc.count(f'{mon}_mono_set_checked')
        if not (ttol(r['t'], s['time']) and ttol(r['tl'], s['time'])):
            bad.append(('time/n_set/mono', {'tag': s['tag'], 'got': r['t'],
                                            'expected': s['time']}))
        bad += _compare_controls(s, r['args'][1:], r['largs'][1:], acc, mon,
                                 'n_set')
    for rel in ex.releases:
        on = monos.get(rel['mono'])
        if on is None or 'id' not in on:
            continue
        if on['desc']['gate']:
            cand = [r for r in rows if r['addr'] == '/n_set' and not r['used']
                    and r['args'] == [on['id'], 'gate', 0]]
        else:
            cand = [r for r in rows if r['addr'] == '/n_free' and not r['used']
                    and r['args'] == [on['id']]]
        acc.count(f'{mon}_mono_release_checked')
        if not cand:
            bad.append(('mono-release-missing', {'tag': on['tag']}))
            continue
        if len(cand) > 1:
            bad.append(('mono-release-duplicated', {'tag': on['tag']}))
        for r in cand:
            r['used'] = True
        r = cand[0]
        if rel['exact']:
            if not ttol(r['t'], rel['time']):
                bad.append(('time/mono-release', {'got': r['t'],
                                                  'expected': rel['time']}))
        elif r['t'] < rel['time'] - 1e-9:
            bad.append(('time/mono-release-early', {'got': r['t'],
                                                    'not_before': rel['time']}))
    for r in rows:
        if not r['used']:
            tags = [v for n_, v in (_pairs(r['args'][4:]) or [])
                    if n_ == 'tag'] if r['addr'] == '/s_new' else []
            if tags and mult.get(tags[0], 0) > 1:
                bad.append(('extra-s_new/repeated-embedding',
                            {'t': r['t'], 'tag': tags[0],
                             'expected_times': [n['time'] for n in ex.notes
                                                if n['tag'] == tags[0]]}))
            elif not tags and r['addr'] == '/n_set' and any(
                    n_ == 'tag' and v in ex.rest_tags
                    for n_, v in (_pairs(r['args'][1:]) or [])):
                # a rest of a mono line set its values
                bad.append(('rest-sent-traffic', {
                    't': r['t'], 'args': r['args'],
                    'tag': dict(_pairs(r['args'][1:]))['tag']}))
            elif tags and tags[0] in ex.rest_tags:
                bad.append(('rest-sent-traffic', {'t': r['t'], 'tag': tags[0],
                                                  'args': r['args']}))
            else:
                bad.append((f"unexpected-traffic{r['addr']}",
                            {'t': r['t'], 'args': r['args']}))
    if ex.total is not None:
        acc.count(f'{mon}_total_duration_checked')
        upper = getattr(ex, 'total_upper', None)
        if upper is not None:
            # stopped players: their pending wake-up may still advance time
            acc.count(f'{mon}_total_duration_bounded')
            if not (ex.total - 1e-9 <= cap.elapsed <= upper + 1e-9):
                bad.append(('total-duration', {'got': cap.elapsed,
                                               'expected': [ex.total, upper]}))
        elif not close(cap.elapsed, ex.total, 1e-9, 1e-9):
            bad.append(('total-duration', {'got': cap.elapsed,
                                           'expected': ex.total}))
    return bad


def mon_name(mon):
    return {'tl': 'timeline'}.get(mon, mon)


def _pitch_class(res, ev):
    """Input classes of the pitch chain that get one key each, whichever
    monitor or look-up meets them."""
    if 'freq' in ev or 'midinote' in ev or 'note' in ev:
        return None
    d = me.num(ev.get('degree', 0)) + me.num(ev.get('mtranspose', 0))
    if d != int(d):
        return 'fractional-degree-accidental'
    if me.num(ev.get('ctranspose', 0)) != 0:
        return 'ctranspose-with-degree-source'
    return None


def pitch_key(prefix, key, res, ev):
    """Mechanism key of a pitch difference.  With an explicit scale object the
    key is the tuning kind only (whatever monitor, source key or look-up met
    it: these are defects of the scale/tuning handling); otherwise monitor,
    looked-up key and source key."""
    cls = _pitch_class(res, ev)
    if cls:
        return f'C14/pitch-differs/{cls}'
    kind = (ev.get('scale') or {}).get('kind')
    if kind is not None and res.pitch_source in ('degree', 'note', 'default'):
        return f'C14/pitch-differs-with-explicit-scale/{kind}'
    return f'C14/{prefix}/{key}/from-{res.pitch_source}'


def _compare_controls(n, args, largs, acc, mon, what):
    bad = []
    pr = _pairs(args)
    lpr = _pairs(largs)
    if pr is None or lpr is None or len(pr) != len(lpr):
        return [(f'{what}-args-not-pairs', {'args': args})]
    names = [p[0] for p in pr]
    ctl = n['desc']['controls']
    required = ctl
    if ctl is None:     # no description: only the documented default parameters
        ctl, required = ['freq', 'amp', 'pan', 'out'], []
    ev, res = n['ev'], n['res']
    for name in names:
        if names.count(name) > 1:
            bad.append((f'control-duplicated/{what}', {'name': name}))
            break
    for (name, v32), (_, v64) in zip(pr, lpr):
        if name not in ctl:
            bad.append((f'not-a-control-of-the-instrument/{what}',
                        {'name': name, 'controls': ctl}))
            continue
        if name == 'gate':
            bad.append((f'gate-sent/{what}', {'value': v32}))
            continue
        mode, exp = me.control_value(ev, res, name)
        if mode is None:
            bad.append((f'control-without-event-value/{what}', {'name': name}))
            continue
        acc.count(f'{mon}_control_values_checked')
        if mode == 'chain':
            acc.count(f'{mon}_control_from_defaults')
        if isinstance(v32, str) or isinstance(v64, str):
            bad.append((f'control-value-type/{what}', {'name': name}))
            continue
        ok64 = close(float(v64), float(exp))
        ok32 = (v32 == exp or _close32(float(v32), float(exp)))
        if not (ok64 and ok32):
            if name == 'freq' and n.get('prev_tags') and not \
                    _pitch_class(res, ev):
                # an object that was played before: pitch not resolved anew
                key = 'C14/play/replayed-event-pitch-not-resolved-anew'
            elif name == 'freq':
                key = pitch_key(f'{mon_name(mon)}/control-value/{what}', 'freq',
                                res, ev)
            else:
                key = (f'C14/{mon_name(mon)}/control-value/{what}/'
                       f'{_name_class(name)}')
            bad.append((key, {'name': name, 'got_list': v64, 'got_raw': v32,
                              'expected': exp, 'event': ev}))
    for name in required:
        if name in ('gate',):
            continue
        mode, exp = me.control_value(ev, res, name)
        if mode == 'explicit' and name not in names:
            bad.append((f'control-missing/{what}/{_name_class(name)}',
                        {'name': name, 'event': ev, 'sent': names}))
    return bad
