"""C18 round 11: what ONE ELEMENT of an incoming packet may do to the others.

Two classes the earlier workloads left out (both need datagrams the library
never produces itself, so its loop-back tests and the history monitor - whose
datagrams carry i f s b T F only and whose bundles are never sent while a
raising responder is live - cannot reach them):

tags    Incoming datagrams built by an INDEPENDENT encoder (this file, from
        the OSC 1.0 type table) with every type tag the receiver documents
        (sc3/base/_osclib.py: OscMessage._parse_datagram / the ARG_TYPE_*
        table of OscMessageBuilder): i f d s b t m r T F N and arrays [ ] -
        each alone, between other arguments, inside arrays and nested arrays,
        mixed, and in every element position of bundles (1-6 elements) and
        nested bundles (depth <= 3).  Judged against the statement: every
        message of the packet invokes the receive functions and the matching
        responders (exact and pattern) exactly once, in packet order, with
        exactly the decoded arguments, its time, sender and port.  Tags the
        library does not document (OSC 1.0 optional h c S I, and tags outside
        OSC 1.0) are sent in the same shapes: nothing may escape, the receiver
        stays alive, a message of the packet that IS delivered is delivered
        unaltered; whether such a message / its siblings are delivered is only
        counted (observed_*).  On a failure the tags of the failing packet are
        re-sent one by one (alone in a message) to name the culprit in the key.

bfault  Bundles of 2-6 messages (flat and nested, mixed addresses, patterns,
        unregistered addresses; controls: plain messages, one-element
        bundles, bundles without a fault) dispatched while some responder
        functions / receive functions registered with main.add_osc_recv_func
        RAISE on some elements.  Every message of a packet is a unit of its
        own: an element nobody raises on invokes every receive function and
        every accepting responder exactly once (same-path responders in
        creation order) whatever happened to the elements before / after it,
        elements are dispatched in packet order, nothing is invoked twice, the
        only exceptions logged are the injected ones, the receiver stays alive.
        For the raising element itself only 'at most once' and 'somebody
        raised' are judged (the library abandons that message's dispatch: which
        of the unordered receive functions ran before the raiser is open).
"""

import struct

from . import osc
from . import c18_gen as gen
from .common import iter_cases, case_rng, h64
from .model_dispatch import osc_match, well_formed

DOCUMENTED = 'ifdsbtmrTFN'          # + '[' ']' (arrays)
UNDOCUMENTED = 'hcSI'               # OSC 1.0 optional, not documented by the library
FOREIGN = 'ZqX'                     # not OSC 1.0 at all: size of the data unknown
SUBJECTS = list(DOCUMENTED) + ['[]'] + ['h', 'c', 'S', 'I', 'Z']
#            12 documented subjects ............. 5 others (rotation by case index)

PATHS = ['/e/a', '/e/b', '/e/ab', '/e/c/d', '/e/x1']
PATTERNS = ['/e/?', '/e/*', '/e/{a,b}', '/e/[a-c]*', '/e/a*', '/*/a', '/e/c/?', '/e/x[0-9]']
NOBODY = ['/e', '/e/zz', '/f/a', '/e/a/b']


# ------------------------------------------------------------ typed arguments
def rand_item(rng, t):
    """One typed argument: (tag, value...) with a value the type holds exactly."""
    if t == 'i':
        return ('i', rng.choice([0, 1, -1, 7, 2 ** 31 - 1, -2 ** 31, rng.randint(-9999, 9999)]))
    if t == 'f':
        return ('f', rng.choice([0.0, 0.5, -4.25, 1.5, 1024.0, -3.0, 2.0 ** -20]))
    if t == 'd':
        return ('d', rng.choice([0.1, -2.5, 1e300, 0.0, 1 / 3, rng.random()]))
    if t == 's':
        return ('s', rng.choice(['', 'a', 'abc', 'abcd', 'hello world', 'x/y', 'ñ', ',N']))
    if t == 'b':
        return ('b', rng.choice([b'', b'\0', b'abc', b'abcd', b',N\0\0',
                                 bytes(rng.randrange(256) for _ in range(rng.randint(1, 9)))]))
    if t == 't':
        return ('t', rng.choice([1, 0, 2 ** 63, 2 ** 64 - 1, rng.getrandbits(64)]))
    if t == 'm':
        return ('m', tuple(rng.randrange(256) for _ in range(4)))
    if t == 'r':
        return ('r', rng.choice([0, 0xff0000ff, 2 ** 32 - 1, rng.getrandbits(32)]))
    if t == 'h':
        return ('h', rng.choice([0, -2, 2 ** 40, -2 ** 63, 2 ** 63 - 1]))
    if t == 'c':
        return ('c', rng.choice([65, 97, 0, 0x7e]))
    if t == 'S':
        return ('S', rng.choice(['sym', 'a', 'abcd']))
    if t in 'TFNI' or t in FOREIGN:
        return (t,)
    raise AssertionError(t)


def rand_array(rng, depth=0, must=None):
    n = rng.choice([0, 1, 1, 2, 3]) if must is None else rng.choice([0, 0, 1, 2])
    items = [rand_doc_item(rng, depth + 1) for _ in range(n)]
    if must is not None:
        items.insert(rng.randint(0, len(items)), must)
    return ('[', items)


def rand_doc_item(rng, depth=0):
    if depth < 3 and rng.random() < 0.15:
        return rand_array(rng, depth)
    return rand_item(rng, rng.choice(DOCUMENTED))


def enc_items(items):
    """-> (type tags, argument bytes, the values a receiver hands over:
    i h r c -> int, f d -> float, s S -> str, b -> bytes, t -> int (64 bit
    time tag), m -> (port id, status, data1, data2), T F N -> True False None,
    I -> float('inf'), array -> list; foreign tags carry no value)."""
    tags, body, vals = [], [], []
    for it in items:
        t = it[0]
        if t == '[':
            st, sb, sv = enc_items(it[1])
            tags.append('[' + st + ']'); body.append(sb); vals.append(sv)
            continue
        tags.append(t)
        if t in 'ic':
            body.append(struct.pack('>i', it[1])); vals.append(it[1])
        elif t == 'f':
            b = struct.pack('>f', it[1])
            assert struct.unpack('>f', b)[0] == it[1]
            body.append(b); vals.append(float(it[1]))
        elif t == 'd':
            body.append(struct.pack('>d', it[1])); vals.append(float(it[1]))
        elif t in 'sS':
            raw = it[1].encode('utf-8')
            body.append(raw + b'\0' * (4 - len(raw) % 4)); vals.append(it[1])
        elif t == 'b':
            body.append(struct.pack('>i', len(it[1])) + it[1] + b'\0' * (-len(it[1]) % 4))
            vals.append(it[1])
        elif t == 't':
            body.append(struct.pack('>Q', it[1])); vals.append(it[1])
        elif t == 'h':
            body.append(struct.pack('>q', it[1])); vals.append(it[1])
        elif t == 'm':
            body.append(bytes(it[1])); vals.append(tuple(it[1]))
        elif t == 'r':
            body.append(struct.pack('>I', it[1])); vals.append(it[1])
        elif t == 'T':
            vals.append(True)
        elif t == 'F':
            vals.append(False)
        elif t == 'N':
            vals.append(None)
        elif t == 'I':
            vals.append(float('inf'))
        else:
            vals.append(('?', t))
    return ''.join(tags), b''.join(body), vals


def all_tags(items):
    out = set()
    for it in items:
        if it[0] == '[':
            out.add('[]')
            out |= all_tags(it[1])
        else:
            out.add(it[0])
    return out


# packet AST: ('msg', addr, items) | ('bundle', timetag, [elements])
def encode(el):
    if el[0] == 'msg':
        tags, body, _ = enc_items(el[2])
        a = el[1].encode('utf-8')
        tt = (',' + tags).encode('ascii')
        return a + b'\0' * (4 - len(a) % 4) + tt + b'\0' * (4 - len(tt) % 4) + body
    out = b'#bundle\0' + struct.pack('>Q', el[1])
    for e in el[2]:
        d = encode(e)
        out += struct.pack('>i', len(d)) + d
    return out


def flat(el, tt=None, depth=0):
    """[(timetag|None, addr, values, tag set, depth, items)] in packet order."""
    if el[0] == 'msg':
        return [(tt, el[1], enc_items(el[2])[2], all_tags(el[2]), depth, el[2])]
    out = []
    for e in el[2]:
        out.extend(flat(e, el[1], depth + 1))
    return out


def n_bundles(el):
    return 0 if el[0] == 'msg' else 1 + sum(n_bundles(e) for e in el[2])


def selftest():
    import random
    rng = random.Random(11)
    for _ in range(300):
        items = [rand_doc_item(rng) for _ in range(rng.randint(0, 5))]
        if rng.random() < 0.3:
            items.append(rand_item(rng, rng.choice(UNDOCUMENTED)))
        el = ('bundle', 1, [('msg', '/e/a', items), ('bundle', 1, [('msg', '/e/b', items)])])
        d = encode(el)
        reason, tree = gen.diagnose(d)          # vf/osc.py: a second, separate reading
        assert reason == 'valid', (reason, d)
        fl = gen.flatten(tree)
        assert [f[1] for f in fl] == ['/e/a', '/e/b']
        tags = enc_items(items)[0]
        assert fl[0][3] == tags, (fl[0][3], tags)
    assert encode(('msg', '/v', [('i', 2), ('N',), ('s', 'abc')])) == \
        b'/v\0\0,iNs\0\0\0\0\0\0\0\x02abc\0'
    return True


# ------------------------------------------------------------------- harness
class Bench:
    """Responders and receive functions of the harness that log every
    invocation into rig.inv and raise where the fault plan says so."""

    def __init__(self, rig):
        from sc3.base.responders import OscFunc
        from .c18_hist import FAULTS
        self.rig = rig
        self.OscFunc = OscFunc
        self.FAULTS = FAULTS
        self.plan = {}            # serial -> {who: exception name}
        self.resps = {}           # who -> (kind, path, object, creation index)
        self.funcs = {}           # who -> function
        self.n = 0

    def _cb(self, who, serial_of):
        rig, bench = self.rig, self

        def cb(msg, time, addr, port):
            rig.inv.append(('inv', who, 0, list(msg), time,
                            (addr.hostname, addr.port), port))
            s = serial_of(msg)
            exc = bench.plan.get(s, {}).get(who)
            if exc is not None:
                rig.inv.append(('raised', who, s))
                raise bench.FAULTS[exc](f'injected fault in {who} for element {s}')
        return cb

    def responder(self, kind, path, serial_of=lambda msg: None):
        who = f'{kind[0]}{self.n}:{path}'
        self.n += 1
        cb = self._cb(who, serial_of)
        obj = self.OscFunc(cb, path) if kind == 'exact' else self.OscFunc.matching(cb, path)
        self.resps[who] = (kind, path, obj, self.n)
        return who

    def recv_func(self, serial_of=lambda msg: None):
        who = f'f{self.n}'
        self.n += 1
        inner = self._cb(who, serial_of)

        def f(msg, time, addr, port):
            if msg and msg[0] == '/__vf/canary':
                return
            inner(msg, time, addr, port)
        self.funcs[who] = f
        self.rig.main.add_osc_recv_func(f)
        return who

    def accepts(self, who, addr):
        kind, path, _, _ = self.resps[who]
        if kind == 'exact':
            return path == addr
        return well_formed(addr) and osc_match(addr, path)

    def expected(self, addr):
        return set(self.funcs) | {w for w in self.resps if self.accepts(w, addr)}

    def close(self):
        for who, (_, _, obj, _) in self.resps.items():
            try:
                obj.free()
            except Exception:
                pass
        for f in self.funcs.values():
            self.rig.main.remove_osc_recv_func(f)
        self.resps.clear(); self.funcs.clear(); self.plan.clear()


def _j(x):
    from .c18_hist import _j as j
    return j(x)


def common_health(acc, res, w, cls):
    """Escapes / hangs / dead receiver / foreign exceptions in the dispatch.
    -> True when the delivery can be judged further."""
    from .c18_hist import INJECTED_PREFIX
    ok = True
    if res.hangs:
        acc.violation(f'C18/hang/valid/{res.hangs[0][0]}', w); ok = False
    if res.escaped:
        acc.violation(f"C18/handle-request-raises/{res.escaped['exc']}", w); ok = False
    if not res.canary_ok:
        acc.violation(f'C18/receiver-dead/{cls}', w); ok = False
    foreign = [e for e in res.errs if e['exc'] and not e['exc'].startswith(INJECTED_PREFIX)
               and e['logger'].endswith('clock')]
    if foreign:
        e = foreign[0]
        site = e['sites'][-1][1] if e['sites'] else e['logger']
        acc.violation(f"C18/dispatch-raises/{e['exc']}/{site}", dict(w, err=e)); ok = False
    return ok


def future_tt(rig, rng):
    t = rig.init_time + rig.main.elapsed_time() + rng.choice([-2.0, 0.0, 0.25, 3.5, 100.0])
    return int((t + 2208988800.0) * 4294967296.0)


# ===================================================================== tags
def other_msg(rng, documented=True):
    addr = rng.choice(PATHS)
    if documented and rng.random() < 0.5:
        items = [rand_doc_item(rng) for _ in range(rng.choice([0, 1, 2, 3]))]
    else:
        items = [rand_item(rng, rng.choice('ifsb')) for _ in range(rng.choice([0, 1, 2]))]
    return ('msg', addr, items)


def subject_items(rng, subj):
    """-> (items, shape)"""
    if subj == '[]':
        shape = rng.choice(['alone', 'between', 'nested-array', 'mixed'])
        arr = rand_array(rng, 0)
        if shape == 'alone':
            return [arr if rng.random() < 0.7 else ('[', [])], shape
        if shape == 'nested-array':
            return [('[', [rand_doc_item(rng, 2), ('[', [arr]), ('[', [])])], shape
        it = arr
    else:
        shape = rng.choice(['alone', 'alone', 'between', 'in-array', 'nested-array', 'mixed',
                            'first', 'last', 'twice'])
        it = rand_item(rng, subj)
        if shape == 'alone':
            return [it], shape
        if shape == 'twice':
            return [it, rand_item(rng, subj)], shape
        if shape == 'in-array':
            return [rand_array(rng, 0, must=it)] if rng.random() < 0.5 else \
                [rand_item(rng, 'i'), rand_array(rng, 0, must=it), rand_item(rng, 's')], shape
        if shape == 'nested-array':
            return [('[', [rand_item(rng, 'i'), rand_array(rng, 1, must=it)])], shape
    pre = [rand_doc_item(rng) for _ in range(rng.randint(1, 3))]
    post = [rand_doc_item(rng) for _ in range(rng.randint(1, 3))]
    if shape == 'first':
        return [it] + post, shape
    if shape == 'last':
        return pre + [it], shape
    if shape == 'between':
        return [rand_item(rng, rng.choice('ifs')), it, rand_item(rng, rng.choice('ifs'))], shape
    return pre + [it] + post, 'mixed'


def tag_packet(rng, rig, subj):
    """-> (AST, labels)"""
    items, shape = subject_items(rng, subj)
    r = rng.random()
    addr = rng.choice(PATHS) if r < 0.8 else rng.choice(PATTERNS) if r < 0.95 \
        else rng.choice(NOBODY)
    m = ('msg', addr, items)
    labels = {'shape': shape}
    documented = subj in DOCUMENTED or subj == '[]'
    if rng.random() < 0.3:
        labels['container'] = 'message'
        return m, labels

    def bundle(depth, subject):
        n = rng.randint(1, 6)
        pos = rng.randrange(n)
        tt = rng.choice([1, 1, future_tt(rig, rng)])
        els = []
        for k in range(n):
            if k == pos and subject is not None:
                if depth < 3 and rng.random() < 0.35:
                    labels['nested'] = max(labels.get('nested', 0), depth + 1)
                    els.append(bundle(depth + 1, subject))
                else:
                    els.append(subject)
                    labels['position'] = ('only' if n == 1 else 'first' if k == 0
                                          else 'last' if k == n - 1 else 'middle')
                    labels['size'] = n
            elif depth < 3 and rng.random() < 0.15:
                els.append(bundle(depth + 1, None))
            else:
                els.append(other_msg(rng, documented=True))
        return ('bundle', tt, els)
    labels['container'] = 'bundle'
    return bundle(0, m), labels


def judge_documented(bench, rig, acc, res, msgs, w):
    """Every message once, in order, exactly; -> None or (kind, detail).
    Order: packet order, or - nested bundles with different time tags - the
    order of the time tags, packet order among equal ones (the library performs
    the messages of a packet sorted by time tag; OSC 1.0 gives the later time
    tag the later effect).  Either reading is accepted, no other."""
    first = _judge_documented(bench, rig, acc, res, msgs, False)
    if first is None:
        _judge_documented(bench, rig, acc, res, msgs, True)
        return None
    by_time = sorted(msgs, key=lambda m: m[0] or 0)        # stable
    if by_time != msgs and _judge_documented(bench, rig, acc, res, by_time, False) is None:
        acc.count('tags_packets_dispatched_in_time_tag_order')
        _judge_documented(bench, rig, acc, res, by_time, True)
        return None
    return first


def _judge_documented(bench, rig, acc, res, msgs, count):
    from .c18_rig import same_value
    raw = res.raw
    # -- receive functions (the rig's plain hook) -------------------------
    k = 0
    for rmsg, rtime, raddr, rport in raw:
        while k < len(msgs) and not (rmsg[0] == msgs[k][1] and same_value(rmsg[1:], msgs[k][2])):
            # is it a later message (this one was dropped) or nobody's?
            if any(rmsg[0] == m[1] and same_value(rmsg[1:], m[2]) for m in msgs[k + 1:]):
                return 'message-dropped', {'missing': _j([msgs[k][1]] + msgs[k][2])}
            if any(rmsg[0] == m[1] and same_value(rmsg[1:], m[2]) for m in msgs[:k]):
                return 'delivered-twice-or-out-of-order', {'got': _j(rmsg)}
            return 'arguments-altered', {'got': _j(rmsg),
                                         'expected': _j([msgs[k][1]] + msgs[k][2])}
        if k >= len(msgs):
            return 'delivered-twice-or-out-of-order', {'got': _j(rmsg)}
        tt = msgs[k][0]
        if not rig.time_ok(rtime, tt, res.t0, res.t1):
            return 'wrong-time', {'got': rtime, 'timetag': tt}
        if rport != res.recv_port or raddr != tuple(res.sender):
            return 'wrong-sender-or-port', {'got': [raddr, rport]}
        k += 1
    if k < len(msgs):
        return 'message-dropped', {'missing': _j([msgs[k][1]] + msgs[k][2]),
                                   'delivered': len(raw), 'of': len(msgs)}
    # -- responders ---------------------------------------------------------
    remaining = [sorted(w_ for w_ in bench.expected(m[1])) for m in msgs]
    k = 0
    for e in res.inv:
        if e[0] != 'inv':
            continue
        _, who, _, msg, time_, a, p = e
        j = k
        while j < len(msgs) and not (who in remaining[j] and msg[0] == msgs[j][1]
                                     and same_value(msg[1:], msgs[j][2])):
            j += 1
        if j >= len(msgs):
            return 'responder-invoked-twice-or-out-of-order-or-altered', \
                {'who': who, 'msg': _j(msg)}
        if any(remaining[x] for x in range(k, j)):
            x = next(x for x in range(k, j) if remaining[x])
            return 'responder-not-invoked', {'who': remaining[x], 'msg': _j(msgs[x][1:3])}
        k = j
        remaining[j].remove(who)
        if not rig.time_ok(time_, msgs[j][0], res.t0, res.t1):
            return 'wrong-time', {'got': time_, 'timetag': msgs[j][0], 'who': who}
        if p != res.recv_port or a != tuple(res.sender):
            return 'wrong-sender-or-port', {'got': [a, p], 'who': who}
        if count:
            acc.count('tags_responder_invocations_checked')
    for x, rem in enumerate(remaining):
        if rem:
            return 'responder-not-invoked', {'who': rem, 'msg': _j(msgs[x][1:3])}
    return None


def culprits(bench, rig, acc, tags, udp_sender):
    """Which of the tags fail when sent ALONE in one message to /e/a?"""
    from .c18_rig import same_value
    import random
    rng = random.Random(0)
    bad = []
    for t in sorted(tags):
        items = [('[', [])] if t == '[]' else [rand_item(rng, t)]
        vals = enc_items(items)[2]
        res = rig.deliver(encode(('msg', '/e/a', items)), ('127.0.0.1', 4001), None)
        ok = len(res.raw) == 1 and res.raw[0][0][0] == '/e/a' \
            and same_value(res.raw[0][0][1:], vals) and not res.escaped and res.canary_ok
        if not ok:
            bad.append((t, 'message-dropped' if not res.raw else 'arguments-altered'))
    return bad


def run_tags(spec, acc):
    from .c18_rig import Rig, same_value
    selftest(); osc.selftest()
    rig = Rig()
    udp_sender = rig.udp_client()
    bench = Bench(rig)
    for p in PATHS:
        bench.responder('exact', p)
        bench.responder('match', p)
    try:
        for i in iter_cases(spec):
            rng = case_rng(spec['seed'], 'C18', 'tags', i)
            subj = SUBJECTS[i % len(SUBJECTS)]
            if subj == 'Z':
                subj = rng.choice(FOREIGN)
            el, lab = tag_packet(rng, rig, subj)
            d = encode(el)
            msgs = flat(el)
            udp = rng.random() < 0.15
            sender = udp_sender if udp else rng.choice(gen.SENDERS)
            if subj not in FOREIGN:
                assert gen.diagnose(d)[0] == 'valid', d       # second reading (vf/osc.py)
            res = rig.deliver(d, sender, None, udp=udp)
            if res.send_error or res.clock_step:
                acc.count('deliveries_dropped_host_clock_step')
                continue
            documented = all(m[3] <= set(DOCUMENTED) | {'[]'} for m in msgs)
            cls = 'documented' if documented else 'foreign' if subj in FOREIGN else 'undocumented'
            acc.count('tags_datagrams')
            acc.count('tags_datagrams/' + cls)
            acc.count(f'tags_subject/{subj}/{lab["shape"]}')
            acc.count(f'tags_subject/{subj}')
            acc.count('tags_shape/' + lab['shape'])
            acc.count('tags_container/' + lab['container'])
            if 'position' in lab:
                acc.count('tags_bundle_position/' + lab['position'])
                acc.count(f'tags_bundle_size/{lab["size"]}')
            if 'nested' in lab:
                acc.count('tags_subject_in_nested_bundle')
                acc.count(f'tags_subject_in_nested_bundle/depth-{lab["nested"]}')
            if udp:
                acc.count('tags_udp_datagrams')
            acc.case(h64(d), nontrivial=len(msgs[0][5]) > 0 if len(msgs) == 1 else True)
            w = {'case': i, 'subject': subj, 'labels': lab, 'hex': d.hex()[:600],
                 'messages': _j([[m[1]] + m[2] for m in msgs][:8]), 'res': res.witness()}
            if not common_health(acc, res, w, 'type-tag-' + cls):
                continue
            if documented:
                bad = judge_documented(bench, rig, acc, res, msgs, w)
                acc.count('tags_messages_checked', len(msgs))
                if bad is None:
                    acc.count(f'tags_delivered_exactly/{subj}')
                    if lab['container'] == 'bundle':
                        acc.count(f'tags_delivered_exactly_in_bundle/{subj}')
                    if lab['shape'] in ('in-array', 'nested-array'):
                        acc.count(f'tags_delivered_exactly_in_array/{subj}')
                    if acc.want_sample() and len(d) < 120 and subj in 'NmrtI':
                        acc.sample({'case': i, 'kind': 'tags', 'hex': d.hex(), 'labels': lab,
                                    'delivered': _j([m for m, *_ in res.raw])})
                    continue
                kind, detail = bad
                tags = set().union(*[m[3] for m in msgs])
                cul = culprits(bench, rig, acc, tags, udp_sender)
                # one defect, one key: named after what the culprit tag does when it
                # is sent alone (the walk over a multi-message packet may call an
                # altered message 'dropped' when an equal sibling follows)
                name = '+'.join(t for t, _ in cul) if cul else 'combination'
                if cul:
                    kind = '+'.join(sorted({k_ for _, k_ in cul}))
                acc.violation(f'C18/documented-type-tag/{name}/{kind}',
                              dict(w, detail=detail, tags_failing_alone=cul))
                continue
            # ---- a tag the library does not document -------------------------
            und = [m for m in msgs if not m[3] <= set(DOCUMENTED) | {'[]'}]
            doc = [m for m in msgs if m[3] <= set(DOCUMENTED) | {'[]'}]
            pend = list(doc)
            altered = None
            for rmsg, rtime, raddr, rport in res.raw:
                hit = next((k for k, m in enumerate(pend) if rmsg[0] == m[1]
                            and same_value(rmsg[1:], m[2])), None)
                if hit is not None:
                    pend.pop(hit)
                    continue
                if any(rmsg[0] == m[1] for m in und):
                    acc.count(f'observed_message_with_undocumented_tag_delivered/{cls}')
                    continue
                altered = rmsg
            if altered is not None:
                acc.violation(f'C18/garbled-message/beside-{cls}-type-tag',
                              dict(w, delivered=_j(altered)))
                continue
            acc.count('tags_undocumented_checked')
            if doc and not pend:
                acc.count('observed_siblings_of_undocumented_tag_delivered')
            elif doc and len(pend) == len(doc):
                acc.count('observed_siblings_of_undocumented_tag_dropped')
            elif doc:
                acc.count('observed_siblings_of_undocumented_tag_partly_delivered')
            if not res.raw:
                acc.count('tags_undocumented_invoked_nothing')
    finally:
        bench.close()


# =================================================================== bfault
def serial_of(msg):
    return msg[1] if len(msg) > 1 and isinstance(msg[1], int) \
        and not isinstance(msg[1], bool) else None


def fault_packet(rng, rig, paths, shape):
    """-> AST whose messages carry their serial (packet order) as first argument."""
    counter = [0]

    def msg():
        r = rng.random()
        if r < 0.75:
            addr = rng.choice(paths)
        elif r < 0.9:
            addr = rng.choice(PATTERNS)
        else:
            addr = rng.choice(NOBODY)
        s = counter[0]
        counter[0] += 1
        items = [('i', s)] + [rand_item(rng, rng.choice('ifsbTFd'))
                              for _ in range(rng.choice([0, 0, 1, 2]))]
        return ('msg', addr, items)
    if shape == 'message':
        return msg()
    if shape == 'one-element':
        return ('bundle', rng.choice([1, future_tt(rig, rng)]), [msg()])
    total = rng.randint(2, 6)

    def bundle(depth, n):
        tt = rng.choice([1, 1, future_tt(rig, rng)])
        els = []
        left = n
        while left > 0:
            if depth < 3 and left >= 1 and rng.random() < (0.3 if shape == 'nested' else 0.0):
                k = rng.randint(1, left)
                els.append(bundle(depth + 1, k))
                left -= k
            else:
                els.append(msg())
                left -= 1
        return ('bundle', tt, els)
    el = bundle(0, total)
    if shape == 'nested' and n_bundles(el) == 1:
        # make sure there is a nested bundle
        k = rng.randrange(len(el[2]))
        el[2][k] = ('bundle', el[1], [el[2][k]])
    return el


def run_bfault(spec, acc):
    from .c18_rig import Rig, same_value
    from .c18_hist import INJECTED_PREFIX
    selftest(); osc.selftest()
    rig = Rig()
    udp_sender = rig.udp_client()
    for i in iter_cases(spec):
        rng = case_rng(spec['seed'], 'C18', 'bfault', i)
        bench = Bench(rig)
        log = []
        try:
            paths = rng.sample(PATHS, rng.randint(2, 4))
            for _ in range(rng.randint(3, 8)):
                bench.responder(rng.choice(['exact', 'exact', 'match']), rng.choice(paths),
                                serial_of)
            for _ in range(rng.randint(1, 3)):
                bench.recv_func(serial_of)
            clean = True
            nontrivial = False
            for dn in range(rng.randint(1, 3)):
                shape = rng.choice(['flat', 'flat', 'flat', 'nested', 'nested',
                                    'message', 'one-element'])
                el = fault_packet(rng, rig, paths, shape)
                msgs = flat(el)
                n = len(msgs)
                # ---- fault plan ---------------------------------------------
                bench.plan = {}
                r = rng.random()
                if r < 0.12:
                    faulty = []
                elif n == 1:
                    faulty = [0] if r < 0.6 else []
                elif r < 0.3:
                    faulty = [0]
                elif r < 0.4:
                    faulty = [n - 1]
                elif r < 0.5:
                    faulty = list(range(n - 1))          # all but the last
                elif r < 0.55:
                    faulty = list(range(n))
                else:
                    faulty = sorted(rng.sample(range(n), rng.randint(1, n - 1)))
                raiser_kinds = {}
                for s in faulty:
                    cands = sorted(bench.expected(msgs[s][1]))
                    rs = [w_ for w_ in cands if w_ in bench.resps]
                    if rs and rng.random() < 0.6:
                        who = rng.sample(rs, min(len(rs), rng.choice([1, 1, 2])))
                    else:
                        who = [rng.choice(sorted(bench.funcs))]
                    bench.plan[s] = {w_: rng.choice(['Exception', 'ValueError', 'KeyError'])
                                     for w_ in who}
                    raiser_kinds[s] = 'responder' if who[0] in bench.resps else 'recv-func'
                d = encode(el)
                assert gen.diagnose(d)[0] == 'valid', d
                udp = rng.random() < 0.2
                sender = udp_sender if udp else rng.choice(gen.SENDERS)
                log.append([d.hex(), sorted(bench.plan), udp])
                res = rig.deliver(d, sender, None, udp=udp)
                if res.send_error or res.clock_step:
                    acc.count('deliveries_dropped_host_clock_step')
                    continue
                acc.count('bfault_datagrams')
                acc.count('bfault_shape/' + shape)
                acc.count(f'bfault_messages_in_packet/{n}')
                if udp:
                    acc.count('bfault_udp_datagrams')
                if n_bundles(el) > 1:
                    acc.count('bfault_nested_bundles')
                if faulty:
                    acc.count('bfault_datagrams_with_raising_element')
                    if n > 1:
                        acc.count('bfault_bundles_with_raising_element')
                for s in faulty:
                    acc.count('bfault_raiser/' + raiser_kinds[s])
                w = {'case': i, 'datagram_no': dn, 'hex': d.hex()[:600], 'shape': shape,
                     'messages': _j([[m[1]] + m[2] for m in msgs]),
                     'raising_elements': {str(s): bench.plan[s] for s in faulty},
                     'responders': sorted(bench.resps), 'recv_funcs': sorted(bench.funcs),
                     'res': res.witness(), 'inv': _j([e[:4] for e in res.inv][:40])}
                if not common_health(acc, res, w, 'bundle-with-raising-callback'):
                    clean = False
                    break
                # injected faults must surface in the clock's log, nowhere else
                n_raised = sum(1 for e in res.inv if e[0] == 'raised')
                acc.count('bfault_injected_faults', n_raised)
                # ---- per element ---------------------------------------------
                by_serial = {s: [] for s in range(n)}
                stray = []
                seq = []
                for e in res.inv:
                    if e[0] != 'inv':
                        continue
                    s = serial_of(e[3])
                    if s in by_serial:
                        by_serial[s].append(e)
                        seq.append(s)
                    else:
                        stray.append(e)
                raw_by = {s: [] for s in range(n)}
                for rmsg, rtime, raddr, rport in res.raw:
                    s = serial_of(rmsg)
                    if s in raw_by:
                        raw_by[s].append((rmsg, rtime, raddr, rport))
                        seq.append(s)
                    else:
                        stray.append(rmsg)
                # dispatch rank of the elements: packet order, time tags first
                # (see judge_documented); equal for flat bundles
                ranked = sorted(range(n), key=lambda s_: msgs[s_][0] or 0)
                rank = {s_: k for k, s_ in enumerate(ranked)}
                bad = None
                if stray:
                    bad = ('C18/bundle-fault/invocation-for-unknown-message',
                           {'stray': _j(stray[:4])})
                for s in range(n):
                    if bad:
                        break
                    tt, addr, vals = msgs[s][0], msgs[s][1], msgs[s][2]
                    exp = bench.expected(addr)
                    counts = {}
                    for e in by_serial[s]:
                        counts[e[1]] = counts.get(e[1], 0) + 1
                    before = sorted((f for f in faulty if rank[f] < rank[s]), key=rank.get)
                    after = sorted((f for f in faulty if rank[f] > rank[s]), key=rank.get)
                    rel = ('after-raising-element/' + raiser_kinds[before[-1]] if before else
                           'before-raising-element/' + raiser_kinds[after[0]] if after else
                           'no-raising-element')
                    twice = [w_ for w_, c in counts.items() if c > 1]
                    if twice or len(raw_by[s]) > 1:
                        bad = ('C18/bundle-fault/invoked-twice/' + rel,
                               {'element': s, 'who': twice})
                        break
                    unexp = [w_ for w_ in counts if w_ not in exp]
                    if unexp:
                        bad = ('C18/bundle-fault/unexpected-invocation', {'element': s,
                                                                        'who': unexp})
                        break
                    for e in by_serial[s]:
                        _, who, _, msg, time_, a, p = e
                        if not (msg[0] == addr and same_value(msg[1:], vals)):
                            bad = ('C18/bundle-fault/wrong-args/msg', {'got': _j(msg)})
                        elif not rig.time_ok(time_, tt, res.t0, res.t1):
                            bad = ('C18/bundle-fault/wrong-args/time',
                                   {'got': time_, 'timetag': tt})
                        elif p != res.recv_port or a != tuple(res.sender):
                            bad = ('C18/bundle-fault/wrong-args/sender-or-port', {'got': [a, p]})
                    if bad:
                        break
                    if s in bench.plan:
                        # the raising element: at most once (above), somebody raised
                        acc.count('bfault_raising_elements_checked')
                        if not any(e[0] == 'raised' and e[2] == s for e in res.inv):
                            if not by_serial[s] and not raw_by[s]:
                                bad = ('C18/bundle-fault/element-not-dispatched/' + rel,
                                       {'element': s, 'raising_element_itself': True})
                            else:
                                bad = ('C18/bundle-fault/raiser-not-invoked',
                                       {'element': s, 'invoked': sorted(counts)})
                        else:
                            acc.count('verdict_open/rest-of-the-raising-message')
                        continue
                    missing = sorted(w_ for w_ in exp if counts.get(w_, 0) == 0)
                    if not raw_by[s]:
                        missing.append('plain-receive-hook')
                    if missing:
                        allgone = not by_serial[s] and not raw_by[s]
                        bad = (('C18/bundle-fault/element-not-dispatched/' if allgone else
                                'C18/bundle-fault/element-partly-dispatched/') + rel,
                               {'element': s, 'msg': _j([addr] + vals), 'missing': missing})
                        break
                    acc.count('bfault_clean_elements_checked')
                    acc.count('bfault_invocations_checked', len(by_serial[s]) + 1)
                    if before:
                        acc.count('bfault_elements_after_a_raising_element')
                        acc.count('bfault_elements_after_a_raising_element/'
                                  + raiser_kinds[before[-1]])
                        nontrivial = True
                    if after:
                        acc.count('bfault_elements_before_a_raising_element')
                    if before and after:
                        acc.count('bfault_elements_between_raising_elements')
                    if msgs[s][4] > 1 and before:
                        acc.count('bfault_nested_elements_after_a_raising_element')
                    # same-path responders in creation order
                    order = [e[1] for e in by_serial[s] if e[1] in bench.resps]
                    for x in range(len(order)):
                        for y in range(x + 1, len(order)):
                            kx, px, _, cx = bench.resps[order[x]]
                            ky, py, _, cy = bench.resps[order[y]]
                            if kx == ky and px == py:
                                if cx > cy:
                                    bad = (f'C18/bundle-fault/order/{kx}/' + rel,
                                           {'element': s, 'got': order})
                                else:
                                    acc.count('bfault_order_pairs_checked')
                # ---- elements in packet order --------------------------------
                if not bad:
                    inv_seq = [serial_of(e[3]) for e in res.inv if e[0] == 'inv']
                    in_packet_order = all(inv_seq[k] <= inv_seq[k + 1]
                                          for k in range(len(inv_seq) - 1))
                    in_time_order = all(rank[inv_seq[k]] <= rank[inv_seq[k + 1]]
                                        for k in range(len(inv_seq) - 1))
                    if not in_packet_order and not in_time_order:
                        bad = ('C18/bundle-fault/elements-out-of-packet-order',
                               {'got': inv_seq, 'time_tag_order': ranked})
                    elif n > 1:
                        acc.count('bfault_packet_order_checked')
                        if not in_packet_order:
                            acc.count('bfault_packets_dispatched_in_time_tag_order')
                if bad:
                    acc.violation(bad[0], dict(w, **bad[1]))
                    clean = False
                    break
            acc.case(h64(repr(log)), nontrivial=nontrivial)
            acc.count('bfault_cases')
            if clean and nontrivial and acc.want_sample() and len(log) == 1:
                acc.sample({'case': i, 'kind': 'bfault', 'datagram': log[0][0][:300],
                            'raising_elements': log[0][1]})
        finally:
            bench.close()


def run(spec, acc):
    if spec['shard']['kind'] == 'tags':
        run_tags(spec, acc)
    else:
        run_bfault(spec, acc)
