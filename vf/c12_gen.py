"""Seeded generators for C12 (clock set-ups, histories of tempo / etempo /
beats / beats_per_bar changes, grid queries).  No sc3 import.

Domain (the property's quantifier): tempos > 0 (1e-3 .. 1e3), reference beats
within +-1e6, quant >= 0, phase strictly inside (-quant, quant) (0 when quant
is 0), beats_per_bar > 0.

A program is JSON-able:
  {'clock': {'tempo':, 'beats':, 'seconds':}, 'root_quant': spec | None,
   'create_at': second (nrt),
   'steps': [ {'ops': [op, ...], 'delta': beats | None}, ... ]}
  op = ['tempo', v] | ['etempo', v] | ['beats', v | {'rel': x}] | ['bpb', v]
     | ['play', quant_spec, how, end] | ['grid', q, p, refspec] | ['ttnb', q]
     | ['conv', beat, sec] | ['bars', beat, bar] | ['nextbar', beat|None]
     | ['barnow']
     | ['mplay', tid, 'routine' | 'function', sched, deltas, selfmoves]
     | ['mpause', tid] | ['mmove', tid, sched]        (vf/c12_moved.py)
     | ['mreset', tid] | ['mstop', tid]   (Routine.reset() / stop())
  sched = ['play', quant_spec] (Routine.play(clock, quant))
        | ['clock.play', quant_spec] | ['next_bar'] (clock.play_next_bar)
        | ['sched_abs', {'rel': x}] (current beat + x) | ['sched', delta]
        | ['resume', quant_spec, pass_clock]  (Routine.resume(clock | None, quant))
  A task of 'mplay' wakes len(deltas) + 1 times, handing back the deltas;
  selfmoves[k] (or None): in wake-up k it first schedules itself at beat + that
  with sched_abs.  'mmove' puts it on the clock again - while it is pending or
  later.
  quant_spec = None | number | [q, p] | {'q':, 'p':}  (Quant object)
  how = 'routine.play' | 'clock.play' | 'clock.play-function' (a plain function
        handed to clock.play) | 'clock.play_next_bar' | 'clock.play_next_bar-
        function' (TempoClock.play_next_bar; the quant_spec is not used)
  end = how the played task ends its (only) wake-up after it has recorded the
        beat it woke on: 'return' | 'gen-end' (generator routine running off its
        end) | 'raise:<ExceptionName>' (user code failing: the clock logs the
        error and goes on) | 'stopstream' | 'value:<what>' (hands the clock
        something that is not a delta).  The events that FOLLOW such an ending
        are the point: they must wake on their own beat / second.
"""

import math

NICE_TEMPI = [1, 1.0, 2, 2.0, 0.5, 1.5, 3, 4, 0.25, 60 / 60, 90 / 60, 120 / 60,
              140 / 60, 0.1, 10, 100.0]
NICE_QUANTS = [1, 2, 3, 4, 8, 16, 1.0, 4.0, 0.5, 0.25, 1.5, 0.125, 6, 12, 5, 7]
ODD_QUANTS = [0.1, 0.2, 0.3, 1 / 3, 0.7, 2.4, 1e-2, 1e3, 1e4, 0.75, 2.5]
RAISES = ['raise:RuntimeError', 'raise:ZeroDivisionError', 'raise:KeyError',
          'raise:ValueError', 'raise:UserError']
ODD_ENDS = ['gen-end', 'stopstream', 'value:str', 'value:None', 'value:True',
            'value:inf', 'value:list']


def gen_end(rng):
    c = rng.random()
    if c < 0.45:
        return 'return'
    if c < 0.8:
        return rng.choice(RAISES)
    return rng.choice(ODD_ENDS)


def gen_tempo(rng, lo=1e-3, hi=1e3):
    if rng.random() < 0.5:
        v = rng.choice(NICE_TEMPI)
        if lo <= v <= hi:
            return v
    return math.exp(rng.uniform(math.log(lo), math.log(hi)))


def gen_quant(rng, bpb=4.0, max_q=None):
    c = rng.random()
    if c < 0.08:
        return rng.choice([0, 0.0])
    if c < 0.55:
        q = rng.choice(NICE_QUANTS)
    elif c < 0.65:
        q = bpb
    elif c < 0.85:
        q = rng.choice(ODD_QUANTS)
    else:
        q = math.exp(rng.uniform(math.log(1e-2), math.log(1e3)))
    if max_q is not None and q > max_q:
        q = max_q * rng.choice([1, 0.5, 0.25])
    return q


def gen_phase(rng, q):
    if q == 0:
        return rng.choice([0, 0.0])
    c = rng.random()
    if c < 0.3:
        return rng.choice([0, 0.0])
    if c < 0.6:
        f = rng.choice([0.5, 0.25, 0.75, -0.5, -0.25, -0.75, 0.125])
        p = q * f
    elif c < 0.7 and isinstance(q, int) and q > 1:
        p = rng.randint(-(q - 1), q - 1)
    else:
        p = rng.uniform(-q, q)
    if not (-q < p < q):
        p = 0
    return p


def gen_ref(rng, q, span=1e6):
    """-> None (the clock's current beat) | number | {'rel': x} (current beat
    + x) | {'ongrid': k} (the float image of grid point k: the boundary of
    "not before the reference"; resolved at run time from the meter
    reference)."""
    c = rng.random()
    if c < 0.2:
        return None
    if c < 0.4:
        return {'rel': rng.choice([0, 0.0, 0.5, -0.5, 1, rng.uniform(-8, 8)])}
    if c < 0.6 and q:
        return {'ongrid': rng.randint(-1000, 1000)}
    if c < 0.75:
        return float(rng.randint(-int(span), int(span)))
    if c < 0.8:
        return rng.randint(-1000, 1000)
    return rng.uniform(-span, span)


def quant_spec(rng, q, p):
    c = rng.random()
    if p == 0 and c < 0.3:
        return q
    if c < 0.6:
        return [q, p]
    return {'q': q, 'p': p}


def next_bar_hows(rt, bpb, tempo):
    # real time: only when the next bar line is at most 0.25 s away
    if rt and bpb > 0.25 * tempo:
        return []
    return ['clock.play_next_bar', 'clock.play_next_bar-function']


def gen_sched(rng, rt, tempo, bpb, routine, move):
    """One way of putting a task on the clock (sched of the module text).
    move: the task has been on the clock before."""
    c = rng.random()
    max_q = 0.08 * tempo if rt else None
    if c < 0.5:
        q = gen_quant(rng, bpb, max_q)
        p = gen_phase(rng, q)
        spec = rng.choice([None, quant_spec(rng, q, p), quant_spec(rng, q, p)])
        if routine and move and rng.random() < 0.6:
            return ['resume', spec, rng.random() < 0.6]
        if routine and rng.random() < 0.5:
            return ['play', spec]
        return ['clock.play', spec]
    if c < 0.7:
        x = rng.uniform(0.002, 0.05) * tempo if rt else rng.choice(
            [0, 0.5, 1, 2, 4, 1.5, rng.uniform(0, 16)])
        return ['sched_abs', {'rel': x}]
    if c < 0.85 or (rt and bpb > 0.25 * tempo):
        x = rng.uniform(0.002, 0.05) * tempo if rt else rng.choice(
            [0, 0.25, 1, 1.0, 3, rng.uniform(0, 8)])
        return ['sched', x]
    return ['next_bar']


def add_moved_task(rng, steps, at_step, rt, tid, delta):
    """A task that wakes several times and is scheduled again (same clock)
    1-3 times: mostly in the step that first scheduled it or the next one (its
    first wake-up is then usually still pending), with the step's map changes
    and queries before, between and after the calls."""
    nsteps = len(steps)
    k0 = rng.randrange(nsteps) if rng.random() < 0.5 else rng.randrange(
        (nsteps + 1) // 2)
    routine = rng.random() < 0.65
    tempo, bpb = at_step[k0]
    ndeltas = rng.choice([1, 2, 2, 3, 4])
    if rt:
        deltas = [rng.uniform(0.002, 0.02) * tempo for _ in range(ndeltas)]
    else:
        deltas = [delta() for _ in range(ndeltas)]
    selfmoves = [(rng.choice([0, 0.5, 1, 8]) if not rt else
                  rng.uniform(0, 0.03) * tempo) if rng.random() < 0.15 else None
                 for _ in range(ndeltas)]
    ops = steps[k0]['ops']
    at = rng.randrange(len(ops) + 1)
    ops.insert(at, ['mplay', tid, 'routine' if routine else 'function',
                    gen_sched(rng, rt, tempo, bpb, routine, False),
                    deltas, selfmoves])
    k, lo = k0, at + 1
    for _ in range(rng.choice([0, 1, 1, 1, 2, 2, 3])):
        if rng.random() > 0.6:
            k2 = min(nsteps - 1, k + rng.randint(1, 2))
            if k2 != k:
                k, lo = k2, 0
        ops = steps[k]['ops']
        tempo, bpb = at_step[k]
        sched = gen_sched(rng, rt, tempo, bpb, routine, True)
        if sched[0] == 'resume' and rng.random() < 0.85:
            # pause() ... resume(): other ops of the step may come between
            a = rng.randint(lo, len(ops))
            ops.insert(a, ['mpause', tid])
            lo = a + 1
        elif sched[0] == 'play':
            # play() only acts on an unplayed or paused routine: the restart
            # idioms reset(); play() and stop(); reset(); play()
            c = rng.random()
            for name in (['mreset'] if c < 0.35 else
                         ['mstop', 'mreset'] if c < 0.7 else []):
                a = rng.randint(lo, len(ops))
                ops.insert(a, [name, tid])
                lo = a + 1
        b = rng.randint(lo, len(ops))
        ops.insert(b, ['mmove', tid, sched])
        lo = b + 1
    if routine and rng.random() < 0.06:
        steps[k]['ops'].insert(rng.randint(lo, len(steps[k]['ops'])),
                               ['mstop', tid])


def gen_program(rng, kind):
    """kind: 'grid' (short set-up, many quantisation queries, big numbers),
    'hist' (long histories of changes), 'rt' (real time: scaled so that one
    program lasts well under a second)."""
    rt = kind == 'rt'
    if rt:
        tempo = rng.choice([20, 50.0, 100, rng.uniform(10, 200)])
        clock = {'tempo': tempo,
                 'beats': rng.choice([None, 0, 3.5, 100, rng.uniform(-50, 50)]),
                 'seconds': rng.choice([None, 'now', 'now-1', 'now+0.01',
                                        0, 0.0])}
    else:
        tempo = gen_tempo(rng)
        span = 1e6 if kind == 'grid' and rng.random() < 0.5 else 1e3
        clock = {'tempo': rng.choice([tempo, tempo, None]),
                 'beats': rng.choice([None, 0, 1, 2.5, rng.uniform(-span, span),
                                      float(rng.randint(-1000, 1000))]),
                 'seconds': rng.choice([None, None, 0, 1.0, -2.0,
                                        rng.uniform(-100, 100)])}
        if clock['tempo'] is None:
            tempo = 1.0
    bpb = 4.0
    step_secs = lambda: rng.uniform(0.002, 0.02)

    def delta():
        if rt:
            return step_secs() * tempo
        return rng.choice([0.25, 0.5, 1, 1.0, 2, 4, 0.125, 3,
                           rng.uniform(0.01, 8)])

    max_q = (lambda: 0.08 * tempo) if rt else (lambda: None)
    q = gen_quant(rng, bpb, max_q())
    root_quant = rng.choice([None, quant_spec(rng, q, gen_phase(rng, q))])
    if kind == 'grid':
        nsteps = rng.randint(1, 3)
        nchanges = rng.randint(0, 4)
        nqueries = rng.randint(20, 40)
    elif kind == 'hist':
        nsteps = rng.randint(2, 12)
        nchanges = rng.randint(1, 40)
        nqueries = rng.randint(2, 12)
    else:
        nsteps = rng.randint(3, 10)
        nchanges = rng.randint(2, 16)
        nqueries = rng.randint(2, 10)
    steps = [{'ops': [], 'delta': None} for _ in range(nsteps)]
    # distribute changes and queries over the steps, then fill in values in
    # step order so that the generator can follow tempo / meter
    slots = sorted([(rng.randrange(nsteps), rng.random(), 'change')
                    for _ in range(nchanges)] +
                   [(rng.randrange(nsteps), rng.random(), 'query')
                    for _ in range(nqueries)])
    cur = 0.0       # rough running beat, only to aim reference beats
    si = 0
    at_step = []    # (tempo, beats_per_bar) at the end of every step
    for k in range(nsteps):
        ops = steps[k]['ops']
        while si < len(slots) and slots[si][0] == k:
            what = slots[si][2]
            si += 1
            if what == 'change':
                c = rng.random()
                if c < 0.35:
                    v = gen_tempo(rng, 10, 200) if rt else gen_tempo(rng)
                    ops.append(['tempo', v]); tempo = v
                elif c < 0.5:
                    if rt:
                        v = tempo * rng.choice([0.5, 0.7, 1.4, 2.0])
                        v = min(max(v, 10.0), 400.0)
                    else:
                        v = gen_tempo(rng)
                    ops.append(['etempo', v]); tempo = v
                elif c < 0.65:
                    if rt:
                        # only by a few ms worth of beats: a jump backwards
                        # postpones pending wake-ups by that much, a jump
                        # forwards beyond the next wake-up moves the
                        # routine's logical time into the past, and a later
                        # tempo change (made at logical time) then moves the
                        # clock's present by minutes
                        v = {'rel': rng.uniform(-0.03, 0.03) * tempo}
                    else:
                        v = rng.choice([{'rel': rng.uniform(-10, 10)},
                                        {'rel': 1}, {'rel': -0.5},
                                        0, 0.0, 16, rng.uniform(-1e3, 1e3),
                                        rng.uniform(-1e6, 1e6),
                                        float(rng.randint(-100, 100))])
                    ops.append(['beats', v])
                    cur = cur + v['rel'] if isinstance(v, dict) else v
                elif c < (0.75 if rt else 0.85):
                    v = rng.choice([3, 4, 5, 6, 7, 2, 1, 12, 3.0, 4.0, 3.5, 0.5,
                                    2.5, 9, rng.uniform(0.5, 16)])
                    ops.append(['bpb', v]); bpb = float(v)
                else:
                    q = gen_quant(rng, bpb, max_q())
                    p = gen_phase(rng, q)
                    ops.append(['play', rng.choice(
                        [None, quant_spec(rng, q, p), quant_spec(rng, q, p)]),
                        rng.choice(['routine.play', 'clock.play',
                                    'clock.play-function', 'routine.play',
                                    'clock.play', 'clock.play-function']
                                   + next_bar_hows(rt, bpb, tempo)),
                        gen_end(rng)])
            else:
                c = rng.random()
                if c < (0.8 if kind == 'grid' else 0.4):
                    q = gen_quant(rng, bpb)
                    p = gen_phase(rng, q)
                    ops.append(['grid', q, p, gen_ref(rng, q)])
                elif c < 0.85 if kind == 'grid' else c < 0.5:
                    q = gen_quant(rng, bpb)
                    ops.append(['ttnb', rng.choice(
                        [q, q, quant_spec(rng, q, gen_phase(rng, q))])])
                elif c < 0.9 if kind == 'grid' else c < 0.7:
                    ops.append(['conv', rng.uniform(-1e6, 1e6)
                                if rng.random() < 0.3 else cur + rng.uniform(-20, 20),
                                rng.uniform(-1e3, 1e3)])
                elif c < 0.95 if kind == 'grid' else c < 0.85:
                    ops.append(['bars', cur + rng.uniform(-100, 100),
                                rng.choice([float(rng.randint(-50, 50)),
                                            rng.uniform(-50, 50)])])
                elif c < 0.98:
                    ops.append(['nextbar', rng.choice(
                        [None, cur + rng.uniform(-50, 50),
                         float(rng.randint(-100, 100)), rng.uniform(-1e6, 1e6)])])
                else:
                    ops.append(['barnow'])
        if k < nsteps - 1:
            d = delta()
            steps[k]['delta'] = d
            cur += d
        at_step.append((tempo, bpb))
    p_moved = {'grid': 0.25, 'hist': 0.6, 'rt': 0.6}[kind]
    tid = 0
    while tid < 3 and rng.random() < p_moved:
        add_moved_task(rng, steps, at_step, rt, tid, delta)
        tid += 1
    prog = {'clock': clock, 'root_quant': root_quant, 'steps': steps}
    if not rt:
        # logical second at which the clock is created and the root routine
        # played (from a function scheduled on SystemClock when > 0)
        prog['create_at'] = rng.choice([0, 0, 0.5, 3.0, rng.uniform(0, 100)])
    return prog


def features(prog):
    ops = [op for st in prog['steps'] for op in st['ops']]
    names = [op[0] for op in ops]
    return {
        'changes': sum(n in ('tempo', 'etempo', 'beats', 'bpb') for n in names),
        'tempo': 'tempo' in names, 'etempo': 'etempo' in names,
        'beats': 'beats' in names, 'bpb': 'bpb' in names,
        'play': 'play' in names,
        'moved_tasks': sum(n == 'mplay' for n in names),
        'moves': sum(n == 'mmove' for n in names),
        'failing_task': any(op[0] == 'play' and len(op) > 3
                            and op[3].startswith('raise') for op in ops),
        'grid': sum(n == 'grid' for n in names),
        'grid_after_meter': any(
            a == 'bpb' and 'grid' in names[i:] for i, a in enumerate(names)),
        'fractional_quant': any(op[0] == 'grid' and op[1] != int(op[1])
                                for op in ops),
        'negative_phase': any(op[0] == 'grid' and op[2] < 0 for op in ops),
    }
