"""C07: generator of sends (messages, bundles, nested bundles, completion
bundles inside blobs) whose every message carries a unique (send id, index)
pair, and helpers to walk them.  No sc3 import."""

import copy

LATS = [None, -1, -0.25, 0, 0.0, 1e-9, 0.05, 0.2, 0.2, 1, 3]


def gen_lat(rng):
    if rng.random() < 0.8:
        return rng.choice(LATS)
    return rng.choice([rng.uniform(0, 2), rng.uniform(0, 0.01), rng.randint(0, 5)])


def _timed(L):
    return L is not None and L >= 0


def gen_send(rng, sid, p_ok=0.85, p_bundle=0.6):
    """-> ('msg', list) | ('bundle', list).  With probability p_ok nested
    bundle times never precede their parents' (the send must be accepted)."""
    ok = rng.random() < p_ok
    k = [0]

    def msg(depth):
        m = ['/c7', sid, k[0]]
        k[0] += 1
        r = rng.random()
        if r < 0.25:
            m.append(rng.choice([None, True, False, 1.5, 'str', 'é', b'abc',
                                 b'abcd', 7, [], 0.1]))
        elif r < 0.37 and depth < 2:
            m.append(bundle(depth + 1, 'top'))
        elif r < 0.44 and depth < 2:
            m.append(msg(depth + 1))
        return m

    def bundle(depth, parent):
        L = gen_lat(rng)
        if ok and parent != 'top' and _timed(parent):
            L = parent + rng.choice([0, 0, 1e-9, 0.25, 1, rng.uniform(0, 1)])
        n = rng.choice([1, 1, 2, 3])
        els = []
        for _ in range(n):
            if depth < 3 and rng.random() < 0.3:
                els.append(bundle(depth + 1, L))
            else:
                els.append(msg(depth))
        return [L] + els

    if rng.random() < p_bundle:
        return ('bundle', bundle(0, 'top'))
    return ('msg', msg(0))


def dispatched(kind, lst):
    """Messages a receiver dispatches: [(k, latency of the innermost
    enclosing bundle | 'nobundle')] (messages inside blobs are not)."""
    out = []
    if kind == 'msg':
        return [(lst[2], 'nobundle')]

    def rec(b):
        for e in b[1:]:
            if isinstance(e[0], str):
                out.append((e[2], b[0]))
            else:
                rec(e)
    rec(lst)
    return out


def has_nested(kind, lst):
    """(nested bundle elements?, bundles inside blobs?)"""
    nb = bb = False

    def m(x):
        nonlocal nb, bb
        for a in x[1:]:
            if isinstance(a, list) and a:
                if isinstance(a[0], str):
                    m(a)
                else:
                    bb = True
                    b(a, False)

    def b(x, top):
        nonlocal nb
        for e in x[1:]:
            if isinstance(e[0], str):
                m(e)
            else:
                nb = True
                b(e, False)
    (m if kind == 'msg' else lambda x: b(x, True))(lst)
    return nb, bb


def clone(x):
    return copy.deepcopy(x)
