"""Reference models for C16 (does NOT import sc3).

BitmapModel
    The meaning of "safe and complete contiguous index allocation" written
    directly from the property statement: a partition is the absolute address
    interval [offset + reserved, offset + size); one boolean per address says
    "live".  The model never *chooses* an address, it only *judges* the answer
    of the implementation, so every correct answer (any placement, any internal
    random tie-break) is accepted:

      alloc(n) -> a      is fine iff [a, a+n) lies inside the partition and no
                         address of it is live;
      alloc(n) -> None   is fine iff the partition has no run of n free
                         addresses (freed neighbours count as one run: the
                         bitmap has no block structure, so "merged with their
                         free neighbours" is built in);
      free(a)            releases the live range that starts at a; anything
                         else (double free, unknown / interior / reserved
                         address, None) must leave the live set unchanged.

NodeIdModel
    Node ids of client `user` with first temporary id `first`:
      * the id window is W = 2**26 - first ids long (SuperCollider convention:
        26 bits per client, client number in the bits above; ids below `first`
        are permanent ids and never handed out),
      * any W consecutive allocations are pairwise distinct,
      * every id lies in [user * 2**26 + first, (user + 1) * 2**26).

BitmapModel.judge_reserve  (round 7b)
    reserve(a, n) of a range inside the partition, judged by the live set the
    implementation reports afterwards: a range with no live address must
    become live (exactly (a, n) is added), a range with at least one live
    address must be refused (live set unchanged, nothing answered).

PermIdModel  (round 7b)
    Permanent node ids of client `user`: the zone below the first temporary
    id, without the root node (0) and the client's default group (1):
    [user * 2**26 + 2, user * 2**26 + first).  Ids that are live (handed out
    and not freed) are pairwise distinct; a freed id may come back.  When
    every id of the zone is live no correct answer exists: then only the zone
    is judged (SuperCollider's allocator repeats the last id).

PowerOfTwoModel / NumberPoolModel / RingModel  (round 7b)
    The alternative allocators of the anchored file, judged as far as their
    discipline allows.  Power of two: blocks are rounded up to a power of two,
    never split and never merged, a freed block serves only requests of its
    own size class, new blocks come from the untouched end; so "no space" is
    wrong iff a freed block of the class exists or the untouched end still
    has room for the rounded length.  Number pools (LRU, stack): single
    numbers of [lo, hi], a live number is never handed out again, "none" only
    when as many numbers are live as the pool holds.  Ring: numbers of
    [lo, hi], any hi - lo + 1 consecutive answers pairwise distinct.
"""

from collections import deque

ID_BITS = 26
ID_SPAN = 1 << ID_BITS


class Verdict:
    """Result of judging one answer: ok or (mechanism, detail)."""
    __slots__ = ('ok', 'mech', 'detail')

    def __init__(self, ok=True, mech=None, detail=None):
        self.ok, self.mech, self.detail = ok, mech, detail

    def __bool__(self):
        return self.ok


OK = Verdict()


class BitmapModel:
    def __init__(self, size, reserved=0, offset=0):
        self.size = size
        self.reserved = reserved
        self.offset = offset
        self.lo = offset + reserved          # first allocatable address
        self.hi = offset + size              # one past the last one
        self.used = [False] * (self.hi - self.lo)
        self.live = {}                       # start -> length

    # ---- queries -----------------------------------------------------
    def longest_free_run(self):
        best = cur = 0
        for u in self.used:
            if u:
                cur = 0
            else:
                cur += 1
                if cur > best:
                    best = cur
        return best

    def free_run_at_least(self, n):
        cur = 0
        for u in self.used:
            if u:
                cur = 0
            else:
                cur += 1
                if cur >= n:
                    return True
        return False

    def free_count(self):
        return self.used.count(False)

    def live_set(self):
        return set(self.live.items())

    # ---- judging -----------------------------------------------------
    def judge_alloc(self, n, answer):
        """Validates the implementation's answer to alloc(n) and, when it is
        acceptable, records it."""
        if answer is None:
            if self.free_run_at_least(n):
                return Verdict(False, 'no-space-but-free-run-exists',
                               f'alloc({n}) -> None, longest free run '
                               f'{self.longest_free_run()}')
            return OK
        if isinstance(answer, bool) or not isinstance(answer, int):
            return Verdict(False, 'answer-not-an-address',
                           f'alloc({n}) -> {answer!r}')
        a = answer
        if a < self.lo or a + n > self.hi:
            where = ('reserved-zone' if self.offset <= a < self.lo
                     else 'outside-partition')
            return Verdict(False, f'range-leaves-partition/{where}',
                           f'alloc({n}) -> {a}, partition [{self.lo}, {self.hi})')
        for k in range(a - self.lo, a - self.lo + n):
            if self.used[k]:
                return Verdict(False, 'range-overlaps-live',
                               f'alloc({n}) -> {a} overlaps live address '
                               f'{k + self.lo}')
        for k in range(a - self.lo, a - self.lo + n):
            self.used[k] = True
        self.live[a] = n
        return OK

    def free(self, addr):
        """Returns True when addr was the start of a live range."""
        n = self.live.pop(addr, None) if addr is not None else None
        if n is None:
            return False
        for k in range(addr - self.lo, addr - self.lo + n):
            self.used[k] = False
        return True

    def range_state(self, a, n):
        """'free' (no live address), 'occupied' (at least one live address)
        or 'outside' (not inside the partition) for [a, a + n)."""
        if n < 1 or a < self.lo or a + n > self.hi:
            return 'outside'
        lo = a - self.lo
        return 'occupied' if any(self.used[lo:lo + n]) else 'free'

    def free_runs(self):
        """Maximal runs of free addresses as (absolute start, length)."""
        runs, start = [], None
        for k, u in enumerate(self.used):
            if not u and start is None:
                start = k
            elif u and start is not None:
                runs.append((start + self.lo, k - start))
                start = None
        if start is not None:
            runs.append((start + self.lo, len(self.used) - start))
        return runs

    def judge_reserve(self, a, n, answer, raised, blocks):
        """Judges reserve(a, n) (range inside the partition) by the live set
        reported afterwards; records the range when it became live.
        `raised`: the call raised; `answer`: what it returned otherwise."""
        state = self.range_state(a, n)
        assert state != 'outside'
        got, exp = set(blocks), self.live_set()

        def diff(want):
            missing = sorted(want - got)[:4]
            extra = sorted(got - want)[:4]
            kind = ('lost-live-block' if missing and not extra else
                    'phantom-block' if extra and not missing else 'both')
            return kind, f'missing {missing} extra {extra}'

        if state == 'free':
            if raised:
                return Verdict(False, 'free-range/raises',
                               f'reserve({a}, {n}) of a free range raised; '
                               f'live set afterwards: {diff(exp)[1]}')
            if got == exp:
                return Verdict(False, 'free-range-refused',
                               f'reserve({a}, {n}) -> {answer!r}: no address of '
                               'the range is live, nothing was reserved')
            if got != exp | {(a, n)}:
                kind, d = diff(exp | {(a, n)})
                return Verdict(False, f'free-range/live-set-differs/{kind}',
                               f'reserve({a}, {n}): {d}')
            start = getattr(answer, 'start', answer)
            if answer is not None and start != a:
                return Verdict(False, 'free-range/answers-another-address',
                               f'reserve({a}, {n}) -> {answer!r}')
            for k in range(a - self.lo, a - self.lo + n):
                self.used[k] = True
            self.live[a] = n
            return OK
        if got != exp:
            kind, d = diff(exp)
            return Verdict(False, f'occupied-range-not-refused/{kind}',
                           f'reserve({a}, {n}) overlaps a live range'
                           f'{" (and raised)" if raised else ""}: {d}')
        if not raised and answer is not None:
            return Verdict(False, 'occupied-range-not-refused/answers-a-block',
                           f'reserve({a}, {n}) overlaps a live range, '
                           f'answered {answer!r}')
        return OK

    def judge_blocks(self, blocks):
        """blocks: iterable of (start, size) the implementation reports live."""
        got = set(blocks)
        exp = self.live_set()
        if got == exp:
            return OK
        missing = sorted(exp - got)[:4]
        extra = sorted(got - exp)[:4]
        mech = ('live-set-differs/lost-live-block' if missing and not extra else
                'live-set-differs/phantom-block' if extra and not missing else
                'live-set-differs/both')
        return Verdict(False, mech, f'missing {missing} extra {extra}')


class NodeIdModel:
    def __init__(self, user, first):
        self.user = user
        self.first = first
        self.window = ID_SPAN - first
        self.lo = user * ID_SPAN + first
        self.hi = (user + 1) * ID_SPAN          # exclusive
        self.recent = deque()
        self.recent_set = set()
        self.count = 0
        self.wraps = 0
        self.last = None
        self.min_id = None
        self.max_id = None

    def judge(self, nid):
        self.count += 1
        if isinstance(nid, bool) or not isinstance(nid, int):
            return Verdict(False, 'id-not-an-int', repr(nid))
        if not (self.lo <= nid < self.hi):
            mech = ('id-in-permanent-zone'
                    if self.user * ID_SPAN <= nid < self.lo
                    else 'id-outside-client-range')
            return Verdict(False, mech,
                           f'id {nid} not in [{self.lo}, {self.hi}) '
                           f'(user {self.user})')
        if nid in self.recent_set:
            return Verdict(False, 'id-repeats-within-window',
                           f'id {nid} handed out again after '
                           f'{len(self.recent)} <= window {self.window} '
                           'allocations')
        self.min_id = nid if self.min_id is None else min(self.min_id, nid)
        self.max_id = nid if self.max_id is None else max(self.max_id, nid)
        if self.last is not None and nid < self.last:
            self.wraps += 1
        self.last = nid
        self.recent.append(nid)
        self.recent_set.add(nid)
        if len(self.recent) >= self.window:
            old = self.recent.popleft()
            self.recent_set.discard(old)
        return OK


class PermIdModel:
    def __init__(self, user, first):
        self.user = user
        self.base = user * ID_SPAN
        self.lo = self.base + 2
        self.hi = self.base + first          # exclusive: first temporary id
        self.capacity = max(0, first - 2)
        self.live = set()
        self.freed_once = set()
        self.count = self.reused = self.exhausted_answers = 0
        self.exhausted_repeats = 0

    def exhausted(self):
        return len(self.live) >= self.capacity

    def judge(self, nid):
        """Answer of alloc_perm() (None = refused)."""
        full = self.exhausted()
        if nid is None:
            if full:
                self.exhausted_answers += 1
                return OK
            return Verdict(False, 'no-perm-id-but-free-ids-exist',
                           f'{len(self.live)} live of {self.capacity}')
        self.count += 1
        if isinstance(nid, bool) or not isinstance(nid, int):
            return Verdict(False, 'perm-id-not-an-int', repr(nid))
        if not (self.lo <= nid < self.hi):
            if self.base <= nid < self.lo:
                mech = 'perm-id-is-root-or-default-group'
            elif self.hi <= nid < self.base + ID_SPAN:
                mech = 'perm-id-in-temporary-window'
            else:
                mech = 'perm-id-outside-client-range'
            return Verdict(False, mech,
                           f'permanent id {nid} not in [{self.lo}, {self.hi}) '
                           f'(user {self.user})')
        if nid in self.live:
            if full:
                self.exhausted_answers += 1
                self.exhausted_repeats += 1
                return OK                    # no correct answer exists
            return Verdict(False, 'perm-id-repeats-while-live',
                           f'permanent id {nid} handed out again while live '
                           f'({len(self.live)} live of {self.capacity})')
        if nid in self.freed_once:
            self.reused += 1
        self.live.add(nid)
        return OK

    def free(self, nid):
        if nid in self.live:
            self.live.discard(nid)
            self.freed_once.add(nid)
            return True
        return False


def pow2ceil(n):
    return 1 << (n - 1).bit_length()


class PowerOfTwoModel:
    def __init__(self, size, pos=0):
        self.size, self.pos = size, pos
        self.lo, self.hi = pos, size
        self.used = [False] * max(0, size - pos)
        self.live = {}                  # addr -> (n, rounded)
        self.freed = {}                 # addr -> rounded (freed, not reissued)
        self.high = pos                 # end of the touched part

    def judge_alloc(self, n, answer):
        p = pow2ceil(n)
        if answer is None:
            if p in self.freed.values():
                return Verdict(False, 'no-space-but-freed-block-of-class-exists',
                               f'alloc({n}) -> None, freed blocks of length {p}: '
                               f'{sorted(a for a, q in self.freed.items() if q == p)[:4]}')
            if self.high + p <= self.hi:
                return Verdict(False, 'no-space-but-untouched-space-exists',
                               f'alloc({n}) -> None, addresses from {self.high} '
                               f'to {self.hi} never handed out')
            return OK
        if isinstance(answer, bool) or not isinstance(answer, int):
            return Verdict(False, 'answer-not-an-address', f'alloc({n}) -> {answer!r}')
        a = answer
        if a < self.lo or a + n > self.hi:
            return Verdict(False, 'range-leaves-partition',
                           f'alloc({n}) -> {a}, partition [{self.lo}, {self.hi})')
        for k in range(a - self.lo, a - self.lo + n):
            if self.used[k]:
                return Verdict(False, 'range-overlaps-live',
                               f'alloc({n}) -> {a} overlaps live address {k + self.lo}')
        for k in range(a - self.lo, a - self.lo + n):
            self.used[k] = True
        self.live[a] = (n, p)
        for b, q in list(self.freed.items()):
            if b < a + n and a < b + q:         # the space of a freed block is in use again
                del self.freed[b]
        self.high = max(self.high, min(self.hi, a + p))
        return OK

    def free(self, addr):
        e = self.live.pop(addr, None) if addr is not None else None
        if e is None:
            return False
        for k in range(addr - self.lo, addr - self.lo + e[0]):
            self.used[k] = False
        self.freed[addr] = e[1]
        return True

    def judge_blocks(self, starts):
        got, exp = set(starts), set(self.live)
        if got == exp:
            return OK
        missing, extra = sorted(exp - got)[:4], sorted(got - exp)[:4]
        mech = ('live-set-differs/lost-live-block' if missing and not extra else
                'live-set-differs/phantom-block' if extra and not missing else
                'live-set-differs/both')
        return Verdict(False, mech, f'missing {missing} extra {extra}')


class NumberPoolModel:
    def __init__(self, lo, hi, capacity):
        self.lo, self.hi, self.capacity = lo, hi, capacity
        self.live = set()

    def judge_alloc(self, answer):
        if answer is None:
            if len(self.live) < self.capacity:
                return Verdict(False, 'no-number-but-free-numbers-exist',
                               f'alloc() -> None with {len(self.live)} live of '
                               f'{self.capacity} numbers')
            return OK
        if isinstance(answer, bool) or not isinstance(answer, int):
            return Verdict(False, 'answer-not-a-number', f'alloc() -> {answer!r}')
        if not (self.lo <= answer <= self.hi):
            return Verdict(False, 'number-outside-range',
                           f'alloc() -> {answer}, range [{self.lo}, {self.hi}]')
        if answer in self.live:
            return Verdict(False, 'number-handed-out-while-live',
                           f'alloc() -> {answer}, live {sorted(self.live)[:8]}')
        self.live.add(answer)
        return OK

    def free(self, x):
        if x in self.live:
            self.live.discard(x)
            return True
        return False


class RingModel:
    def __init__(self, lo, hi):
        self.lo, self.hi = lo, hi
        self.window = hi - lo + 1
        self.recent = deque()
        self.recent_set = set()
        self.count = self.wraps = 0
        self.last = None

    def judge(self, x):
        self.count += 1
        if isinstance(x, bool) or not isinstance(x, int):
            return Verdict(False, 'answer-not-a-number', repr(x))
        if not (self.lo <= x <= self.hi):
            return Verdict(False, 'number-outside-range',
                           f'alloc() -> {x}, range [{self.lo}, {self.hi}]')
        if x in self.recent_set:
            return Verdict(False, 'number-repeats-within-window',
                           f'{x} again after {len(self.recent)} < window '
                           f'{self.window} allocations')
        if self.last is not None and x < self.last:
            self.wraps += 1
        self.last = x
        self.recent.append(x)
        self.recent_set.add(x)
        if len(self.recent) >= self.window:
            self.recent_set.discard(self.recent.popleft())
        return OK


def selftest():
    m = BitmapModel(16, 2, 32)
    assert m.lo == 34 and m.hi == 48
    assert m.judge_alloc(7, 34)
    assert not m.judge_alloc(3, 40)            # overlaps
    assert not m.judge_alloc(3, 33)            # reserved zone
    assert not m.judge_alloc(8, 41)            # leaves the partition
    assert m.judge_alloc(7, 41)
    assert m.judge_alloc(1, None)              # really full
    assert m.free(34) and not m.free(34) and not m.free(35)
    assert not m.judge_alloc(7, None)          # run of 7 exists
    assert m.judge_blocks([(41, 7)])
    assert not m.judge_blocks([(41, 7), (34, 7)])
    n = NodeIdModel(1, ID_SPAN - 3)
    base = ID_SPAN
    assert n.judge(base + ID_SPAN - 3) and n.judge(base + ID_SPAN - 2)
    assert n.judge(base + ID_SPAN - 1)
    assert n.judge(base + ID_SPAN - 3)         # window of 3 elapsed
    assert not n.judge(base + ID_SPAN - 3)     # repeats inside the window
    assert not NodeIdModel(1, 1000).judge(1000)
    # reserve
    m = BitmapModel(16, 2, 32)
    assert m.range_state(33, 2) == 'outside' and m.range_state(40, 9) == 'outside'
    assert m.judge_reserve(40, 3, None, False, [(40, 3)]) and m.live == {40: 3}
    assert m.free_runs() == [(34, 6), (43, 5)]
    assert m.range_state(38, 3) == 'occupied' and m.range_state(43, 5) == 'free'
    assert m.judge_reserve(38, 3, None, False, [(40, 3)])            # refused
    assert m.judge_reserve(38, 3, None, True, [(40, 3)])             # refused loudly
    assert not m.judge_reserve(38, 3, None, False, [(38, 3), (40, 3)])
    assert not m.judge_reserve(38, 3, None, False, [])
    assert not m.judge_reserve(38, 3, 38, False, [(40, 3)])
    assert not m.judge_reserve(34, 2, None, False, [(40, 3)])        # free, refused
    assert not m.judge_reserve(34, 2, None, True, [(40, 3)])
    assert not m.judge_reserve(34, 2, None, False, [(34, 3), (40, 3)])
    assert not m.judge_reserve(34, 2, 35, False, [(34, 2), (40, 3)])
    assert m.judge_reserve(34, 2, 34, False, [(34, 2), (40, 3)])
    assert not m.judge_alloc(2, 34) and m.free(40) and m.judge_alloc(9, 36)
    # permanent ids
    p = PermIdModel(1, 5)                      # ids base+2 .. base+4
    b = ID_SPAN
    assert p.capacity == 3 and p.judge(b + 2) and p.judge(b + 4)
    assert not p.judge(b + 2) and not p.judge(b + 5) and not p.judge(b + 1)
    assert not p.judge(2) and not p.judge(None)
    assert p.judge(b + 3) and p.exhausted() and p.judge(b + 3) and p.judge(None)
    assert not p.judge(b + 5)
    assert p.free(b + 3) and not p.free(b + 3) and p.judge(b + 3) and p.reused == 1
    # power of two
    q = PowerOfTwoModel(16, 1)
    assert q.judge_alloc(3, 1) and q.high == 5 and q.judge_alloc(1, 5)
    assert not q.judge_alloc(2, 3) and not q.judge_alloc(2, 15) and not q.judge_alloc(2, 0)
    assert not q.judge_alloc(8, None) and q.judge_alloc(8, 6) and q.judge_alloc(2, 14)
    assert q.judge_alloc(4, None) and q.free(1) and not q.free(1) and not q.free(2)
    assert not q.judge_alloc(3, None) and q.judge_alloc(8, None)
    assert q.judge_blocks([5, 6, 14]) and not q.judge_blocks([5, 6])
    assert q.judge_alloc(4, 1) and not q.freed
    # pools and ring
    n = NumberPoolModel(3, 6, 3)
    assert n.judge_alloc(3) and not n.judge_alloc(3) and not n.judge_alloc(7)
    assert not n.judge_alloc(None) and n.judge_alloc(6) and n.judge_alloc(4)
    assert n.judge_alloc(None) and n.free(6) and not n.free(6) and not n.judge_alloc(None)
    r = RingModel(3, 5)
    assert r.judge(3) and r.judge(4) and r.judge(5) and r.judge(3) and not r.judge(3)
    assert not RingModel(3, 5).judge(6) and r.wraps == 1
    return True
