"""C16 - bus, buffer and node-id allocation is safe and complete.

Reference-model monitor.  vf/model_alloc.py (no sc3 import) keeps one boolean
per address of the client's partition and *judges* every answer of the real
allocator (any correct placement is accepted, so the allocator's internal
random tie-breaks cannot cause alarms):

  direct    sc3.synth._engine.ContiguousBlockAllocator(size, reserved, offset)
            under histories of alloc(n) / free / double free / free of
            never-allocated, interior and reserved addresses / free(None);
            after every operation blocks() must equal the model's live set.
  objects   the same through AudioBus / ControlBus / Buffer /
            Buffer.new_consecutive constructors and .free() on a server whose
            options (bus / buffer counts, reserved numbers, io channels,
            max_logins) and client id vary per case.
  nodeid    NodeIDAllocator(user, first) and Server._next_node_id / Group /
            Synth ids: distinct within the id window (first ids close to 2**26
            so the wrap-around is reached), inside the client's 26-bit range,
            and the allocator's declared id_offset()/num_ids and the server's
            per-client default group ids agree with that range.
"""

from vf.common import iter_cases, case_rng, h64, split, short_tb, tb_sites

LEVEL = 'exploration'
RULE = ("seeded random histories (1-500 operations) of alloc(n) / free / double "
        "free / free of unknown, interior and reserved addresses over partition "
        "sizes 1-256, reserved offsets 0-8 and client ids 0-31 (address offset = "
        "size*client [+ io offset]), on the allocator directly and through "
        "AudioBus/ControlBus/Buffer constructors with max_logins 1-8; node-id "
        "runs of up to 3 windows with the first id close to 2**26.  A history "
        "is non-trivial when it frees a live range that has a free neighbour "
        "(coalescing needed) and allocates successfully afterwards, or (node "
        "ids) wraps at least once; distinct = hash of configuration + operations")
ASSUMPTIONS = [
    "vf/model_alloc.py BitmapModel is the meaning of safe/complete allocation: "
    "partition = [offset+reserved, offset+size), one boolean per address",
    "per-client partition layout follows the SuperCollider convention "
    "(count // max_logins per client, client offset = per-client count * "
    "client id, audio buses after the hardware io channels)",
    "a client's node id range is [client*2**26 + initial_node_id, "
    "(client+1)*2**26) (26 bits per client)",
    "allocator tie-breaks use main's random generator, re-seeded per case",
]
MIN_COUNTERS = {
    'quick': {'allocs_judged': 100_000, 'none_answers_judged': 10_000,
              'none_answers_offset_zero': 1000, 'none_answers_offset_nonzero': 1000,
              'frees_judged': 50_000, 'coalescing_frees': 10_000,
              'blocks_compared': 100_000, 'object_allocs_judged': 10_000,
              'object_none_answers_judged': 500, 'node_ids_judged': 50_000,
              'node_id_wraps': 200, 'default_group_checks': 50,
              'object_histories_reported_max_logins_differs': 500,
              'outside_partition_frees': 5000, 'object_outside_partition_frees': 300,
              'object_frees_whose_send_fails': 300,
              'model_selftest': 1},
    'thorough': {'allocs_judged': 5_000_000, 'none_answers_judged': 500_000,
                 'none_answers_offset_zero': 100_000,
                 'none_answers_offset_nonzero': 100_000,
                 'frees_judged': 2_500_000, 'coalescing_frees': 500_000,
                 'blocks_compared': 5_000_000, 'object_allocs_judged': 250_000,
                 'object_none_answers_judged': 10_000, 'node_ids_judged': 1_000_000,
                 'node_id_wraps': 2500, 'default_group_checks': 1000,
                 'object_histories_reported_max_logins_differs': 20_000,
                 'outside_partition_frees': 200_000,
                 'object_outside_partition_frees': 10_000,
                 'object_frees_whose_send_fails': 10_000,
                 'model_selftest': 1},
}


def plan(tier, seed):
    quick = tier == 'quick'
    secs = 35 if quick else 540
    shards = []
    nd = 100_000 if quick else 3_000_000
    for p, (f, n) in enumerate(split(nd, 6 if quick else 10)):
        shards.append({'name': f'direct{p}', 'mode': 'nrt', 'kind': 'direct',
                       'first_case': f, 'n': n, 'secs': secs,
                       'hard_timeout': secs + 120})
    no = 6000 if quick else 300_000
    for p, (f, n) in enumerate(split(no, 4)):
        shards.append({'name': f'objects{p}', 'mode': 'nrt', 'kind': 'objects',
                       'first_case': f, 'n': n, 'secs': secs,
                       'hard_timeout': secs + 120})
    nn = 3000 if quick else 150_000
    for p, (f, n) in enumerate(split(nn, 2)):
        shards.append({'name': f'nodeid{p}', 'mode': 'nrt', 'kind': 'nodeid',
                       'first_case': f, 'n': n, 'secs': secs,
                       'hard_timeout': secs + 120})
    return shards


# ---------------------------------------------------------------------------
# history generation (pure; no sc3)

PROFILES = [
    # alloc, free, double free, unknown free, free None
    dict(alloc=6, free=3, dfree=0.4, ufree=0.3, nfree=0.05),    # fills up
    dict(alloc=4, free=4, dfree=0.5, ufree=0.5, nfree=0.05),    # churn
    dict(alloc=3, free=5, dfree=1.0, ufree=1.0, nfree=0.1),     # mostly empty
]


def gen_requests(rng, size):
    """Returns a function producing request lengths for this history."""
    style = rng.choice(['ones', 'small', 'mixed', 'large'])

    def req():
        if style == 'ones':
            return 1 if rng.random() < 0.8 else rng.randint(1, max(1, size // 4))
        if style == 'small':
            return rng.randint(1, max(1, min(4, size)))
        if style == 'large':
            return rng.randint(max(1, size // 4), max(1, size))
        r = rng.random()
        if r < 0.6:
            return rng.randint(1, max(1, size // 6))
        if r < 0.95:
            return rng.randint(1, max(1, size // 2))
        return rng.randint(1, size + 2)          # may exceed the partition
    return req


def gen_config(rng):
    size = rng.choice([rng.randint(1, 8), rng.randint(4, 32),
                       rng.randint(16, 96), rng.randint(64, 256)])
    reserved = rng.choice([0, 0, 0, rng.randint(0, min(size - 1, 8))])
    cid = rng.choice([0, 0, 0, 1, 1, 2, 3, rng.randint(0, 31), 31])
    io = rng.choice([0, 0, 0, 0, 2, 4, 8, 16])   # audio-bus style extra offset
    return size, reserved, cid, size * cid + io


def history_length(rng):
    return rng.choice([rng.randint(1, 12), rng.randint(8, 60),
                       rng.randint(40, 200), rng.randint(150, 500)])


class Stats:
    """Per-history facts computed on the model (non-triviality, counters)."""

    def __init__(self):
        self.allocs = self.nones = self.frees = self.coalescing = 0
        self.dfrees = self.ufrees = self.blocks = 0
        self.ofrees = self.ofree_index_errors = 0
        self.failed_send_frees = 0
        self.alloc_after_coalescing = False
        self._pending = False

    def note_free(self, model, addr):
        n = model.live.get(addr)
        if n is None:
            return
        lo = addr - model.lo
        left = lo > 0 and not model.used[lo - 1]
        right = lo + n < len(model.used) and not model.used[lo + n]
        if left or right:
            self.coalescing += 1
            self._pending = True

    def note_alloc_ok(self):
        if self._pending:
            self.alloc_after_coalescing = True


def _site_key(e):
    sites = tb_sites(e)
    fn = sites[-1][1] if sites else 'outside-sc3'
    return f'{type(e).__name__}@{fn}'


def _offset_class(offset):
    return 'offset-zero' if offset == 0 else 'offset-nonzero'


# ---------------------------------------------------------------------------
# direct workload

def run_direct(spec, acc):
    from sc3.synth import _engine as eng
    from sc3.base.main import main
    from vf.model_alloc import BitmapModel
    for i in iter_cases(spec):
        rng = case_rng(spec['seed'], 'C16', 'direct', i)
        size, reserved, cid, offset = gen_config(rng)
        main._m_rgen.seed(rng.getrandbits(48))
        prof = rng.choice(PROFILES)
        names, weights = zip(*prof.items())
        req = gen_requests(rng, size)
        length = history_length(rng)
        try:
            real = eng.ContiguousBlockAllocator(size, reserved, offset)
        except Exception as e:
            acc.violation(f'C16/alloc/constructor-raises/{_site_key(e)}',
                          {'case': i, 'config': [size, reserved, offset],
                           'tb': short_tb(e)})
            acc.case(h64((size, reserved, offset)), nontrivial=False)
            continue
        model = BitmapModel(size, reserved, offset)
        st = Stats()
        ops = []
        freed = []           # starts that were live once (double-free targets)
        bad = None
        for k in range(length):
            name = rng.choices(names, weights)[0]
            outside = False
            if name in ('free', 'dfree') and not (model.live if name == 'free'
                                                  else freed):
                name = 'alloc'
            try:
                if name == 'alloc':
                    n = req()
                    ops.append(('alloc', n))
                    ans = real.alloc(n)
                    v = model.judge_alloc(n, ans)
                    st.allocs += 1
                    if ans is None:
                        st.nones += 1
                    elif v:
                        st.note_alloc_ok()
                    ops[-1] = ('alloc', n, ans)
                    if not v:
                        bad = (k, f'alloc/{v.mech}', v.detail)
                        break
                else:
                    if name == 'free':
                        addr = rng.choice(sorted(model.live))
                        st.note_free(model, addr)
                        st.frees += 1
                        freed.append(addr)
                    elif name == 'dfree':
                        # possibly re-allocated meanwhile: then it is a
                        # legitimate free of the new owner, the model agrees
                        addr = rng.choice(freed)
                        if addr in model.live:
                            st.note_free(model, addr)
                            st.frees += 1
                        else:
                            st.dfrees += 1
                    elif name == 'ufree':
                        addr = rng.randint(offset, offset + size - 1)
                        if addr in model.live:
                            st.note_free(model, addr)
                            st.frees += 1
                            freed.append(addr)
                        else:
                            st.ufrees += 1
                        if rng.random() < 0.3:
                            # an address that belongs to no one in this
                            # partition (hardware bus, another client's
                            # number): must leave the live set unchanged
                            lo = max(0, offset - size - 3)
                            cands = list(range(lo, offset)) + \
                                list(range(offset + size, offset + size + 3))
                            addr = rng.choice(cands)
                            outside = True
                            st.ofrees += 1
                    else:
                        addr = None
                    ops.append(('free', addr))
                    try:
                        real.free(addr)
                    except IndexError:
                        if not outside:
                            raise
                        st.ofree_index_errors += 1   # refused loudly: state intact
                    model.free(addr)
                v = model.judge_blocks((b.start, b.size) for b in real.blocks())
                st.blocks += 1
                if not v:
                    bad = (k, f'{ops[-1][0]}/{v.mech}', v.detail)
                    if outside:
                        bad = bad + ('address-outside-partition',)
                    break
            except Exception as e:
                bad = (k, f'{ops[-1][0]}/raises/{_site_key(e)}', short_tb(e))
                break
        acc.case(h64((size, reserved, offset, ops)),
                 nontrivial=st.coalescing > 0 and st.alloc_after_coalescing)
        _count(acc, st, offset, prefix='')
        if acc.want_sample() and 6 <= len(ops) <= 14 and st.coalescing:
            acc.sample({'case': i, 'size': size, 'reserved': reserved,
                        'client': cid, 'offset': offset, 'ops': ops})
        if bad:
            k, mech, detail = bad[:3]
            cls = bad[3] if len(bad) > 3 else _offset_class(offset)
            acc.violation(f'C16/{mech}/{cls}',
                          {'case': i, 'surface': 'ContiguousBlockAllocator',
                           'size': size, 'reserved': reserved, 'client': cid,
                           'offset': offset, 'op_index': k, 'why': detail,
                           'ops': ops[-40:]})


def _count(acc, st, offset, prefix):
    acc.count(prefix + 'allocs_judged', st.allocs)
    acc.count(prefix + 'none_answers_judged', st.nones)
    acc.count(prefix + 'frees_judged', st.frees)
    acc.count(prefix + 'double_frees', st.dfrees)
    acc.count(prefix + 'unknown_frees', st.ufrees)
    acc.count(prefix + 'outside_partition_frees', st.ofrees)
    acc.count(prefix + 'frees_whose_send_fails', st.failed_send_frees)
    acc.count(prefix + 'outside_partition_frees_refused_with_IndexError',
              st.ofree_index_errors)
    acc.count(prefix + 'coalescing_frees', st.coalescing)
    acc.count(prefix + 'blocks_compared', st.blocks)
    if offset:
        acc.count(prefix + 'histories_offset_nonzero')
        acc.count(prefix + 'none_answers_offset_nonzero', st.nones)
    else:
        acc.count(prefix + 'histories_offset_zero')
        acc.count(prefix + 'none_answers_offset_zero', st.nones)


# ---------------------------------------------------------------------------
# through the client objects

def _layout(opts, max_logins, cid):
    """Per-client partitions (SuperCollider convention), computed here from
    the option values, independently of sc3."""
    io = opts['output_channels'] + opts['input_channels']
    nctl = opts['control_buses'] // max_logins
    naud = (opts['audio_buses'] - io) // max_logins
    nbuf = opts['buffers'] // max_logins
    return {
        'control': (nctl, opts['reserved_control_buses'], nctl * cid),
        'audio': (naud, opts['reserved_audio_buses'], naud * cid + io),
        'buffer': (nbuf, opts['reserved_buffers'], nbuf * cid),
    }


def gen_server_config(rng):
    ml = rng.choice([1, 1, 2, 2, 3, 4, 8])
    per = rng.choice([rng.randint(2, 8), rng.randint(4, 24), rng.randint(8, 64)])
    inch, outch = rng.choice([(2, 2), (0, 2), (2, 2), (8, 8), (1, 1)])
    opts = {
        'control_buses': per * ml + rng.randint(0, ml - 1),
        'audio_buses': inch + outch + per * ml + rng.randint(0, ml - 1),
        'buffers': per * ml + rng.randint(0, ml - 1),
        'input_channels': inch, 'output_channels': outch,
        'reserved_control_buses': rng.choice([0, 0, 0, 1, 2]),
        'reserved_audio_buses': rng.choice([0, 0, 0, 1, 2]),
        'reserved_buffers': rng.choice([0, 0, 0, 1, 2]),
    }
    for k in ('control', 'audio', 'buffer'):
        key = 'reserved_' + ('buffers' if k == 'buffer' else k + '_buses')
        opts[key] = min(opts[key], per - 1)
    # the login reply of the server (/done /notify clientID maxLogins) may
    # report another max_logins than the local option (remote server, server
    # booted elsewhere with another -l): every partition follows the REPORTED
    # value; the local option only has to admit the assigned client id
    reported = ml
    if rng.random() < 0.5:
        reported = rng.choice([r for r in (1, 2, 3, 4, 6, 8, 16)
                               if r != ml and r <= per * ml // 2] or [ml])
    per_r = min(opts['control_buses'], opts['buffers'],
                opts['audio_buses'] - inch - outch) // reported
    for key in ('reserved_control_buses', 'reserved_audio_buses', 'reserved_buffers'):
        opts[key] = max(0, min(opts[key], per_r - 1))
    cid = rng.randrange(min(ml, reported))
    if reported != ml and rng.random() < 0.6:
        cid = min(ml, reported) - 1          # the last admissible client
    return ml, opts, cid, reported


def run_objects(spec, acc):
    from sc3.base.main import main
    from sc3.base.netaddr import NetAddr
    from sc3.synth.server import Server, ServerOptions
    from sc3.synth.bus import AudioBus, ControlBus, BusException
    from sc3.synth.buffer import Buffer
    from vf.model_alloc import BitmapModel

    srv = Server('vf16', NetAddr('127.0.0.1', 57916), ServerOptions())

    for i in iter_cases(spec):
        rng = case_rng(spec['seed'], 'C16', 'objects', i)
        ml, opts, cid, reported = gen_server_config(rng)
        main.reset()
        main._m_rgen.seed(rng.getrandbits(48))
        for k, v in opts.items():
            setattr(srv.options, k, v)
        srv.options.max_logins = ml
        try:
            # the way the library receives a login: the status watcher's
            # handler of the /done /notify reply (stores the reported
            # max_logins, then sets the client id and rebuilds the allocators)
            srv._status_watcher._handle_login_done(cid, reported)
        except Exception as e:
            acc.violation(f'C16/objects/new-allocators-raise/{_site_key(e)}',
                          {'case': i, 'max_logins': ml, 'reported': reported,
                           'options': opts, 'client': cid, 'tb': short_tb(e)})
            acc.case(h64((ml, opts, cid)), nontrivial=False)
            continue
        if srv.client_id != cid or srv._status_watcher.max_logins != reported:
            acc.mark_inconclusive('could not configure client id / max_logins')
            return
        if reported != ml:
            acc.count('object_histories_reported_max_logins_differs')
        lay = _layout(opts, reported, cid)
        models = {k: BitmapModel(*v) for k, v in lay.items()}
        stats = {k: Stats() for k in lay}
        allocators = {'control': srv._control_bus_allocator,
                      'audio': srv._audio_bus_allocator,
                      'buffer': srv._buffer_allocator}
        live = []        # (kind, start, n, [objects])
        dead = []        # freed objects (double free)
        ops = []
        bad = None
        prof = rng.choice(PROFILES)
        reqs = {k: gen_requests(rng, lay[k][0]) for k in lay}
        length = rng.choice([rng.randint(1, 12), rng.randint(8, 60),
                             rng.randint(40, 160)])
        for k in range(length):
            r = rng.random() * (prof['alloc'] + prof['free'] + prof['dfree'])
            kind = None
            if rng.random() < 0.05:
                # a bus object made for a number outside this client's
                # partition (hardware channel, another client's bus) and then
                # freed: nothing of this client's may be released by that
                kd = rng.choice(['audio', 'control'])
                below = lay[kd][2]
                if below > 0:
                    idx = rng.randrange(max(0, below - lay[kd][0] - 2), below)
                    cls_ = AudioBus if kd == 'audio' else ControlBus
                    ops.append((kd + '-foreign-free', idx))
                    stats[kd].ofrees += 1
                    try:
                        cls_(1, srv, idx).free()
                    except IndexError:
                        stats[kd].ofree_index_errors += 1
                    v = models[kd].judge_blocks(
                        (b.start, b.size) for b in allocators[kd].blocks())
                    if not v:
                        bad = (k, f'free/{v.mech}', f'{kd}: {v.detail}',
                               'address-outside-partition')
                        kind = kd
                        break
                    continue
            try:
                if r < prof['alloc'] or not live:
                    kind = rng.choice(['control', 'audio', 'buffer', 'buffer'])
                    n = reqs[kind]()
                    m, st = models[kind], stats[kind]
                    objs = None
                    consecutive = kind == 'buffer' and (n > 1 or rng.random() < 0.2)
                    ops.append((kind + ('-consecutive' if consecutive else ''), n))
                    try:
                        if kind == 'control':
                            objs = [ControlBus(n, srv)]
                            ans = objs[0].index
                        elif kind == 'audio':
                            objs = [AudioBus(n, srv)]
                            ans = objs[0].index
                        elif consecutive:
                            objs = Buffer.new_consecutive(n, 8, 1, srv)
                            ans = objs[0].bufnum
                            got = [b.bufnum for b in objs]
                            if got != list(range(ans, ans + n)):
                                bad = (k, 'buffer/consecutive-numbers-not-consecutive',
                                       f'{got}')
                                break
                        else:
                            objs = [Buffer(8, 1, srv)]
                            ans = objs[0].bufnum
                    except BusException as e:
                        if 'failed to get' not in str(e):
                            raise
                        ans = None
                    except Exception as e:
                        if type(e) is Exception and (
                                str(e).startswith('No more buffer numbers')
                                or str(e).startswith('No block of')):
                            ans = None
                        else:
                            raise
                    v = m.judge_alloc(n, ans)
                    st.allocs += 1
                    ops[-1] = ops[-1] + (ans,)
                    if ans is None:
                        st.nones += 1
                    elif v:
                        st.note_alloc_ok()
                        live.append((kind, ans, n, objs))
                    if not v:
                        bad = (k, f'alloc/{v.mech}', v.detail)
                        break
                elif r < prof['alloc'] + prof['free']:
                    kind, start, n, objs = live.pop(rng.randrange(len(live)))
                    m, st = models[kind], stats[kind]
                    if kind == 'buffer' and len(objs) == 1 and rng.random() < 0.2:
                        # the SEND of the free command fails (a completion
                        # message the OSC encoder refuses): the free must not happen by halves -
                        # afterwards the object is either fully freed (number
                        # back in the allocator, object without number) or
                        # fully intact; a half-freed object would release a
                        # number a second time on a retry
                        o = objs[0]
                        comp = rng.choice([['/b_query', 2 ** 70],
                                           ['/b_query', object()],
                                           ['/b_set', start, 0, 1e400, {}]])
                        ops.append(('buffer-free-send-fails', start))
                        st.failed_send_frees += 1
                        raised = None
                        try:
                            o.free(comp)
                        except Exception as e:       # noqa: any refusal
                            raised = e
                        released = start not in {b.start for b in
                                                 allocators['buffer'].blocks()}
                        cleared = o.bufnum is None
                        if raised is None:
                            acc.count('object_failing_sends_not_refused')
                        if released != cleared:
                            bad = (k, 'free/failed-send-leaves-buffer-half-freed',
                                   f'after {type(raised).__name__}: number {start} '
                                   f'{"returned to" if released else "still in"} the '
                                   f'allocator, object.bufnum = {o.bufnum}',
                                   'send-raises')
                            break
                        if released:
                            m.free(start)
                            dead.append((kind, o))
                        else:
                            live.append((kind, start, n, objs))
                        continue_to_judge = True
                    else:
                        continue_to_judge = False
                    if continue_to_judge:
                        pass
                    else:
                        st.note_free(m, start)
                        st.frees += 1
                        ops.append((kind + '-free', start))
                        for o in objs:    # a consecutive group is freed as a group
                            o.free()
                        m.free(start)
                        dead.append((kind, objs[0]))
                else:
                    if not dead:
                        continue
                    kind, o = rng.choice(dead)
                    m, st = models[kind], stats[kind]
                    st.dfrees += 1
                    ops.append((kind + '-double-free',))
                    o.free()
                for kd in lay:
                    v = models[kd].judge_blocks(
                        (b.start, b.size) for b in allocators[kd].blocks())
                    stats[kd].blocks += 1
                    if not v:
                        opn = 'free' if 'free' in ops[-1][0] else 'alloc'
                        bad = (k, f'{opn}/{v.mech}', f'{kd}: {v.detail}')
                        kind = kd
                        break
                if bad:
                    break
            except Exception as e:
                bad = (k, f'{"free" if "free" in ops[-1][0] else "alloc"}/raises/{_site_key(e)}',
                       short_tb(e))
                break
        nontriv = any(s.coalescing > 0 and s.alloc_after_coalescing
                      for s in stats.values())
        acc.case(h64((ml, reported, sorted(opts.items()), cid, ops)), nontrivial=nontriv)
        for kd, s in stats.items():
            _count(acc, s, lay[kd][2], prefix='object_')
            acc.count(f'object_allocs_{kd}', s.allocs)
        acc.count(f'object_histories_max_logins_{ml}')
        if cid:
            acc.count('object_histories_client_nonzero')
        if acc.want_sample() and 5 <= len(ops) <= 12 and nontriv:
            acc.sample({'case': i, 'max_logins': ml, 'reported_max_logins': reported,
                        'client': cid,
                        'options': opts, 'ops': ops})
        if bad:
            k, mech, detail = bad[:3]
            off = lay[kind][2] if kind in lay else 0
            cls = bad[3] if len(bad) > 3 else _offset_class(off)
            if reported != ml and mech.startswith(('alloc/range-leaves-partition',
                                                   'alloc/no-space-but')):
                # class of input: the server reported another max_logins than
                # the local option; partitions must follow the reported one
                mech = '/'.join(mech.split('/')[:2])
                cls = 'reported-max-logins-differs'
            acc.violation(f'C16/{mech}/{cls}',
                          {'case': i, 'surface': f'{kind} constructor',
                           'max_logins': ml, 'reported_max_logins': reported,
                           'client': cid, 'options': opts,
                           'partition(size,reserved,offset)': lay.get(kind),
                           'op_index': k, 'why': detail, 'ops': ops[-40:]})


# ---------------------------------------------------------------------------
# node ids

def run_nodeid(spec, acc):
    from sc3.base.main import main
    from sc3.base.netaddr import NetAddr
    from sc3.synth import _engine as eng
    from sc3.synth.server import Server, ServerOptions
    from sc3.synth.node import Group, Synth, ParGroup
    from vf.model_alloc import NodeIdModel, ID_SPAN

    srv = Server('vf16n', NetAddr('127.0.0.1', 57917), ServerOptions())

    for i in iter_cases(spec):
        rng = case_rng(spec['seed'], 'C16', 'nodeid', i)
        user = rng.choice([0, 1, 2, rng.randint(0, 31), 31])
        near = rng.random() < 0.8
        if near:
            window = rng.choice([2, 3, rng.randint(2, 40), rng.randint(20, 400)])
            first = ID_SPAN - window
            count = rng.randint(window, 3 * window + 5)
        else:
            first = rng.choice([1000, 2, rng.randint(2, 5000)])
            window = ID_SPAN - first
            count = rng.randint(10, 1500)
        via = rng.choice(['allocator', 'allocator', 'server', 'nodes'])
        model = NodeIdModel(user, first)
        bad = None
        ids = []
        try:
            if via == 'allocator':
                real = eng.NodeIDAllocator(user, first)
                nxt = real.alloc
            else:
                main.reset()
                ml = rng.choice([user + 1, 32, max(user + 1, 8)])
                srv.options.max_logins = ml
                srv.options.initial_node_id = first
                srv._set_client_id(user)
                if srv.client_id != user:
                    acc.mark_inconclusive('could not configure client id')
                    return
                real = srv._node_allocator
                if via == 'server':
                    nxt = srv._next_node_id
                else:
                    count = min(count, 300)
                    makers = [lambda: Group(srv).node_id,
                              lambda: Synth('default', None, srv).node_id,
                              lambda: ParGroup(srv, 'addToTail').node_id,
                              lambda: Group.basic_new(srv).node_id,
                              lambda: Synth.basic_new('default', srv).node_id]
                    nxt = lambda: rng.choice(makers)()
            for k in range(count):
                nid = nxt()
                if len(ids) < 6:
                    ids.append(nid)
                v = model.judge(nid)
                if not v:
                    bad = (k, v.mech, v.detail)
                    break
            # declared range vs the range ids really come from
            lo_decl = real.id_offset()
            hi_decl = lo_decl + real.num_ids
            acc.count('declared_range_checks')
            if not bad and model.count and not (
                    lo_decl <= model.min_id and model.max_id < hi_decl):
                bad = (count, 'declared-range-disagrees-with-id-mask',
                       f'user {user}: id_offset()={lo_decl} num_ids='
                       f'{real.num_ids} declare [{lo_decl}, {hi_decl}) but ids '
                       f'{model.min_id}..{model.max_id} were handed out')
            if not bad and via != 'allocator':
                groups = srv._default_groups
                acc.count('default_group_checks', len(groups))
                for c, g in enumerate(groups):
                    if not (c * ID_SPAN <= g.node_id < c * ID_SPAN + max(first, 2)):
                        bad = (count, 'declared-range-disagrees-with-id-mask',
                               f"default group of client {c} has id {g.node_id}, "
                               f"outside that client's permanent id zone "
                               f'[{c * ID_SPAN}, {c * ID_SPAN + first}) and '
                               f'inside the temporary id window of client '
                               f'{g.node_id // ID_SPAN}')
                        break
        except Exception as e:
            bad = (len(ids), f'raises/{_site_key(e)}', short_tb(e))
        acc.case(h64((user, first, count, via)), nontrivial=model.wraps > 0)
        acc.count('node_ids_judged', model.count)
        acc.count('node_id_wraps', model.wraps)
        acc.count(f'node_id_runs_via_{via}')
        if user:
            acc.count('node_id_runs_user_nonzero')
        if acc.want_sample() and model.wraps and via == 'nodes':
            acc.sample({'case': i, 'user': user, 'first': first, 'via': via,
                        'count': count, 'first_ids': ids})
        if bad:
            k, mech, detail = bad
            acc.violation(f'C16/nodeid/{mech}',
                          {'case': i, 'user': user, 'first_id': first,
                           'window': window, 'via': via, 'alloc_index': k,
                           'why': detail, 'first_ids': ids})


def run_shard(spec, acc):
    from vf import model_alloc
    if model_alloc.selftest():
        acc.count('model_selftest')
    kind = spec['shard']['kind']
    if kind == 'direct':
        run_direct(spec, acc)
    elif kind == 'objects':
        run_objects(spec, acc)
    else:
        run_nodeid(spec, acc)
