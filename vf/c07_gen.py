"""C07: generator of sends (messages, bundles, nested bundles, completion
bundles inside blobs) whose every message carries a unique (send id, index)
pair, and helpers to walk them.  No sc3 import."""

import copy

LATS = [None, -1, -0.25, 0, 0.0, 1e-9, 0.05, 0.2, 0.2, 1, 3]


def gen_lat(rng):
    if rng.random() < 0.8:
        return rng.choice(LATS)
    return rng.choice([rng.uniform(0, 2), rng.uniform(0, 0.01), rng.randint(0, 5)])


def _timed(L):
    return L is not None and L >= 0


def gen_send(rng, sid, p_ok=0.85, p_bundle=0.6):
    """-> ('msg', list) | ('bundle', list).  With probability p_ok nested
    bundle times never precede their parents' (the send must be accepted)."""
    ok = rng.random() < p_ok
    k = [0]

    def msg(depth):
        m = ['/c7', sid, k[0]]
        k[0] += 1
        r = rng.random()
        if r < 0.25:
            m.append(rng.choice([None, True, False, 1.5, 'str', 'é', b'abc',
                                 b'abcd', 7, [], 0.1]))
        elif r < 0.37 and depth < 2:
            m.append(bundle(depth + 1, 'top'))
        elif r < 0.44 and depth < 2:
            m.append(msg(depth + 1))
        return m

    def bundle(depth, parent):
        L = gen_lat(rng)
        if ok and parent != 'top' and _timed(parent):
            L = parent + rng.choice([0, 0, 1e-9, 0.25, 1, rng.uniform(0, 1)])
        n = rng.choice([1, 1, 2, 3])
        els = []
        for _ in range(n):
            if depth < 3 and rng.random() < 0.3:
                els.append(bundle(depth + 1, L))
            else:
                els.append(msg(depth))
        return [L] + els

    if rng.random() < p_bundle:
        return ('bundle', bundle(0, 'top'))
    return ('msg', msg(0))


def dispatched(kind, lst):
    """Messages a receiver dispatches: [(k, latency of the innermost
    enclosing bundle | 'nobundle')] (messages inside blobs are not)."""
    out = []
    if kind == 'msg':
        return [(lst[2], 'nobundle')]

    def rec(b):
        for e in b[1:]:
            if isinstance(e[0], str):
                out.append((e[2], b[0]))
            else:
                rec(e)
    rec(lst)
    return out


def has_nested(kind, lst):
    """(nested bundle elements?, bundles inside blobs?)"""
    nb = bb = False

    def m(x):
        nonlocal nb, bb
        for a in x[1:]:
            if isinstance(a, list) and a:
                if isinstance(a[0], str):
                    m(a)
                else:
                    bb = True
                    b(a, False)

    def b(x, top):
        nonlocal nb
        for e in x[1:]:
            if isinstance(e[0], str):
                m(e)
            else:
                nb = True
                b(e, False)
    (m if kind == 'msg' else lambda x: b(x, True))(lst)
    return nb, bb


def clone(x):
    return copy.deepcopy(x)


# ---- sends through the clumping paths -------------------------------------
# (NetAddr.send_clumped_bundles, `with server.bind():`, BundleNetAddr around
# a NetAddr): sets of messages whose encoded size lies below, exactly at,
# just above and far above the size of one UDP datagram.

MAX_DGRAM = 65504       # documented limit (NetAddr._MAX_UDP_DGRAM_SIZE)


def _pad4(n):
    """OSC-string of n bytes: at least one NUL, then to a multiple of 4."""
    return n + 4 - n % 4


def msg_size(m):
    """Encoded size of ['/addr', args...] by OSC 1.0 (int32, float32,
    OSC-string, OSC-blob; nothing else is generated here)."""
    n = _pad4(len(m[0].encode('utf-8'))) + _pad4(1 + len(m) - 1)
    for a in m[1:]:
        if isinstance(a, str):
            n += _pad4(len(a.encode('utf-8')))
        elif isinstance(a, (bytes, bytearray)):
            n += 4 + len(a) + (-len(a)) % 4
        else:
            assert type(a) in (int, float), a
            n += 4
    return n


def bundle_size(elements):
    """Encoded size of a bundle holding the elements (messages or
    [time, ...] bundles)."""
    n = 16
    for e in elements:
        n += 4 + (msg_size(e) if isinstance(e[0], str)
                  else bundle_size(e[1:]))
    return n


def _payload(rng, nbytes):
    """arguments that encode to exactly nbytes (a multiple of 4, >= 8) plus
    their type tags."""
    r = rng.random()
    if r < 0.7 or nbytes < 16:
        return [bytes([rng.randrange(256)]) * (nbytes - 4)]
    if r < 0.85:
        return [rng.choice([0.5, -1.25, 3.0]) if k % 2 else k
                for k in range(nbytes // 4)]
    return ['s' * (nbytes - 1 - rng.randrange(4))]


def gen_clump_send(rng, sid, size_class=None):
    """-> (path, [latency, element, ...], info).  path in
    {'clumped', 'bind', 'bind-addr'}; every message is
    ['/c7', sid, k, payload...] with k counting in send order; info =
    {'class': size class, 'raises': bool (bind blocks left by an exception:
    nothing may be sent), 'inner': per message how it enters a bind block}."""
    path = rng.choice(['clumped', 'clumped', 'bind', 'bind', 'bind-addr'])
    if size_class is None:
        size_class = rng.choice(['small', 'small', 'big', 'big', 'straddle',
                                 'straddle', 'large-message'])
    k = [0]

    def msg(payload_bytes):
        m = ['/c7', sid, k[0]] + _payload(rng, payload_bytes)
        k[0] += 1
        return m

    els = []
    if size_class == 'small':
        els = [msg(rng.choice([8, 12, 64, 400])) for _ in range(rng.randint(1, 5))]
    elif size_class == 'big':
        unit = rng.choice([1000, 4000, 4000, 7000])
        total = rng.choice([66000, 70000, 100000, 140000])
        while bundle_size(els) <= total:
            els.append(msg(unit + 4 * rng.randrange(8)))
    elif size_class == 'large-message':
        # single messages larger than the 8 kB the pieces are cut to
        for _ in range(rng.randint(1, 6)):
            els.append(msg(rng.choice([40, 4000, 8140, 8200, 12000, 30000])))
    else:
        # exactly at / one word around the limit
        target = MAX_DGRAM + rng.choice([-8, -4, 0, 0, 4, 8])
        unit = rng.choice([2000, 4000, 6000])
        while True:
            m = msg(unit)
            if bundle_size(els + [m]) + 300 > target:
                k[0] -= 1
                break
            els.append(m)
        # last message: a blob that fills the rest exactly
        m = msg(8)[:3] + [b'']
        rest = target - bundle_size(els + [m])       # > 0, multiple of 4
        m[3] = b'\x55' * rest
        els.append(m)
        assert bundle_size(els) == target, (bundle_size(els), target)
    if path == 'clumped' and rng.random() < 0.15:
        # a nested bundle as element (its own latency lies well after the
        # nanoseconds added to the pieces, or the outer one is 'immediately')
        p = rng.randrange(len(els) + 1)
        els.insert(p, ['nested', [msg(16), msg(8)]])
        # (k is renumbered below: order of ids = order of elements)
    # renumber in element order
    n = 0
    for e in els:
        for m in (e[1] if e[0] == 'nested' else [e]):
            m[2] = n
            n += 1
    L = gen_lat(rng) if path != 'bind-addr' else None
    if path != 'clumped':
        L = rng.choice([0, 0.0, 0.2, 0.05, None, -1, 1, L])
    if path == 'bind-addr':
        L = None            # BundleNetAddr around a NetAddr: immediately
    out = []
    for e in els:
        if e[0] == 'nested':
            L2 = rng.choice([0.0, 0.3]) if (L is None or L < 0) \
                else L + rng.choice([0.25, 1])
            out.append([L2] + e[1])
        else:
            out.append(e)
    info = {'class': size_class,
            'raises': path != 'clumped' and rng.random() < 0.06,
            'inner': [rng.choice(['msg', 'msg', 'msg', 'bundle', 'clumped'])
                      for _ in out]}
    return path, [L] + out, info
