"""C12 real-time shard with concurrent readers.

Tasks scheduled on TempoClocks at known beats - plain functions (sched_abs and
rescheduling by returned deltas), routines, and functions / routines played
with a quant from a routine on the clock - read clock.beats / clock.seconds at
the start of their wake-up and again after a few statements (and sometimes a
short sleep that lets other threads run).  Meanwhile 1-2 ordinary threads poll
clock.beats / clock.seconds / SystemClock.seconds in a tight loop (a beat
display), with sys.monitoring yield injection on the main time thread's
`_seconds` getter, RtMain._update_logical_time and the TempoClock run loop and
a 50 us switch interval.

Error paths followed by continued use: every few ticks the periodic tasks
schedule a one-shot task an eighth of a period later that reads the clock like
the others and then ends badly (a function or a routine raising an exception,
raising StopStream, handing back a non-delta); the clock logs and goes on.  The
wake-up that runs next - on this or another clock - is judged like every
other; a deviation there is keyed '.../right-after-task-ending-with-<how>'.

Oracle: during a wake-up scheduled for beat b every reading of clock.beats is b
(1e-9 relative + 1e-9 absolute: b went through beats -> seconds -> beats), for a
quantised task b is the grid point the reference oracle (vf/c12_model.py)
allows for the reference beat of the play() call; clock.seconds is the second
of that beat.  Expected beats are accumulated arithmetically by the harness
(start + k * delta), never read back from the clock.
"""

import math
import sys
import threading
import time

from vf import c12_model as M
from vf.common import iter_cases, case_rng, h64, derive_seed

KEY = 'C12/beats-differ-inside-wakeup/concurrent-reader'
KEY_AFTER = 'C12/beats-differ-inside-wakeup/right-after-task-ending-with-'
FAULTS = ['function:raise', 'routine:raise', 'function:stopstream',
          'routine:value', 'function:value']


def tol(e):
    return 1e-9 * max(1.0, abs(e)) + 1e-9


class Round:
    def __init__(self, rng, sc, counts):
        self.rng = rng
        self.sc = sc
        self.counts = counts
        self.bad = None
        self.wake_seq = [0]
        self.pending = [0]
        self.stop = False
        self.clocks = []
        self.desc = []
        self.prev_end = 'return'    # how the event just before this one ended

    def take_prev(self):
        prev, self.prev_end = self.prev_end, 'return'
        return prev

    def n(self, k, v=1):
        self.counts[k] = self.counts.get(k, 0) + v

    # readings during one wake-up -----------------------------------------
    def readings(self, clk, work):
        out = [('beats at wake', clk.beats)]
        x = 0
        for i in range(work):          # "a few statements"
            x += i * i
        if work % 3 == 0:
            time.sleep(0.0002)         # lets other threads run (the clock
                                       # thread keeps the main lock)
        out.append(('beats after work', clk.beats))
        s = clk.seconds
        out.append(('secs2beats(seconds)', clk.secs2beats(s)))
        return out, s

    def judge(self, kind, clk, expected, reads, secs, extra=None,
              prev='return'):
        self.n('wakeups_checked')
        self.n('wakeups_checked_' + kind)
        self.n('beat_reads_inside_wakeups', len(reads))
        if prev != 'return':
            self.n('wakeups_checked_right_after_' + prev)
            extra = dict(extra or {}, previous_event_ended_with=prev,
                         key=KEY_AFTER + prev)
        for what, got in reads:
            if abs(got - expected) > tol(expected):
                if self.bad is None:
                    self.bad = dict(task=kind, scheduled_beat=expected,
                                    reading=what, got=got,
                                    off_by=got - expected, tempo=clk.tempo,
                                    all_readings=reads, seconds=secs)
                    if extra:
                        self.bad.update(extra)
                return False
        want_s = clk.beats2secs(expected)
        if abs(secs - want_s) > tol(want_s) + tol(expected) / clk.tempo:
            if self.bad is None:
                self.bad = dict(task=kind, scheduled_beat=expected,
                                reading='seconds', got=secs, want=want_s,
                                off_by=secs - want_s, tempo=clk.tempo)
                if extra:
                    self.bad.update(extra)
            return False
        return True

    # task factories ------------------------------------------------------
    def sched_failing(self, clk, beat, how, work):
        """One-shot task on `beat` that reads the clock and then ends badly."""
        me = self
        self.pending[0] += 1
        shape, _, end = how.partition(':')

        def body(c):
            me.wake_seq[0] += 1
            prev = me.take_prev()
            reads, s = me.readings(c, work)
            me.judge('ending-badly', c, beat, reads, s, prev=prev)
            me.pending[0] -= 1
            me.n('tasks_ending_with_' + end)
            me.prev_end = end
            if end == 'raise':
                raise RuntimeError('C12 user code failing')
            if end == 'stopstream':
                raise me.sc.StopStream
            return 'not a delta'

        if shape == 'routine':
            def rbody(inval):
                v = body(inval[1])
                yield v
            task = self.sc.Routine(rbody)
        else:
            def task(fn, c):
                return body(c)
        clk.sched_abs(beat, task)

    def make_func(self, clk, start, delta, ticks, work, faults=()):
        st = {'e': start, 'k': 0}
        self.pending[0] += 1

        def tick():
            self.wake_seq[0] += 1
            prev = self.take_prev()
            reads, s = self.readings(clk, work)
            ok = self.judge('function', clk, st['e'], reads, s, prev=prev)
            if ok and faults and st['k'] % 5 == 2 and st['k'] < ticks - 2:
                self.sched_failing(clk, st['e'] + delta / 8,
                                   faults[(st['k'] // 5) % len(faults)], work)
            st['k'] += 1
            st['e'] = st['e'] + delta       # the clock's own arithmetic
            if not ok or st['k'] >= ticks or self.stop:
                self.pending[0] -= 1
                self.prev_end = 'value'     # no delta: not rescheduled
                return None
            return delta
        return tick

    def make_quant_task(self, clk, q, p, ref, as_routine, work):
        self.pending[0] += 1
        me = self

        def body(*_):
            me.wake_seq[0] += 1
            prev = me.take_prev()
            reads, s = me.readings(clk, work)
            b1 = reads[0][1]
            me.pending[0] -= 1
            why = M.grid_check(b1, q, p, ref, 0.0, tol(b1))
            kind = 'quant-routine' if as_routine else 'quant-function'
            if why:
                me.n('wakeups_checked')
                me.n('wakeups_checked_' + kind)
                if me.bad is None:
                    me.bad = dict(task=kind, quant=q, phase=p,
                                  reference_beat=ref, reading=reads[0][0],
                                  got=b1, grid=why[1], tempo=clk.tempo,
                                  all_readings=reads)
                    if prev != 'return':
                        me.bad.update(previous_event_ended_with=prev,
                                      key=KEY_AFTER + prev)
                return
            pp = p if p >= 0 else p + q
            g = round((b1 - pp) / q) * q + pp
            me.judge(kind, clk, g, reads, s,
                     dict(quant=q, phase=p, reference_beat=ref), prev=prev)
        if as_routine:
            def rbody(inval):
                body()
            return self.sc.Routine(rbody)
        return body

    def make_routine(self, clk, start, delta, ticks, work, quants):
        self.pending[0] += 1
        me = self
        Quant = self.sc.Quant

        def gen(inval):
            _, c = inval
            e = start
            for k in range(ticks):
                me.wake_seq[0] += 1
                prev = me.take_prev()
                reads, s = me.readings(c, work)
                ok = me.judge('routine', c, e, reads, s, prev=prev)
                if not ok or me.stop:
                    break
                if quants and k % 4 == 1 and k < ticks - 8:
                    q, p = quants[(k // 4) % len(quants)]
                    as_r = (k // 4) % 2 == 1
                    t = me.make_quant_task(c, q, p, e, as_r, work + 1)
                    if as_r:
                        t.play(c, Quant(q, p))
                    else:
                        c.play(t, Quant(q, p))
                e = e + delta
                yield delta
            me.pending[0] -= 1
            me.prev_end = 'gen-end'     # runs off its end
        return self.sc.Routine(gen)

    # ----------------------------------------------------------------------
    def start(self):
        rng, sc = self.rng, self.sc
        for _ in range(rng.choice([1, 2, 2, 3])):
            tempo = rng.choice([20, 40, 64.0, 100, rng.uniform(20, 120)])
            clk = sc.TempoClock(tempo, rng.choice([None, 0, 7.5, -3,
                                                   rng.uniform(-100, 100)]))
            self.clocks.append(clk)
            delta = rng.choice([0.25, 0.125, 0.5, 1 / 3, rng.uniform(0.1, 0.6)])
            ticks = max(8, int(rng.uniform(0.25, 0.5) * tempo / delta))
            quants = [(rng.choice([1, 2, 0.5, 1.5, 4]), 0)]
            q = rng.choice([1, 2, 0.5, 3])
            quants.append((q, rng.choice([0.5, 0.25, -0.25, -0.5]) * q))
            with sc.main._main_lock:
                start = math.ceil(clk.beats) + math.ceil(0.05 * tempo) + 1.0
                faults = rng.sample(FAULTS, 3) + ['function:raise']
                clk.sched_abs(start, self.make_func(
                    clk, start, delta, ticks, rng.randint(1, 9), faults))
                clk.sched_abs(start + delta / 2, self.make_func(
                    clk, start + delta / 2, delta, ticks, rng.randint(1, 9)))
                clk.sched_abs(start + delta / 4, self.make_routine(
                    clk, start + delta / 4, delta, ticks, rng.randint(1, 9),
                    quants))
            self.desc.append(dict(tempo=tempo, delta=delta, ticks=ticks,
                                  start=start, quants=quants, faults=faults))


def run_rtc(spec, acc, sc):
    from vf.inject import Injector, func_code
    from sc3.base import stream as stm
    from sc3.base.clock import SystemClock
    cfg = spec['shard']
    seed = derive_seed(spec['seed'], 'C12', cfg['name'], spec.get('attempt', 0))
    codes = [stm._MainTimeThread._seconds.fget.__code__,
             func_code(sc.main._update_logical_time),
             func_code(sc.TempoClock._run)]
    inj = Injector(codes, seed)
    inj.p_yield = cfg.get('p_yield', 0.2)
    inj.max_sleep = 0.0005
    inj.start()
    old_switch = sys.getswitchinterval()
    sys.setswitchinterval(5e-5)
    counts = {}
    deadline = time.time() + cfg.get('secs', 12)
    try:
        for i in iter_cases(spec):
            if time.time() > deadline:
                break
            rng = case_rng(spec['seed'], 'C12', 'rtc', i)
            rnd = Round(rng, sc, counts)
            nreaders = rng.choice([1, 2, 2])
            rstats = {'reads': 0, 'overlap': 0}
            rnd.start()
            clocks = list(rnd.clocks)

            def reader(k):
                seq = rnd.wake_seq
                j = k
                reads = overlap = 0
                while not rnd.stop:
                    c = clocks[j % len(clocks)]
                    s0 = seq[0]
                    m = j % 3
                    if m == 0:
                        c.beats
                    elif m == 1:
                        c.seconds
                    else:
                        SystemClock.seconds
                    if seq[0] != s0:
                        overlap += 1      # a wake-up began during this read
                    reads += 1
                    j += 1
                rstats['reads'] += reads
                rstats['overlap'] += overlap
            rts = [threading.Thread(target=reader, args=(k,), daemon=True)
                   for k in range(nreaders)]
            for t in rts:
                t.start()
            t_end = time.time() + 8.0
            while time.time() < t_end and rnd.pending[0] > 0 \
                    and rnd.bad is None:
                time.sleep(0.01)
            unfinished = rnd.pending[0] > 0 and rnd.bad is None
            rnd.stop = True
            for t in rts:
                t.join(2)
            for c in clocks:
                try:
                    c.stop()
                except Exception:
                    pass
            acc.case(h64(repr(rnd.desc)), nontrivial=rstats['overlap'] > 0)
            acc.count('rtc_rounds')
            acc.count('rtc_reader_reads', rstats['reads'])
            acc.count('rtc_reader_reads_overlapping_a_wakeup', rstats['overlap'])
            if unfinished:
                acc.count('rtc_rounds_unfinished')
            if rnd.bad is not None:
                acc.violation(rnd.bad.pop('key', KEY),
                              {'case': i, 'round': rnd.desc,
                                    'readers': nreaders, 'detail': rnd.bad})
            elif acc.want_sample():
                acc.sample({'case': i, 'round': rnd.desc, 'readers': nreaders,
                            'reader_reads': rstats['reads'],
                            'reads_overlapping_a_wakeup': rstats['overlap']})
    finally:
        inj.stop()
        sys.setswitchinterval(old_switch)
    for k, v in counts.items():
        acc.count('rtc_' + k, v)
    acc.count('rtc_injected_yields', inj.injected)
    if not acc.counters.get('rtc_reader_reads_overlapping_a_wakeup'):
        acc.mark_inconclusive('no reader read overlapped a wake-up')
