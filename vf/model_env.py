"""Independent reference model of segmented envelopes (does NOT import sc3).

Written from the server-side documentation of EnvGen / Env:

  EnvGen envelope array =
      [ initial level, number of segments, release node | -99, loop node | -99,
        (target level, duration, shape number, curvature) * segments ]

  shape numbers understood by the server:
      0 step   1 linear   2 exponential   3 sine   4 welch
      5 "curvature value" (the curve is a number)   6 squared   7 cubed   8 hold

  names accepted by the client (Env documentation): 'step', 'lin'/'linear',
  'exp'/'exponential', 'sin'/'sine', 'wel'/'welch', 'sqr'/'squared',
  'cub'/'cubed', 'hold'; a number means shape 5 with that curvature, names
  have curvature 0.

  `times` and `curves` shorter than the number of segments are extended by
  wrapping around; a scalar stands for a one element list.

Multichannel: when an item of levels / times / curves is itself a list the
envelope has as many channels as the longest inner list and channel c takes
item[c % len] (names, numbers or both inside a nested curves entry).

Signals: inside a synthesis definition every numeric field of an envelope
(levels, times, curvatures, release / loop node, offset) may be the output of a
unit generator instead of a number ("levels can be any ugen", controls for
times and curvatures).  The model represents such a value by an opaque `Sig`
placeholder; arithmetic a constructor is documented to do with its parameters
(half the duration, peak * sustain + bias, the sum of the times) yields `Expr`
trees.  A signal in `curves` is a curvature: shape 5 with that very signal as
the curvature value.  `evaluate(x, env)` replaces every placeholder by the
number `env[tag]`.

The second half are *predicates* for client-side evaluation (`value_ok`): they
do not recompute segment shapes, they state what the property states - levels
at the breakpoints, between the neighbouring levels inside a segment, last
level afterwards.
"""

import math
import struct

SHAPE_NUMBERS = {
    'step': 0,
    'lin': 1, 'linear': 1,
    'exp': 2, 'exponential': 2,
    'sin': 3, 'sine': 3,
    'wel': 4, 'welch': 4,
    'sqr': 6, 'squared': 6,
    'cub': 7, 'cubed': 7,
    'hold': 8,
}
CURVE_SHAPE = 5
ABSENT = -99

DISCONTINUOUS = (0, 8)


def f32(x):
    return struct.unpack('>f', struct.pack('>f', float(x)))[0]


def is_number(x):
    return isinstance(x, (int, float)) and not isinstance(x, bool)


class Signal:
    """Base of the placeholders for unit generator outputs; arithmetic builds
    expression trees (what the documented constructor arithmetic amounts to)."""
    __slots__ = ()

    def __add__(self, o): return Expr('+', self, o)
    def __radd__(self, o): return Expr('+', o, self)
    def __sub__(self, o): return Expr('-', self, o)
    def __rsub__(self, o): return Expr('-', o, self)
    def __mul__(self, o): return Expr('*', self, o)
    def __rmul__(self, o): return Expr('*', o, self)
    def __truediv__(self, o): return Expr('/', self, o)
    def __rtruediv__(self, o): return Expr('/', o, self)
    def __neg__(self): return Expr('-', 0, self)
    __hash__ = object.__hash__


class Sig(Signal):
    """A signal the caller hands to the envelope: tag names it."""
    __slots__ = ('tag',)

    def __init__(self, tag):
        self.tag = tag

    def __repr__(self):
        return f'<{self.tag}>'


class Expr(Signal):
    __slots__ = ('op', 'a', 'b')

    def __init__(self, op, a, b):
        self.op, self.a, self.b = op, a, b

    def __repr__(self):
        return f'({self.a!r} {self.op} {self.b!r})'


def is_signal(x):
    return isinstance(x, Signal)


def has_signal(x):
    if isinstance(x, (list, tuple)):
        return any(has_signal(y) for y in x)
    return is_signal(x)


def evaluate(x, env):
    """Number for a number / placeholder / expression (lists element-wise)."""
    if isinstance(x, list):
        return [evaluate(y, env) for y in x]
    if isinstance(x, Sig):
        return env[x.tag]
    if isinstance(x, Expr):
        a, b = evaluate(x.a, env), evaluate(x.b, env)
        if x.op == '+': return a + b
        if x.op == '-': return a - b
        if x.op == '*': return a * b
        return a / b
    return x


def shape_of(curve):
    if is_number(curve) or is_signal(curve):
        return CURVE_SHAPE, curve
    return SHAPE_NUMBERS[curve], 0


def as_list(x):
    return list(x) if isinstance(x, list) else [x]


def wrap_to(lst, n):
    return [lst[i % len(lst)] for i in range(n)]


def channels_of(levels, times, curves=()):
    n = 1
    for x in list(levels) + list(times) + list(curves):
        if isinstance(x, list):
            n = max(n, len(x))
    return n


def pick(x, c):
    return x[c % len(x)] if isinstance(x, list) else x


def encode(levels, times, curves='lin', release_node=None, loop_node=None):
    """-> list (one per channel) of flat lists in the EnvGen array layout.
    Items of levels, times and curves may themselves be lists (one entry per
    channel, wrapped)."""
    nseg = len(levels) - 1
    times = wrap_to(as_list(times), nseg)
    curves = wrap_to(as_list(curves), nseg)
    out = []
    for c in range(channels_of(levels, times, curves)):
        lv = [pick(x, c) for x in levels]
        tm = [pick(x, c) for x in times]
        arr = [lv[0], nseg,
               ABSENT if release_node is None else release_node,
               ABSENT if loop_node is None else loop_node]
        for i in range(nseg):
            shape, curv = shape_of(pick(curves[i], c))
            arr += [lv[i + 1], tm[i], shape, curv]
        out.append(arr)
    return out


def encode_interpolation(levels, times, curves='lin', offset=0):
    """IEnvGen array (IEnvGen documentation): [offset, initial level, number of
    segments, total duration, (duration, shape, curvature, target level) *
    segments], one list per channel."""
    nseg = len(levels) - 1
    times = wrap_to(as_list(times), nseg)
    curves = wrap_to(as_list(curves), nseg)
    out = []
    for c in range(channels_of(levels, times, curves)):
        lv = [pick(x, c) for x in levels]
        tm = [pick(x, c) for x in times]
        total = 0
        for x in tm:
            total = total + x
        arr = [0 if offset is None else offset, lv[0], nseg, total]
        for i in range(nseg):
            shape, curv = shape_of(pick(curves[i], c))
            arr += [tm[i], shape, curv, lv[i + 1]]
        out.append(arr)
    return out


def segments(arr):
    """Decode one channel's array -> (l0, [(level, dur, shape, curve)...])."""
    n = arr[1]
    return arr[0], [tuple(arr[4 + 4 * i: 8 + 4 * i]) for i in range(n)]


def same_arrays(got, exp, rel=1e-12):
    """Compare encodings (lists of channels).  Returns None or a description
    (column name of the first difference) used in mechanism keys."""
    if len(got) != len(exp):
        return 'channel-count'
    for g, e in zip(got, exp):
        if len(g) != len(e):
            return 'length'
        for k, (a, b) in enumerate(zip(g, e)):
            if not is_number(a) or not _close(a, b, rel):
                return column_name(k)
    return None


def column_name(k):
    if k < 4:
        return ('initial-level', 'segment-count', 'release-node',
                'loop-node')[k]
    return ('level', 'time', 'shape', 'curve')[(k - 4) % 4]


def interpolation_column_name(k):
    if k < 4:
        return ('offset', 'initial-level', 'segment-count',
                'total-duration')[k]
    return ('time', 'shape', 'curve', 'level')[(k - 4) % 4]


def _close(a, b, rel):
    if a == b:
        return True
    return abs(a - b) <= rel * max(abs(a), abs(b), 1e-300)


# -- evaluation predicates ---------------------------------------------------

def breakpoints(durs):
    t = 0.0
    out = [t]
    for d in durs:
        t += d
        out.append(t)
    return out


def exact_times(durs, ts=()):
    """True when all durations/times are multiples of 2**-16 below 2**20, so
    that every sum and difference an implementation may form is exact (36
    significant bits at most)."""
    for d in list(durs) + list(ts):
        x = d * 65536.0
        if x != math.floor(x) or abs(d) >= 2.0 ** 20:
            return False
    return True


def level_tolerance(levels, shapes):
    """Absolute tolerance on a value: 1e-9 of the largest level for rounding in
    double precision; the cubed shape is specified (server and class library)
    with the single precision constant 0.3333333 for the cube root, which is
    2.1e-7 relative - accept float32 resolution (1e-6 relative) there."""
    scale = max(1.0, max(abs(x) for x in levels))
    rel = 1e-6 if 7 in shapes else 1e-9
    return rel * scale


def value_ok(levels, durs, shapes, t, v, exact):
    """Is `v` an allowed value of the envelope (one channel; t already counted
    from the envelope start, t >= 0)?  Returns (ok, where, why).

    where in {'breakpoint', 'inside', 'after', 'near-breakpoint'}.
    """
    if not is_number(v) or v != v:
        return False, 'any', f'not a number: {v!r}'
    bp = breakpoints(durs)
    n = len(durs)
    tol = level_tolerance(levels, shapes)
    total = bp[-1]
    # time resolution: breakpoints are sums of floats
    teps = 8 * 2.2e-16 * max(1.0, abs(t), total)
    if t >= total + teps or (t >= total and exact):
        return abs(v - levels[-1]) <= tol, 'after', f'last level {levels[-1]}'
    # index of an (almost) hit breakpoint
    hit = [k for k in range(n + 1) if abs(t - bp[k]) <= (0.0 if exact else teps)]
    if hit:
        lo_k, hi_k = hit[0], hit[-1]
        # the envelope is continuous at this time unless a step / hold segment
        # ends or starts here or zero-length segments make it jump
        if exact or (lo_k == hi_k and not any(
                shapes[k] in DISCONTINUOUS
                for k in range(max(0, lo_k - 1), min(n, hi_k + 1)))):
            # all segments between the hit breakpoints have zero length; the
            # envelope is at the last of them, about to start segment hi_k
            if hi_k == n:
                want = levels[n]
            elif shapes[hi_k] == 0:         # step: jumps at segment start
                want = levels[hi_k + 1]
            else:
                want = levels[hi_k]
            if exact:
                return abs(v - want) <= tol, 'breakpoint', f'level {want}'
            # not exact: the time may be a rounding error before/after the
            # breakpoint; with continuous shapes the value is within the slope
            # times the time error of `want`
            slope = 0.0
            for k in (lo_k - 1, hi_k):
                if 0 <= k < n and durs[k] > 0:
                    slope = max(slope, _max_slope(levels[k], levels[k + 1],
                                                  durs[k], shapes[k]))
            return (abs(v - want) <= tol + slope * 4 * teps, 'breakpoint',
                    f'level {want}')
        ks = range(max(0, lo_k - 1), min(n, hi_k + 1) + 1)
        lo = min(levels[k] for k in ks)
        hi = max(levels[k] for k in ks)
        return lo - tol <= v <= hi + tol, 'near-breakpoint', f'[{lo}, {hi}]'
    # strictly inside segment j
    for j in range(n):
        if bp[j] < t < bp[j + 1]:
            lo = min(levels[j], levels[j + 1])
            hi = max(levels[j], levels[j + 1])
            return lo - tol <= v <= hi + tol, 'inside', f'[{lo}, {hi}]'
    return True, 'unclassified', ''


def _max_slope(a, b, dur, shape):
    """Upper bound of |d value / d time| near the ends of a segment."""
    d = abs(b - a) / dur
    if shape == 1:
        return d
    if shape == 2:
        r = abs(math.log(abs(b / a))) if a and b else 0.0
        return max(abs(a), abs(b)) * r / dur
    if shape in (3, 4):
        return d * math.pi
    if shape == CURVE_SHAPE:
        return d * 64.0          # |curve| <= 30 in the generators: <= c/(1-e^-c)
    if shape in (6, 7):
        return 3 * (abs(a) + abs(b) + d * dur) / dur
    return d
