"""C18 history workload: random interleavings of responder creation / enable /
disable / one_shot / free / function replacement / permanent / CmdPeriod.run()
(also performed from inside callbacks) with incoming messages and bundles,
checked message by message against vf.model_dispatch.DispatchModel.

Round 8, two classes the histories did not reach:

* What a template predicate is evaluated WITH.  The function items of
  arg_template are recording predicates (real_template): every evaluation must
  have been given the argument of a message of the datagram at the predicate's
  own position (documentation: 'evaluated with the corresponding message's
  value at the same position') - never padding for an argument the message does
  not have, a neighbouring argument or the address.  Some predicates are written
  the way users write them (`x > 2`: TypeError for anything that is no OSC
  value), so a foreign value also shows as an exception inside the dispatch.

* An error path followed by continued use: responder creation that FAILS
  (receive port held by another program, port number out of range / negative /
  not an int, empty or non-str path; through the constructor, .matching, the
  decorator and dispatcher instances; at top level and from inside callbacks),
  then the history goes on: the other program goes away and the same creation
  is tried again (or is tried again while the port is still taken), messages
  are sent to the port the library has opened by then, the responder is freed,
  the port closed.  A failed construction must leave nothing registered
  (check_failed_residue: class listing, dispatchers, CmdPeriod), its function
  must never be invoked afterwards, and the port of a responder whose creation
  succeeded receives a loop-back datagram (probe: a failed attempt must not
  leave the port half registered either)."""

from . import osc
from . import c18_gen as gen
from .c18_rig import same_value
from .common import short_tb
from .c18_rig import tb_sites, exc_name
from .model_dispatch import PREDICATES, PatternError, well_formed, pattern_key


class Stop(Exception):
    """First violation of a history: the model may have diverged, stop."""


class InjectedFault(Exception):
    """Raised on purpose by a responder function of the workload."""


class DecoratorResult(Exception):
    """@oscfunc(...) returned something that is not an OscFunc."""


class InjectedValueError(InjectedFault, ValueError):
    pass


class InjectedKeyError(InjectedFault, KeyError):
    pass


STATUS_REPLY = '/status.reply'
# the recv_port handed to a receive function / responder is not the port the
# datagram arrived on (kernel's view of the interface's socket)
PORT_KEY = 'C18/recv-port/not-the-port-the-datagram-arrived-on'

FAULTS = {'Exception': InjectedFault, 'ValueError': InjectedValueError,
          'KeyError': InjectedKeyError}
INJECTED_PREFIX = 'vf.c18_hist.Injected'


# Predicates as users write them (`lambda x: x > 2`): defined on the values an
# OSC message can carry, TypeError on anything else (None, a padding object).
STRICT_PREDICATES = {'gt2', 'even', 'lt5'}
OSC_VALUE_TYPES = (int, float, str, bytes, bool)

# Creations that have to fail (round 8).  reason class -> what is handed over.
FAIL_KINDS = {'port-in-use': 'recv-port-cannot-be-opened',
              'port-out-of-range': 'recv-port-cannot-be-opened',
              'port-negative': 'recv-port-cannot-be-opened',
              'port-not-int': 'recv-port-cannot-be-opened',
              'path-empty': 'invalid-path', 'path-not-str': 'invalid-path'}
FAIL_CHOICES = ['port-in-use'] * 5 + ['port-out-of-range', 'port-negative',
                                      'port-not-int', 'path-empty', 'path-not-str']


def real_template(t, rid=None, sink=None):
    """Template as handed to the library.  Function items are recording
    predicates: every evaluation is reported to sink(rid, position, name,
    value) before the (total) predicate of the model is applied; the
    STRICT_PREDICATES raise TypeError for a value no OSC message carries."""
    if t is None:
        return None

    def pred(pos, name):
        f = PREDICATES[name]

        def predicate(value):
            if sink is not None:
                sink((rid, pos, name, value))
            if name in STRICT_PREDICATES and not isinstance(value, OSC_VALUE_TYPES):
                raise TypeError(f"'>' not supported between instances of "
                                f"'{type(value).__name__}' and 'int'")
            return f(value)
        return predicate
    return [None if it is None else it[1] if it[0] == 'val' else pred(pos, it[1])
            for pos, it in enumerate(t)]


class HistoryRunner:
    def __init__(self, rig, model, rng, acc, case, udp=False, ports=()):
        self.rig, self.model, self.rng, self.acc, self.case = rig, model, rng, acc, case
        self.udp = udp
        if udp:
            self.senders = [rig.udp_client()]
            self.src_pool = [self.senders[0], ('127.0.0.1', 1), ('127.0.0.2', None),
                             ('127.0.0.1', None)]
            self.ports = [rig.port]
        else:
            self.senders = list(gen.SENDERS)
            self.src_pool = [(ip, rng.choice([p, None])) for ip, p in gen.SENDERS]
            self.ports = [rig.port] + list(ports)
        self.objs = {}
        self.disps = {}          # (kind, n) -> dispatcher instance of this history
        self.trace = None        # None | 'show' | 'hide'  (OscFunc.trace)
        self.server_addr = rig.server_addr
        self.real_fver = {}
        self.real_freed = set()
        self.armed = {}          # holder rid -> op
        self.fault_plan = {}     # rid -> (set of invocation numbers that raise, exc name)
        self.inv_no = {}         # rid -> invocations so far
        self.next_rid = 0
        self.failed = {}         # rid -> reason class of a creation that failed
        self.residue_todo = []   # (rid, callback, reason): look for what it left
        self.failed_cbs = []
        self.probe_todo = []     # (port, was held by another program before)
        self.was_blocked = set()
        self.blockers = {}       # port -> socket of 'another program' holding it
        self.opened_ports = []   # ports the library opened for this history
        self.pred_sink = rig.pred.append
        self.ports_usable = True   # messages can be sent to ports opened later
        self.log = []            # the history, for witnesses
        self.feat = {'messages': 0, 'expected_inv': 0, 'state_ops': 0,
                     'negatives': 0, 'in_cb_ops': 0, 'bundles': 0,
                     'pattern_msgs': 0, 'short_msgs': 0, 'failed': 0}
        base = rng.choice(gen.HIST_PATHS)
        self.paths = sorted(set([base] + gen.related_paths(rng, base)
                                + rng.sample(gen.HIST_PATHS, 3)))
        if rng.random() < 0.3:
            self.paths.append(STATUS_REPLY)     # what trace(hide_status=True) hides
        rig.on_invoke = self._on_invoke

    # ------------------------------------------------------------ real side
    def make_cb(self, rid, ver, nparams):
        return self.rig.make_cb(rid, ver, nparams)

    def _new_spec(self):
        rng = self.rng
        live = [r for r in self.model.resps.values() if not r.freed]
        if live and rng.random() < 0.45:
            path = rng.choice(live).path        # share a path: order matters
        else:
            path = rng.choice(self.paths)
        spec = {'rid': self.next_rid,
                'kind': rng.choice(['exact', 'exact', 'match']),
                'path': path,
                'src': rng.choice(self.src_pool) if rng.random() < 0.25 else None,
                'recv_port': rng.choice(self.ports) if rng.random() < 0.2 else None,
                'template': gen.rand_template(rng),
                'nparams': rng.choice([4, 4, 4, 'var', 3, 2, 1])}
        if rng.random() < 0.1:
            spec['path_arg'] = path[1:]     # documented: a leading '/' is added
        if rng.random() < 0.2:
            spec['disp'] = 1                # documented constructor parameter
        if rng.random() < 0.25:
            spec['via'] = 'decorator'       # @oscfunc(path, matching=..., **kwargs)
        if rng.random() < 0.22:
            # fault sequence: the function raises on its k-th invocation(s)
            spec['raises'] = [rng.choice([[1], [1], [2], [1, 2], [1, 3], list(range(1, 40))]),
                              rng.choice(sorted(FAULTS))]
        if rng.random() < self.P_FAIL:
            self._make_failing(spec, rng.choice(FAIL_CHOICES))
        self.next_rid += 1
        return spec

    P_FAIL = 0.06

    def _make_failing(self, spec, kind):
        """A creation that cannot succeed: the receive port is held by another
        program / is no port number, or the path is no path."""
        spec['fail'] = kind
        if kind == 'port-in-use':
            try:
                port, sock = self.rig.block_port()
            except OSError:
                spec.pop('fail')
                return
            self.blockers[port] = sock
            self.was_blocked.add(port)
            spec['recv_port'] = port
        elif kind == 'port-out-of-range':
            spec['recv_port'] = self.rng.choice([65536, 70000, 1 << 20])
        elif kind == 'port-negative':
            spec['recv_port'] = self.rng.choice([-1, -57120])
        elif kind == 'port-not-int':
            spec['recv_port'] = self.rng.choice(['57120', 57120.5])
        elif kind == 'path-empty':
            spec['path_arg'] = ''
        else:
            spec['path_arg'] = self.rng.choice([None, 7, b'/a'])

    def _retry_spec(self, spec):
        """The same creation once more (the obstacle is gone)."""
        again = {k: v for k, v in spec.items() if k not in ('fail', 'raises')}
        again['rid'] = self.next_rid
        self.next_rid += 1
        return again

    def release_port(self, port):
        sock = self.blockers.pop(port, None)
        if sock is not None:
            sock.close()

    def _real_create(self, spec):
        """-> created?  A creation that is meant to fail (spec['fail']) and
        raises leaves nothing behind (checked by check_failed_residue and by
        every later message: its function must never be invoked)."""
        if not spec.get('fail'):
            self._construct(spec)
            return True
        kind = spec['fail']
        reason = FAIL_KINDS[kind]
        try:
            self._construct(spec)
        except DecoratorResult:
            raise
        except Exception as e:
            self.failed[spec['rid']] = reason
            self.failed_cbs.append(self._last_cb)
            self.residue_todo.append((spec['rid'], self._last_cb, reason))
            self.feat['failed'] += 1
            self.acc.count('failed_creations')
            self.acc.count(f'failed_creations/{kind}/{exc_name(e)}')
            return False
        # it did not fail
        self.acc.count('observed_creation_expected_to_fail_succeeded/' + kind)
        if kind == 'port-in-use':
            return True          # a responder like any other
        obj = self.objs.pop(spec['rid'])
        obj.free()               # outside the documented domain: not followed
        self.failed[spec['rid']] = reason + '/accepted-then-freed'
        return False

    def _construct(self, spec):
        from sc3.base.responders import OscFunc
        from sc3.base.netaddr import NetAddr
        rid = spec['rid']
        if spec.get('raises'):
            self.fault_plan[rid] = (set(spec['raises'][0]), spec['raises'][1])
        src = NetAddr(spec['src'][0], spec['src'][1]) if spec['src'] else None
        self.real_fver[rid] = 0
        cb = self._last_cb = self.make_cb(rid, 0, spec['nparams'])
        path = spec.get('path_arg', spec['path'])
        tmpl = real_template(spec['template'], rid, self.pred_sink)
        disp = None
        if spec.get('disp'):
            disp = self._dispatcher(spec['kind'], spec['disp'])
        if spec.get('via') == 'decorator':
            from sc3.base.responders import oscfunc
            if self.rng.random() < 0.05:
                # @oscfunc without its path argument (documented misuse):
                # observed only, it must not leave a responder behind (the
                # listings and the dispatch model would notice one)
                try:
                    oscfunc(cb)
                    self.acc.count('observed_decorator_without_path/returned')
                except ValueError:
                    self.acc.count('observed_decorator_without_path/raises-ValueError')
            kw = {}
            if src is not None or self.rng.random() < 0.5:
                kw['src_id'] = src
            if spec['recv_port'] is not None or self.rng.random() < 0.5:
                kw['recv_port'] = spec['recv_port']
            if tmpl is not None or self.rng.random() < 0.5:
                kw['arg_template'] = tmpl
            if disp is not None:
                obj = oscfunc(path, dispatcher=disp, **kw)(cb)
            elif spec['kind'] == 'match':
                obj = oscfunc(path, matching=True, **kw)(cb)
            else:
                obj = oscfunc(path, **kw)(cb)
            if type(obj) is not OscFunc:
                raise DecoratorResult(type(obj).__name__)
            self.acc.count('created_via_decorator')
        elif disp is not None:
            obj = OscFunc(cb, path, src, spec['recv_port'], arg_template=tmpl,
                          dispatcher=disp)
        else:
            ctor = OscFunc.matching if spec['kind'] == 'match' else OscFunc
            obj = ctor(cb, path, src, spec['recv_port'], arg_template=tmpl)
        if disp is not None:
            self.acc.count('created_on_dispatcher_instance')
        self.objs[rid] = obj
        self.objs[rid]._vf_nparams = spec['nparams']
        port = spec['recv_port']
        if port is not None and port != self.rig.port and port not in self.rig.extra:
            # the library opened the port for this responder
            if self.rig.adopt_port(port) is not None:
                self.opened_ports.append(port)
                if self.ports_usable:
                    self.ports.append(port)
                    self.probe_todo.append((port, port in self.was_blocked))
                self.acc.count('recv_ports_opened_by_creation')

    def _dispatcher(self, kind, n):
        d = self.disps.get((kind, n))
        if d is None:
            from sc3.base import responders as rpd
            d = (rpd.OscMessagePatternDispatcher if kind == 'match'
                 else rpd.OscMessageDispatcher)()
            self.disps[(kind, n)] = d
        return d

    def _model_create(self, spec):
        self.model.create(spec['kind'], spec['path'], spec['src'],
                          spec['recv_port'], spec['template'], rid=spec['rid'],
                          disp=spec.get('disp', 0))

    def _real_op(self, op):
        """Performs op on the real objects if it is applicable *now* (judged
        on the real side: used from inside callbacks too).  -> performed?"""
        name = op[0]
        if name == 'create':
            return self._real_create(op[1])
        if name == 'cmd_period':
            from sc3.base.systemactions import CmdPeriod
            if len(op) > 1 and op[1] == 'hard':
                CmdPeriod.hard_run()
                # hard_run() re-initialises the node tree of every local server
                # in a routine on AppClock, which registers a '/synced'
                # responder of the library: wait until that has happened
                if not self.rig.wait_sink(b'/sync', 3.0):
                    self.acc.count('hard_run_sync_not_seen')
            else:
                CmdPeriod.run()
            return True
        if name == 'trace':
            from sc3.base.responders import OscFunc
            OscFunc.trace(op[1], op[2])
            return True
        if name == 'disp_free':
            d = self.disps.get(op[1])
            if d is None or d.wrapped_funcs:
                return False
            # outside the statement (internal interface): observed only;
            # what IS judged is that nothing else is disturbed and that
            # responders created on it afterwards fire
            try:
                d.free()
                self.acc.count('observed_dispatcher_free/returned')
            except Exception as e:
                self.acc.count('observed_dispatcher_free/raises-' + exc_name(e))
            return True
        if name == 'other_registry_run':
            # running another system registry is none of the responders' business
            from sc3.base import systemactions as sac
            getattr(sac, op[1]).run()
            return True
        rid = op[1]
        obj = self.objs.get(rid)
        if obj is None:
            return False
        freed = rid in self.real_freed
        if name == 'enable':
            if freed or obj.enabled:
                return False
            obj.enable()
        elif name == 'disable':
            if not obj.enabled:
                return False
            obj.disable()
        elif name == 'free':
            if freed:
                return False
            obj.free()
            self.real_freed.add(rid)
        elif name == 'one_shot':
            if freed:
                return False
            obj.one_shot()
        elif name == 'set_func':
            if freed:
                return False
            self.real_fver[rid] += 1
            obj.func = self.make_cb(rid, self.real_fver[rid], obj._vf_nparams)
        elif name == 'set_perm':
            if freed:
                return False
            obj.permanent = op[2]
        else:
            raise AssertionError(op)
        if name == 'one_shot':
            obj._vf_one_shot = True
        return True

    def _model_op(self, op):
        m, name = self.model, op[0]
        if name == 'create':
            self._model_create(op[1])
        elif name == 'other_registry_run':
            pass
        elif name == 'cmd_period':
            for r in m.resps.values():
                if r.enabled and not r.permanent:
                    self.real_freed.add(r.rid)
            m.cmd_period()
            if self.trace is not None:
                self.trace = 'open'  # (the library ends tracing; not documented)
        elif name == 'trace':
            self.trace = ('hide' if op[2] else 'show') if op[1] else None
        elif name == 'disp_free':
            pass
        elif name == 'set_perm':
            m.set_permanent(op[1], op[2])
        elif name == 'set_func':
            m.set_func(op[1])
        else:
            getattr(m, name)(op[1])

    def _on_invoke(self, rid):
        """Runs in the clock thread, inside the callback of responder rid."""
        obj = self.objs.get(rid)
        if obj is not None and getattr(obj, '_vf_one_shot', False):
            self.real_freed.add(rid)     # a one-shot frees itself when it fires
        op = self.armed.pop(rid, None)
        if op is not None:
            if self._real_op(op):
                self.rig.inv.append(('op', rid, op))
            else:
                self.rig.inv.append(('op-skipped', rid, op))
        n = self.inv_no[rid] = self.inv_no.get(rid, 0) + 1
        plan = self.fault_plan.get(rid)
        if plan is not None and n in plan[0]:
            self.rig.inv.append(('raised', rid, plan[1]))
            raise FAULTS[plan[1]](f'injected fault in responder {rid}, invocation {n}')

    # ------------------------------------------------------------ reporting
    def violation(self, key, **w):
        res = getattr(self, 'last_res', None)
        if res is not None and res.clock_step:
            self.acc.mark_inconclusive('host clock stepped during a delivery')
            raise Stop(key)
        w.update({'case': self.case, 'udp': self.udp, 'history': self.log[-40:],
                  'responders': [r.describe() for r in self.model.resps.values()][:20]})
        self.acc.violation(key, w)
        raise Stop(key)

    def top_op(self, op):
        self.log.append(['op', _j(op)])
        try:
            done = self._real_op(op)
        except Exception as e:
            sites = tb_sites(e)
            where = sites[-1][1] if sites else 'harness'
            self.violation(f'C18/op-raises/{op[0]}/{exc_name(e)}/{where}',
                           tb=short_tb(e))
        if done:
            self._model_op(op)
            if op[0] not in ('create', 'trace', 'disp_free'):
                self.feat['state_ops'] += 1
            self.acc.count('hist_op/' + op[0] + ('-hard' if op[0] == 'cmd_period'
                                                  and len(op) > 1 else ''))
        self.check_failed_residue()
        self.check_enabled_flags('after-' + op[0])
        return done

    def create(self, spec):
        """Top-level creation; a creation that failed because another program
        held the receive port is (mostly) tried again once that program is
        gone - the usual continuation - or the port stays taken."""
        done = self.top_op(('create', spec))
        if done or spec.get('fail') != 'port-in-use':
            return
        k = self.rng.random()
        if k < 0.7:
            self.release_port(spec['recv_port'])
            again = self._retry_spec(spec)
            self.acc.count('failed_creation_retries')
            if self.top_op(('create', again)):
                self.acc.count('failed_creation_retries_succeeded')
        elif k < 0.85:
            # tried again while the port is still taken: fails again
            again = self._retry_spec(spec)
            again['fail'] = 'port-in-use'
            self.acc.count('failed_creation_retries')
            self.top_op(('create', again))

    def check_failed_residue(self):
        """A creation that raised must have left nothing registered: no
        responder with its function in the class-level listing, in a
        dispatcher (class defaults and this history's instances) or among the
        CmdPeriod actions.  (The caller never got the object: nobody could
        disable or free it.)  Also (harness thread only, never inside a
        callback): the loop-back probe of ports opened by a creation."""
        while self.probe_todo:
            # "recv_port: ... it will open an UDP port if not opened already":
            # the port of a responder just created receives
            port, after_failure = self.probe_todo.pop()
            self.acc.count('opened_port_probes')
            if self.rig.probe_port(port) is False:
                self.violation('C18/recv-port/port-of-created-responder-does-not-receive'
                               + ('/after-failed-creation' if after_failure else ''),
                               port=port)
        if not self.residue_todo:
            return
        from sc3.base.responders import OscFunc
        from sc3.base.systemactions import CmdPeriod
        todo, self.residue_todo = self.residue_todo, []
        for rid, cb, reason in todo:
            def mine(x):
                return x is not None and (getattr(x, 'func', None) is cb
                                          or getattr(x, '_func', None) is cb)
            where = []
            if any(mine(x) for x in list(OscFunc._all_func_proxies)):
                where.append('class-listing')
            disps = [OscFunc._default_dispatcher, OscFunc._default_matching_dispatcher]
            disps += list(self.disps.values())
            if any(mine(x) for d in disps for x in list(getattr(d, 'wrapped_funcs', ()))):
                where.append('dispatcher')
            if any(mine(getattr(a, '__self__', None)) for a in list(CmdPeriod._actions)):
                where.append('cmdperiod')
            self.acc.count('failed_creation_residue_checks')
            if where:
                self.violation('C18/failed-creation/responder-left-registered/' + reason,
                               rid=rid, where=where)

    def check_predicate_calls(self, calls, arg_lists):
        """Documentation of arg_template: a function item is 'evaluated with
        the corresponding message's value at the same position'.  Every
        evaluation the recording predicates saw must therefore have been given
        the argument at the predicate's position of a message of this
        datagram - never a value no message has there (padding for a missing
        argument, another position, the address)."""
        for rid, pos, name, value in calls:
            self.acc.count('template_predicate_calls_checked')
            if any(len(g) > pos and same_value(g[pos], value) for g in arg_lists):
                continue
            missing = any(len(g) <= pos for g in arg_lists)
            self.violation('C18/arg-template/predicate-called-with-value-not-in-message/'
                           + ('argument-missing' if missing else 'other-value'),
                           rid=rid, position=pos, predicate=name, value=repr(value)[:80],
                           messages=_j(arg_lists)[:4])

    def check_enabled_flags(self, when):
        """The public `enabled` attribute must agree with the model; catches a
        divergence at the operation that caused it instead of at some later
        message (where its cause could no longer be named)."""
        for rid, r in self.model.resps.items():
            obj = self.objs.get(rid)
            if obj is None or bool(obj.enabled) == bool(r.enabled):
                continue
            self.acc.count('enabled_flag_mismatches')
            if r.spent and obj.enabled and r.replaced_after_one_shot:
                self.violation('C18/one-shot-lost-by-function-replacement', rid=rid,
                               observed='enabled is True ' + when)
            if r.spent and obj.enabled:
                self.violation('C18/one-shot-still-enabled-after-firing', rid=rid,
                               observed='enabled is True ' + when,
                               function_raised=rid in self.fault_plan)
            if r.enabled and r.permanent and r.cmdp_since_enable:
                self.violation('C18/missed-invocation/permanent-freed-by-cmdperiod',
                               rid=rid, observed='enabled is False ' + when)
            self.violation(f'C18/enabled-flag-differs/{when}', rid=rid,
                           library=bool(obj.enabled), model=bool(r.enabled))
        self.acc.count('enabled_flag_checks')
        self.check_listings(when)

    def check_listings(self, when):
        """The class-level listings (all / enabled / disabled responders by
        dispatcher type) restricted to this history's responders must agree
        with the model: free() takes a responder off the lists, disable()
        moves it to the disabled ones."""
        from sc3.base.responders import OscFunc
        mine = {id(o): rid for rid, o in self.objs.items()}

        def ids(d):
            out = {}
            for key, lst in d.items():
                got = sorted(mine[id(x)] for x in lst if id(x) in mine)
                if got:
                    out[key] = got
            return out
        try:
            en, dis = ids(OscFunc._all_enabled()), ids(OscFunc._all_disabled())
            allp = sorted(mine[id(x)] for x in list(OscFunc._all_func_proxies)
                          if id(x) in mine)
        except Exception as e:
            sites = tb_sites(e)
            self.violation(f'C18/listing/raises/{exc_name(e)}/'
                           + (sites[-1][1] if sites else 'harness'), tb=short_tb(e))
        exp_en, exp_dis, exp_all = {}, {}, []
        for rid, r in sorted(self.model.resps.items()):
            if rid not in self.objs:
                continue
            key = 'OSC matched' if r.kind == 'match' else 'OSC unmatched'
            if r.enabled:
                exp_en.setdefault(key, []).append(rid)
            elif not r.freed:
                exp_dis.setdefault(key, []).append(rid)
            if not r.freed:
                exp_all.append(rid)
        self.acc.count('listing_checks')
        for name, got, exp in (('enabled', en, exp_en), ('disabled', dis, exp_dis),
                               ('all', allp, exp_all)):
            if got != exp:
                self.violation(f'C18/listing/{name}-differs', when=when, got=got,
                               expected=exp)

    # ------------------------------------------------------------ messages
    def _gen_message(self):
        """-> (addr, args, sender, port)"""
        rng, m = self.rng, self.model
        live = [r for r in m.resps.values() if r.enabled]
        sender = rng.choice(self.senders)
        port = rng.choice(self.ports) if rng.random() < 0.2 else self.ports[0]
        if live and rng.random() < 0.8:
            r = rng.choice(live)
            if r.kind == 'match' and rng.random() < 0.7:
                addr = gen.pattern_for(rng, r.path)
            elif rng.random() < 0.12:
                addr = gen.pattern_for(rng, r.path)
            else:
                addr = r.path
            args = gen.args_for_template(rng, r.template)
            k = rng.random()
            if k < 0.2 and args:
                args = args[:rng.randrange(len(args))]          # shorter than template
            elif k < 0.4:
                args = args + gen.rand_args(rng)                 # longer
            elif k < 0.5 and args:
                i = rng.randrange(len(args)); args[i] = gen.rand_arg(rng)
            elif not args and rng.random() < 0.6:
                args = gen.rand_args(rng)
            if r.src is not None and rng.random() < 0.7:
                cands = [s for s in self.senders if s[0] == r.src[0]
                         and (r.src[1] is None or r.src[1] == s[1])]
                if cands:
                    sender = rng.choice(cands)
            if r.recv_port is not None and rng.random() < 0.7 \
                    and r.recv_port in self.ports:
                port = r.recv_port
        else:
            addr = rng.choice(self.paths + [gen.rand_path(rng, 0.05)])
            args = gen.rand_args(rng)
        if self.trace == 'hide' and not self.udp and rng.random() < 0.35:
            addr = STATUS_REPLY
        if addr == STATUS_REPLY and not self.udp and self.server_addr is not None \
                and rng.random() < 0.6:
            sender = tuple(self.server_addr)       # as if a server had sent it
        return addr, args, sender, port

    def send(self):
        rng = self.rng
        addr, args, sender, port = self._gen_message()
        msgs = [(None, addr, args)]
        d = osc.enc_msg(addr, *args)
        faulty_live = any(rid in self.fault_plan for rid, r in self.model.resps.items()
                          if not r.freed)
        if not self.armed and not faulty_live and rng.random() < 0.25:
            # bundle: 2-3 messages with distinct content, maybe nested
            tt = rng.choice([1, 1, self._future_tt(), self._future_tt()])
            extra = []
            seen = {(addr, repr(args))}
            for _ in range(rng.randint(1, 2)):
                a2, g2, _, _ = self._gen_message()
                if (a2, repr(g2)) in seen:
                    continue
                seen.add((a2, repr(g2)))
                extra.append((a2, g2))
            if extra and rng.random() < 0.3:
                tt2 = rng.choice([tt, self._future_tt()])
                inner = osc.enc_bundle(tt2, *[osc.enc_msg(a, *g) for a, g in extra])
                d = osc.enc_bundle(tt, osc.enc_msg(addr, *args), inner)
                msgs = [(tt, addr, args)] + [(tt2, a, g) for a, g in extra]
            else:
                d = osc.enc_bundle(tt, osc.enc_msg(addr, *args),
                                   *[osc.enc_msg(a, *g) for a, g in extra])
                msgs = [(tt, addr, args)] + [(tt, a, g) for a, g in extra]
            self.feat['bundles'] += 1
        # cross-check the harness' own encoding with the independent decoder
        assert gen.diagnose(d)[0] == 'valid', d
        self.log.append(['dgram', {'hex': d.hex(), 'sender': list(sender), 'port': port,
                                   'msgs': [[t, a, _j(g)] for t, a, g in msgs]}])
        res = self.rig.deliver(d, sender, port, udp=self.udp)
        self.check_delivery(d, msgs, res)

    def _future_tt(self):
        # a time tag around now (+/- a few seconds), NTP 32.32
        t = self.rig.init_time + self.rig.main.elapsed_time() + self.rng.choice(
            [-2.0, 0.0, 0.25, 3.5, 100.0])
        return int((t + 2208988800.0) * 4294967296.0)

    # ------------------------------------------------------------ the oracle
    def check_delivery(self, d, msgs, res, per_message=True):
        acc, m = self.acc, self.model
        self.last_res = res
        if res.send_error:
            acc.count('udp_send_errors')
            return
        if res.hangs:
            self.violation('C18/hang/valid/' + res.hangs[0][0], res=res.witness())
        if res.escaped:
            e = res.escaped
            self.violation(f"C18/handle-request-raises/{e['exc']}", res=res.witness())
        if not res.canary_ok:
            self.violation('C18/receiver-dead/after-valid-datagram', res=res.witness())
        if res.canary_tries > 1:
            acc.count('canary_retries')       # statistic: expected to stay 0
        self.check_predicate_calls(res.pred, [g for _, _, g in msgs])
        self.check_failed_residue()          # creations inside callbacks
        injected = [e for e in res.inv if e[0] == 'raised']
        clock_errs = [e for e in res.errs if e['exc']
                      and not e['exc'].startswith(INJECTED_PREFIX)]
        if injected:
            acc.count('injected_callback_faults', len(injected))
            if not any(e['exc'] and e['exc'].startswith(INJECTED_PREFIX) for e in res.errs):
                acc.count('injected_faults_not_logged_by_clock')
        if clock_errs:
            e = clock_errs[0]
            site = e['sites'][-1][1] if e['sites'] else e['logger']
            self.violation(f"C18/dispatch-raises/{e['exc']}/{site}",
                           err=e, res=res.witness())
        # -- which messages were delivered (raw receive hook) --------------
        pending = list(msgs)
        order = []
        for rmsg, rtime, raddr, rport in res.raw:
            hit = None
            for k, (tt, a, g) in enumerate(pending):
                if rmsg[0] == a and same_value(rmsg[1:], g):
                    if hit is None:
                        hit = k
                    if self.rig.time_ok(rtime, tt, res.t0, res.t1):
                        hit = k          # same content twice: pair by time
                        break
            if hit is None:
                self.violation('C18/delivered-unknown-message', got=_j(rmsg),
                               res=res.witness())
            tt, a, g = pending.pop(hit)
            order.append((tt, a, g))
            if not self.rig.time_ok(rtime, tt, res.t0, res.t1):
                self.violation('C18/wrong-args/time/' + ('message' if tt in (None, 1)
                               else 'bundle'), got=rtime, timetag=tt,
                               expected=self.rig.expected_time(tt), t0=res.t0, t1=res.t1)
            if rport != res.recv_port:
                self.violation(PORT_KEY, got=rport, arrived_on=res.recv_port,
                               library_says=self.rig.itf.port)
            if raddr != tuple(res.sender):
                self.violation('C18/wrong-args/sender-or-port', got=[raddr, rport],
                               expected=[res.sender, res.recv_port])
        if pending and injected and len(msgs) == 1:
            # the library aborts the dispatch of a message at the first
            # raising receive function; whether the plain receive hook ran
            # before it is open (unordered set of receive functions)
            acc.count('verdict_open/raw-hook-after-raising-callback')
            order.extend(pending)
            pending = []
        if pending:
            self.violation('C18/message-not-delivered', missing=_j(pending),
                           res=res.witness())
        acc.count('raw_deliveries_checked', len(order))
        self.check_trace(res, bool(injected))
        if not per_message:
            return
        # -- per message, in delivery order ---------------------------------
        # an op entry belongs to the invocation that performed it
        groups = []
        for e in res.inv:
            if e[0] == 'inv':
                groups.append([e])
            elif groups:
                groups[-1].append(e)
        for tt, addr, args in order:
            mine, rest = [], []
            for g in groups:
                inv = g[0]
                (mine if (inv[3][0] == addr and same_value(inv[3][1:], args))
                 else rest).append(g)
            groups = rest
            self.check_message(tt, addr, args, res, [e for g in mine for e in g])
        if groups:
            self.violation('C18/invocation-for-unknown-message',
                           entries=_j([g[0][:4] for g in groups[:5]]))
        self.check_enabled_flags('after-dispatch')

    def check_trace(self, res, injected):
        """OscFunc.trace(flag, hide_status): while tracing every delivered
        message is dumped once (INFO record of sc3.base.responders), with
        hide_status except '/status.reply' messages from a server's address;
        while not tracing nothing is dumped.  (Which responders fire never
        depends on tracing: the dispatch model does not know about it.)"""
        acc = self.acc
        got = list(res.traced)
        if self.trace == 'open' or injected:
            acc.count('verdict_open/trace')
            return
        left = list(got)
        for rmsg, rtime, raddr, rport in res.raw:
            hidden = (self.trace == 'hide' and rmsg[0] == STATUS_REPLY
                      and self.server_addr is not None
                      and tuple(raddr) == tuple(self.server_addr))
            hit = None
            for k, text in enumerate(left):
                if text.endswith(f'    msg: {rmsg}') and f'    time: {rtime}\n' in text \
                        and f'    recv_port: {rport}\n' in text:
                    hit = k
                    break
            if self.trace is None:
                continue
            if hidden:
                acc.count('trace_status_replies_hidden')
                if hit is not None:
                    self.violation('C18/trace/status-reply-not-hidden', msg=_j(rmsg),
                                   sender=list(raddr))
                continue
            if hit is None:
                self.violation('C18/trace/message-not-dumped'
                               + ('/status-reply-not-from-a-server'
                                  if self.trace == 'hide' and rmsg[0] == STATUS_REPLY else ''),
                               msg=_j(rmsg), sender=list(raddr), mode=self.trace,
                               dumped=got[:4])
            left.pop(hit)
            acc.count('trace_dumps_checked')
            if self.trace == 'hide' and rmsg[0] == STATUS_REPLY:
                acc.count('trace_status_replies_shown_not_from_server')
        if left:
            self.violation('C18/trace/dumped-while-off' if self.trace is None
                           else 'C18/trace/dumped-unknown-or-twice', mode=self.trace,
                           dumped=left[:4])
        if self.trace is None and res.raw:
            acc.count('trace_off_checked')

    def check_message(self, tt, addr, args, res, entries):
        acc, m, feat = self.acc, self.model, self.feat
        feat['messages'] += 1
        acc.count('hist_messages')
        if any(c in addr for c in '?*[{'):
            feat['pattern_msgs'] += 1
        sender, port = tuple(res.sender), res.recv_port
        exp = m.expectations(addr, args, sender, port)
        invs = [e for e in entries if e[0] == 'inv']
        ops = [e for e in entries if e[0] == 'op']
        touched = set()
        removed_now = set()
        for _, holder, op in ops:
            feat['in_cb_ops'] += 1
            acc.count('in_callback_ops/' + op[0])
            if op[0] == 'create':
                touched.add(op[1]['rid'])
            else:
                touched.add(op[1])
                if op[0] in ('free', 'disable'):
                    removed_now.add(op[1])
        raisers = [e[1] for e in entries if e[0] == 'raised']
        counts = {}
        for e in invs:
            counts[e[1]] = counts.get(e[1], 0) + 1
            r = m.resps.get(e[1])
            if r is not None and r.one_shot and exp.get(e[1]) in ('must', 'either'):
                removed_now.add(e[1])
        acc.count('invocations_checked', len(invs))
        n_must = sum(1 for v in exp.values() if v == 'must')
        feat['expected_inv'] += n_must
        if any(v == 'not' and m.resps[r].enabled for r, v in exp.items()):
            feat['negatives'] += 1
        for r in m.resps.values():
            if r.template and len(args) < len(r.template) and r.enabled \
                    and m.address_accepts(r, addr):
                feat['short_msgs'] += 1
                acc.count('messages_shorter_than_template')
                break
        for rid, v in exp.items():
            r = m.resps[rid]
            if v == 'either' and r.template and self._predicate_beyond(r.template, args):
                acc.count('predicate_items_beyond_message')
        # exactly-once / never
        for rid, v in exp.items():
            c = counts.get(rid, 0)
            r = m.resps[rid]
            if rid in touched:
                acc.count('verdict_open/touched-during-dispatch')
                continue
            if c > 1:
                self.violation(f'C18/invoked-twice/{r.kind}', rid=rid, count=c,
                               msg=_j([addr] + args))
            if v == 'either':
                acc.count('verdict_open/template-beyond-message')
                continue
            if r.recv_port is not None and r.enabled:
                # filtered on the receive port: fires for what arrived there
                # (the true port, see c18_rig.Rig.port), silent for the rest
                acc.count('recv_port_filter_verdicts/' + ('fires' if v == 'must' and c == 1
                          else 'silent' if v == 'not' and c == 0 else 'other'))
            if v == 'must' and c == 0 and raisers and not any(
                    q in m.resps and m.order_constrained(rid, q) for q in raisers):
                # a responder function raised: the library abandons the rest
                # of this message's dispatch; only responders registered
                # before the raising one on its path must have run
                acc.count('verdict_open/after-raising-callback')
                continue
            if v == 'must' and c == 0:
                why = self._why_missed(r, removed_now, addr)
                self.violation(pattern_key(False, 'trailing-minus-in-brackets')
                               if why == 'TRAILING-MINUS' else 'C18/missed-invocation/' + why,
                               rid=rid, msg=_j([addr] + args), sender=sender, port=port,
                               invoked=[e[1] for e in invs])
            if v == 'not' and c == 1 and r.spent and r.replaced_after_one_shot:
                self.violation('C18/one-shot-lost-by-function-replacement', rid=rid,
                               observed='invoked again after it fired',
                               msg=_j([addr] + args))
            if v == 'not' and c == 1:
                why = m.why_not(r, addr, args, sender, port)
                self.violation(pattern_key(True, why[8:]) if why.startswith('pattern/')
                               else 'C18/unexpected-invocation/' + why,
                               rid=rid, msg=_j([addr] + args), sender=sender, port=port)
        for rid in counts:
            if rid in self.failed:
                self.violation('C18/failed-creation/invoked-although-creation-failed/'
                               + self.failed[rid], rid=rid, count=counts[rid],
                               msg=_j([addr] + args), port=port)
            if rid not in exp and rid not in touched:
                self.violation('C18/unexpected-invocation/unknown-responder', rid=rid)
        # arguments
        for e in invs:
            _, rid, ver, msg, time_, a, p = e
            r = m.resps.get(rid)
            if r is not None and rid not in touched and ver != r.fver:
                self.violation('C18/wrong-function-version', rid=rid, got=ver,
                               expected=r.fver)
            if not (msg[0] == addr and same_value(msg[1:], args)):
                self.violation('C18/wrong-args/msg', got=_j(msg))
            if time_ is not None and not self.rig.time_ok(time_, tt, res.t0, res.t1):
                self.violation('C18/wrong-args/time/' + ('message' if tt in (None, 1)
                               else 'bundle'), got=time_, timetag=tt,
                               expected=self.rig.expected_time(tt))
            if p is not None and p != port:
                self.violation(PORT_KEY, got=p, arrived_on=port, rid=rid)
            if a is not None:
                import ipaddress
                if a[0] != sender[0] or a[2] != sender[1] \
                        or a[1] != int(ipaddress.IPv4Address(sender[0])) \
                        or (p is not None and p != port):
                    self.violation('C18/wrong-args/sender-or-port', got=[a, p],
                                   expected=[sender, port])
        # order within one path of one dispatcher
        seq = [e[1] for e in invs if e[1] in m.resps and e[1] not in touched]
        for i in range(len(seq)):
            for j in range(i + 1, len(seq)):
                if seq[i] != seq[j] and m.order_constrained(seq[j], seq[i]):
                    self.violation(f'C18/order/{m.resps[seq[i]].kind}', got=seq,
                                   path=m.resps[seq[i]].path)
                elif seq[i] != seq[j] and m.order_constrained(seq[i], seq[j]):
                    acc.count('order_pairs_checked')
        # statistic only (DESIGN: order is defined per path of one dispatcher)
        for i in range(len(seq)):
            for j in range(i + 1, len(seq)):
                a, b = m.resps[seq[i]], m.resps[seq[j]]
                if a.kind == b.kind and a.path != b.path and b.created < a.created \
                        and b.enabled_at < a.enabled_at:
                    acc.count('stat_cross_path_registration_order_inversions')
        # follow the observation
        for e in entries:
            if e[0] == 'inv':
                if e[1] in m.resps and (exp.get(e[1]) in ('must', 'either')
                                        or e[1] in touched):
                    m.fired(e[1])
                    if m.resps[e[1]].spent:
                        self.real_freed.add(e[1])
                        acc.count('one_shots_fired')
            elif e[0] == 'op':
                self._model_op(e[2])

    @staticmethod
    def _predicate_beyond(template, args):
        """Is a function item the first template item that has no argument to
        look at (everything before it accepts)?  Only then does the argument
        matcher get as far as that item."""
        for i, item in enumerate(template):
            if i < len(args):
                if item is None:
                    continue
                if item[0] == 'val' and item[1] != args[i]:
                    return False
                if item[0] == 'fn' and not PREDICATES[item[1]](args[i]):
                    return False
            elif item is not None:
                return item[0] == 'fn'
        return False

    def _why_missed(self, r, removed_now, addr=None):
        m = self.model
        for q in removed_now:
            rq = m.resps.get(q)
            if rq is not None and rq is not r and rq.kind == r.kind \
                    and rq.disp == r.disp \
                    and rq.path == r.path and rq.enabled_at < r.enabled_at:
                self.acc.count('missed_after_removal/' + r.kind)
                return 'after-removal-during-dispatch'
        if r.permanent and r.cmdp_since_enable:
            return 'permanent-freed-by-cmdperiod'
        if r.kind == 'match' and addr is not None and '-]' in addr:
            return 'TRAILING-MINUS'
        filt = ''.join(x for x, on in (('+src', r.src), ('+port', r.recv_port),
                                       ('+tmpl', r.template is not None)) if on)
        return f'other/{r.kind}{filt}'

    # ------------------------------------------------------------ driver
    def run(self):
        rng, m = self.rng, self.model
        n_ops = rng.choice([rng.randint(4, 12), rng.randint(10, 30), rng.randint(20, 50)])
        weights = {'create': 5, 'msg': 11, 'disable': 1.2, 'enable': 1.5, 'free': 1,
                   'one_shot': 1.6, 'set_func': 1, 'cmd_period': 0.4, 'other_registry_run': 0.3, 'set_perm': 0.6,
                   'arm': 1.6, 'hard_run': 0.12, 'trace': 0.8, 'disp_free': 0.3}
        names, ws = zip(*weights.items())
        try:
            for _ in range(rng.randint(1, 4)):
                self.create(self._new_spec())
            for _ in range(n_ops):
                name = rng.choices(names, ws)[0]
                alive = [r for r in m.resps.values() if not r.freed]
                if name == 'create':
                    if len(alive) < 10:
                        self.create(self._new_spec())
                elif name == 'msg':
                    self.send()
                elif name == 'cmd_period':
                    self.top_op(('cmd_period',))
                elif name == 'hard_run':
                    self.top_op(('cmd_period', 'hard'))
                elif name == 'trace':
                    if self.trace is None and rng.random() < 0.8:
                        self.top_op(('trace', True, rng.random() < 0.5))
                    else:
                        self.top_op(('trace', False, rng.random() < 0.5))
                elif name == 'disp_free':
                    idle = [k for k in sorted(self.disps)
                            if not any(r.enabled and r.disp == k[1] and r.kind == k[0]
                                       for r in m.resps.values())]
                    if idle:
                        self.top_op(('disp_free', rng.choice(idle)))
                elif name == 'other_registry_run':
                    self.top_op(('other_registry_run', rng.choice(['StartUp', 'ShutDown'])))
                elif not alive:
                    continue
                elif name == 'arm':
                    holders = [r for r in alive if r.enabled and r.rid not in self.armed]
                    if not holders:
                        continue
                    h = rng.choice(holders)
                    k = rng.choice(['free', 'free', 'disable', 'enable', 'create',
                                    'set_func', 'free-self', 'disable-self'])
                    if k == 'create':
                        op = ('create', self._new_spec())
                        if rng.random() < 0.6 and not op[1].get('fail'):
                            op[1]['path'], op[1]['kind'] = h.path, h.kind
                            op[1].pop('path_arg', None)
                            op[1]['disp'] = h.disp
                    elif k.endswith('-self'):
                        op = (k[:-5], h.rid)
                    else:
                        same = [r for r in alive if r.path == h.path and r.kind == h.kind]
                        t = rng.choice(same if same and rng.random() < 0.7 else alive)
                        op = (k, t.rid)
                    self.armed[h.rid] = op
                    self.log.append(['arm', h.rid, _j(op)])
                else:
                    t = rng.choice(alive)
                    if name == 'enable' and (t.enabled or t.freed):
                        cands = [r for r in alive if not r.enabled]
                        if not cands:
                            continue
                        t = rng.choice(cands)
                    if name == 'set_perm':
                        self.top_op(('set_perm', t.rid, rng.random() < 0.7))
                    else:
                        self.top_op((name, t.rid))
            # epilogue: free everything, nothing may be invoked afterwards
            for r in list(m.resps.values()):
                if not r.freed:
                    self.top_op(('free', r.rid))
            self.armed.clear()
            if self.trace is not None:
                self.top_op(('trace', False, False))
            for k in sorted(self.disps):
                self.top_op(('disp_free', k))
            probe_ports = [None] + (list(self.opened_ports) if self.ports_usable else [])
            for p in sorted({r.path for r in m.resps.values()}):
                for port in probe_ports:
                    d = osc.enc_msg(p, 1, 2, 'hello')
                    self.log.append(['dgram', {'hex': d.hex(), 'epilogue': True,
                                               'port': port}])
                    res = self.rig.deliver(d, self.senders[0], port, udp=self.udp)
                    self.check_delivery(d, [(None, p, [1, 2, 'hello'])], res)
                    self.acc.count('epilogue_probes')
            # residue: a freed responder must not stay registered with CmdPeriod
            from sc3.base.systemactions import CmdPeriod
            mine = {id(o) for o in self.objs.values()}
            left = [a for a in CmdPeriod._actions
                    if id(getattr(a, '__self__', None)) in mine]
            self.acc.count('cmdperiod_residue_checks')
            if left:
                self.violation('C18/cmdperiod-residue/freed-responder-still-registered',
                               count=len(left))
            return True
        except Stop:
            # state unknown after a violation: leave nothing behind for the
            # next history of this process
            self.rig.on_invoke = None
            self.armed.clear()
            try:
                from sc3.base.responders import OscFunc
                OscFunc.trace(False)
            except Exception:
                pass
            for rid, obj in self.objs.items():
                try:
                    obj.free()
                except Exception:
                    pass
            try:
                from sc3.base.responders import OscFunc
                for x in list(OscFunc._all_func_proxies):
                    if any(getattr(x, '_func', None) is cb for cb in self.failed_cbs):
                        x.free()
            except Exception:
                pass
            try:
                from sc3.base.systemactions import CmdPeriod
                for a in [a for a in CmdPeriod._actions
                          if any(getattr(a, '__self__', None) is o
                                 for o in self.objs.values())]:
                    CmdPeriod.remove(a)
            except Exception:
                pass
            return False
        finally:
            self.rig.on_invoke = None
            self.armed.clear()
            self.cleanup_ports()

    def cleanup_ports(self):
        """The other programs go away and the ports the library opened for
        this history are closed again (public API), so that the next history
        finds them free."""
        for port in list(self.blockers):
            self.release_port(port)
        for port in self.opened_ports:
            try:
                if not self.rig.close_port(port):
                    self.acc.count('observed_extra_port_not_closed')
            except Exception as e:
                self.acc.count('observed_close_udp_port_raises/' + exc_name(e))
        self.opened_ports = []


def _j(x):
    if isinstance(x, (bytes, bytearray)):
        return {'hex': bytes(x).hex()}
    if isinstance(x, dict):
        return {k: _j(v) for k, v in x.items()}
    if isinstance(x, (list, tuple)):
        return [_j(v) for v in x]
    return x


def run(spec, acc, udp=False, rig=None):
    """Shard entry: one Rig per worker process, one model per history."""
    import os
    from .c18_rig import Rig
    from .common import iter_cases, case_rng, h64
    from .model_dispatch import DispatchModel, selftest
    selftest(); gen.selftest(); osc.selftest()
    if rig is None:
        rig = Rig()
    rig.sink_server()
    ports = []
    if not udp:
        for k in (0, 1):
            p = rig.open_port(rig.port + 60 + 7 * k)
            if p is not None:
                ports.append(p)
        acc.count('extra_recv_ports_opened', len(ports))
    else:
        rig.udp_client()
    shard = 'histudp' if udp else 'hist'
    for i in iter_cases(spec):
        rng = case_rng(spec['seed'], 'C18', shard, i)
        runner = HistoryRunner(rig, DispatchModel(), rng, acc, i, udp=udp, ports=ports)
        clean = runner.run()
        f = runner.feat
        nontrivial = f['expected_inv'] > 0 and f['negatives'] > 0 and f['state_ops'] > 0
        acc.case(h64(repr(runner.log)), nontrivial=nontrivial)
        acc.count('histories')
        acc.count('histories_clean' if clean else 'histories_stopped_at_violation')
        acc.count('in_callback_ops_total', f['in_cb_ops'])
        acc.count('hist_bundles', f['bundles'])
        acc.count('hist_pattern_messages', f['pattern_msgs'])
        if udp:
            acc.count('udp_datagrams', sum(1 for e in runner.log if e[0] == 'dgram'))
        if acc.want_sample() and clean and nontrivial and f['in_cb_ops'] \
                and len(runner.log) < 30:
            acc.sample({'case': i, 'kind': shard, 'history': runner.log})
    acc.count('callbacks_under_main_lock', rig.lock_owned)
    acc.count('callbacks_without_main_lock', rig.lock_not_owned)
    rig.lock_owned = rig.lock_not_owned = 0
