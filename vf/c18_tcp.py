"""C18 TCP receive path: the library's OscTcpInterface (NetAddr.connect) reads
size-prefixed OSC packets from a byte stream.  The harness is the peer: it
accepts the library's connection and writes valid frames whole, coalesced,
or cut at arbitrary byte positions (also inside the 4-byte size prefix, and
frames larger than a socket buffer), then a canary frame.  Every message must
be delivered exactly once, in order, with the peer as sender and the local
port of the connection as receive port; the receiver must survive.

No verdict depends on elapsed time: if the canary frame has not been
dispatched after a few seconds the harness only *ends the stream*, waits for
the reader thread to run into EOF and terminate and for SystemClock to flush,
and then judges the final state (every byte was offered, the reader is done).
A reader that is still running 30 s after EOF makes the shard inconclusive.
The 2 ms pauses between fragments merely make it likely that the reader sees
a fragment alone; a pause it does not observe makes the case less effective,
never wrong."""

import socket
import struct
import threading
import time

from . import osc
from . import c18_gen as gen
from .common import iter_cases, case_rng, h64
from .c18_rig import CANARY, same_value


def frame(d):
    return struct.pack('>i', len(d)) + d


class Peer:
    def __init__(self, rig):
        from sc3.base.netaddr import NetAddr
        self.rig = rig
        self.srv = socket.socket()
        self.srv.bind(('127.0.0.1', 0))
        self.srv.listen(1)
        self.addr = self.srv.getsockname()
        self.target = NetAddr('127.0.0.1', self.addr[1])
        done = threading.Event()
        self.target.connect(on_complete=lambda *a: done.set())
        self.srv.settimeout(10)
        self.conn, self.lib_end = self.srv.accept()
        self.conn.setsockopt(socket.IPPROTO_TCP, socket.TCP_NODELAY, 1)
        self.ok = done.wait(10)
        self.itf = self.target._osc_interface

    def alive(self):
        t = getattr(self.itf, '_tcp_thread', None)
        return t is not None and t.is_alive()

    def close(self):
        try:
            self.target.disconnect()
        except Exception:
            pass
        for s in (self.conn, self.srv):
            try:
                s.close()
            except Exception:
                pass


def run(spec, acc):
    from .c18_rig import Rig
    rig = Rig()
    peer = Peer(rig)
    if not peer.ok:
        acc.mark_inconclusive('TCP connection to the harness peer not established')
        return
    uid = 0
    for i in iter_cases(spec):
        rng = case_rng(spec['seed'], 'C18', 'tcp', i)
        if not peer.alive() or not peer.ok:
            peer.close()
            peer = Peer(rig)
            acc.count('tcp_reconnects')
            if not peer.ok:
                acc.mark_inconclusive('TCP reconnect failed')
                return
        msgs = []
        for _ in range(rng.choice([1, 1, 2, 3, 4])):
            uid += 1
            args = [uid] + gen.rand_args(rng)
            if rng.random() < 0.04:
                args.append(bytes(rng.randrange(256) for _ in range(64)) * rng.choice([40, 3000]))
            msgs.append((rng.choice(gen.HIST_PATHS), args))
        stream = b''.join(frame(osc.enc_msg(a, *g)) for a, g in msgs)
        mode = rng.choice(['whole', 'coalesced', 'body-cut', 'size-cut', 'random-cuts'])
        if mode == 'whole':
            chunks = [frame(osc.enc_msg(a, *g)) for a, g in msgs]
        elif mode == 'coalesced':
            chunks = [stream]
        elif mode == 'size-cut':
            k = rng.randint(1, 3)
            chunks = [stream[:k], stream[k:]]
        elif mode == 'body-cut':
            k = rng.randint(5, max(5, len(frame(osc.enc_msg(*[msgs[0][0]] + msgs[0][1]))) - 1))
            chunks = [stream[:k], stream[k:]]
        else:
            cuts = sorted(rng.sample(range(1, len(stream)), min(len(stream) - 1,
                                                              rng.randint(1, 5))))
            chunks = [stream[a:b] for a, b in zip([0] + cuts, cuts + [len(stream)])]
        big = len(stream) > 60000
        cls = 'whole-frames' if mode in ('whole', 'coalesced') and not big else 'fragmented'
        rig.raw.clear(); rig.errs.clear()
        rig.mon.arm(len(stream))
        t0 = rig.main.elapsed_time()
        try:
            for c in chunks:
                peer.conn.sendall(c)
                if len(chunks) > 1:
                    time.sleep(0.002)       # let the reader see the fragment alone
            rig.canary_seq += 1
            rig.canary_ev.clear()
            peer.conn.sendall(frame(osc.enc_msg(CANARY, rig.canary_seq)))
        except OSError as e:
            acc.count('tcp_send_errors')
            peer.ok = False
            continue
        my_canary = rig.canary_seq
        ok = False
        deadline = time.monotonic() + 6.0
        while time.monotonic() < deadline:
            if rig.canary_ev.wait(0.05):
                ok = True
                break
            if not peer.alive():           # receive thread gone: nothing will come
                break
        if not ok:
            # No verdict on elapsed time.  Everything has been written: end the
            # stream, let the reader run into EOF and finish, flush SystemClock
            # with a canary through the UDP interface, and judge the final
            # state (a correct reader has by then delivered every frame).
            acc.count('tcp_stream_closed_to_decide')
            try:
                peer.conn.shutdown(socket.SHUT_WR)
            except OSError:
                pass
            t = getattr(peer.itf, '_tcp_thread', None)
            if t is not None:
                t.join(30.0)
            if t is not None and t.is_alive():
                acc.mark_inconclusive('tcp: reader still running 30 s after end of stream '
                                      '(starved host?)')
                peer.close()
                return
            if not rig._canary(False, 30.0):
                acc.mark_inconclusive('tcp: SystemClock did not dispatch a flush canary')
                peer.close()
                return
            ok = my_canary in rig.canaries_seen
            peer.ok = False                # next case: fresh connection
        t1 = rig.main.elapsed_time()
        acc.count('tcp_frames', len(msgs))
        acc.count('tcp_mode/' + mode)
        got = list(rig.raw)
        w = {'case': i, 'mode': mode, 'chunk_sizes': [len(c) for c in chunks][:8],
             'messages': [[a] + [x if not isinstance(x, bytes) or len(x) < 20 else
                                 f'<{len(x)} bytes>' for x in g] for a, g in msgs],
             'delivered': [[x if not isinstance(x, bytes) or len(x) < 20 else
                            f'<{len(x)} bytes>' for x in m] for m, *_ in got][:6],
             'canary_delivered': ok, 'receive_thread_alive': peer.alive(),
             'logged': [e['exc'] for e in rig.errs][:4]}
        acc.case(h64(repr((mode, [len(c) for c in chunks], msgs))),
                 nontrivial=cls == 'fragmented')
        bad = None
        if len(got) != len(msgs) or not ok:
            bad = 'message-lost' if ok else 'receiver-dead'
        else:
            for (m, t, sender, port), (a, g) in zip(got, msgs):
                if m[0] != a or not same_value(m[1:], g):
                    bad = 'wrong-message'
                elif sender != tuple(peer.addr) or port != peer.itf.port:
                    bad = 'wrong-sender-or-port'
                elif not (t0 - 1e-6 <= t <= t1 + 1e-6):
                    bad = 'wrong-time'
        if bad:
            key = ('C18/tcp/fragmented-frame-not-reassembled' if cls == 'fragmented'
                   and bad in ('message-lost', 'receiver-dead', 'wrong-message')
                   else f'C18/tcp/{bad}/{cls}')
            acc.violation(key, dict(w, what=bad))
        else:
            acc.count('tcp_messages_delivered_exactly', len(msgs))
        if acc.want_sample() and cls == 'fragmented' and len(stream) < 200:
            acc.sample({'kind': 'tcp', **w})
    peer.close()
